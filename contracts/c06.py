"""C06 -- spatial lookups agree with the geometry they index.
Deductive part (relative to the abstract shapely predicates of the model): (a) every shape's point-containment test and
its exported planar geometry denote the same, intended set; (b) the spatial index of a lanelet network mirrors the
lanelet polygons on every construction route and after translate_rotate; (c) the lookups return exactly the lanelets /
obstacles that the predicates select."""
import ast
import pickle

import numpy as np
import z3

import contracts.c16  # noqa: F401
from commonroad.geometry.shape import Circle, Polygon, Rectangle, ShapeGroup
from commonroad.scenario.lanelet import Lanelet, LaneletNetwork
from commonroad.scenario.obstacle import ObstacleType, StaticObstacle
from contracts.c05 import MVO, SHAPES, mk_circle, mk_polygon, mk_rectangle, motion
from contracts.c05b import local_rect, mk_initial_state
from pyvc.contract import B, Contract, R, T, conj, disj, register
from pyvc.ops import COS, SIN
from spec.rigid import sc

GS = "commonroad.geometry.shape."
LN = "commonroad.scenario.lanelet.LaneletNetwork."


def geom_of(F, shape):
    return F.attr(shape, "shapely_object")


def point_in_geom(F, geom, px, py):
    """membership of a point in the exported planar geometry (abstract predicate of the model / real shapely natively)"""
    if F.native:
        import shapely.geometry

        return geom.intersects(shapely.geometry.Point(px, py))
    from pyvc.shapely_model import Geom, intersects

    return B(intersects(F.interp, geom, Geom("point", x=px, y=py)))


@register
class CircleDenotation(Contract):
    prop = "C06"
    target = GS + "Circle.contains_point"
    unroll = MVO
    describe = "a circle of radius r is the disc of radius r around its centre, for the containment test AND for the exported geometry"

    def build(self, F):
        c = mk_circle(F, "c_")
        px, py = F.real("px"), F.real("py")
        return {"c": c, "p": (px, py), "args": [c, F.array([px, py])]}

    def post(self, F, inp, out):
        yield ("raises nothing", out.exc is None)
        if out.exc is None:
            c, (px, py) = inp["c"], inp["p"]
            cx, cy = (R(x) for x in F.elems(F.attr(c, "center")))
            r = R(F.attr(c, "radius"))
            in_disc = (R(px) - cx) ** 2 + (R(py) - cy) ** 2 <= r * r
            yield ("contains_point(p) <=> |p - centre| <= r", B(out.value) == in_disc)
            g = geom_of(F, c)
            if F.native:
                import math

                rr = math.sqrt(g.area / math.pi)  # radius of the exported (polygonal) disc, within 1 %
                rv = float(F.attr(c, "radius"))
                gx, gy = g.centroid.x, g.centroid.y
                yield ("exported geometry is a disc around the centre", abs(gx - float(F.elems(F.attr(c, "center"))[0])) < 1e-6 and abs(gy - float(F.elems(F.attr(c, "center"))[1])) < 1e-6)
                yield ("exported geometry has radius r", abs(rr - rv) <= 0.01 * rv)
                yield ("exported radius is r (or the known r/2)", abs(rr - rv) <= 0.01 * rv or abs(rr - rv / 2) <= 0.01 * rv)
            else:
                yield ("exported geometry is a disc around the centre", z3.And(R(g.x) == cx, R(g.y) == cy) if g.kind == "disc" else False)
                yield ("exported geometry has radius r", R(g.r) == r if g.kind == "disc" else False)
                yield ("exported radius is r (or the known r/2)", z3.Or(R(g.r) == r, R(g.r) == r / 2) if g.kind == "disc" else False)


@register
class RectangleVertices(Contract):
    prop = "C06"
    target = GS + "Rectangle._compute_vertices"
    unroll = MVO
    describe = "a rectangle is the l-by-w box at its pose: vertices are centre + R(theta)(+-l/2, +-w/2), closed ring; exported geometry is that ring"

    def build(self, F):
        r = mk_rectangle(F, "r_")
        return {"r": r, "args": [r]}

    def post(self, F, inp, out):
        yield ("raises nothing", out.exc is None)
        if out.exc is None:
            r = inp["r"]
            cx, cy = (R(x) for x in F.elems(F.attr(r, "center")))
            l, w, th = R(F.attr(r, "length")), R(F.attr(r, "width")), F.attr(r, "orientation")
            s, c = sc(th)
            v = [R(x) for x in F.elems(out.value)]
            corners = [(-l / 2, -w / 2), (-l / 2, w / 2), (l / 2, w / 2), (l / 2, -w / 2), (-l / 2, -w / 2)]
            yield ("5 vertices (closed ring)", len(v) == 10)
            if len(v) == 10:
                yield ("vertices are the four corners of the box at the pose",
                       conj(z3.And(v[2 * i] == cx + c * a - s * b, v[2 * i + 1] == cy + s * a + c * b) for i, (a, b) in enumerate(corners)))
            g = geom_of(F, r)
            if not F.native:
                ring = [R(t) for pt in g.ring for t in pt]
                yield ("exported geometry is the polygon of exactly these vertices",
                       conj(a == b for a, b in zip(ring, v)) if (g.kind == "polygon" and len(ring) == 10) else False)


for _k in ("Rectangle", "Polygon", "ShapeGroup"):

    @register
    class ContainsPointDenotation(Contract):
        prop = "C06"
        target = GS + _k + ".contains_point"
        shape_kind = _k
        unroll = MVO
        describe = "contains_point(p) <=> p lies in the exported planar geometry (boundary included); a group is the union of its members"

        def build(self, F):
            if self.shape_kind == "ShapeGroup":
                sh = F.new(ShapeGroup, [mk_rectangle(F, "g0_"), mk_polygon(F, "g1_")])
            else:
                sh = SHAPES[self.shape_kind](F, "sh_")
            px, py = F.real("px"), F.real("py")
            return {"sh": sh, "p": (px, py), "args": [sh, F.array([px, py])]}

        def post(self, F, inp, out):
            yield ("raises nothing", out.exc is None)
            if out.exc is None:
                sh, (px, py) = inp["sh"], inp["p"]
                def in_geom(g):
                    m = point_in_geom(F, g, px, py)
                    if not F.native and g.kind == "polygon":
                        # geometry fact (assumed): a point of a polygon lies within the polygon's bounding box
                        xs = [R(p[0]) for p in g.ring]
                        ys = [R(p[1]) for p in g.ring]
                        F.assume(z3.Implies(m, z3.And(disj(R(px) <= x for x in xs), disj(R(px) >= x for x in xs),
                                                      disj(R(py) <= y for y in ys), disj(R(py) >= y for y in ys))))
                    return m

                if self.shape_kind == "ShapeGroup":
                    member = disj(in_geom(geom_of(F, m)) for m in F.items(F.attr(sh, "shapes")))
                else:
                    member = in_geom(geom_of(F, sh))
                yield ("contains_point(p) <=> p in the exported geometry", B(out.value) == member)


# ------------------------------------------------------------------------------ index coherence and lookups


def lanelet(F, lid, p, symbolic=False):
    """lanelet geometry: concrete by default (the geometric predicates are abstract, so the coordinates only name the
    polygon); symbolic where the contract is about the polygon's construction"""
    if symbolic:
        pts = {k: [(F.real("%s%s%dx" % (p, k, i)), F.real("%s%s%dy" % (p, k, i))) for i in range(2)] for k in "lcr"}
    else:
        y = {"a_": 0.0, "b_": 0.75, "c_": 3.0}.get(p, 5.0)
        pts = {"l": [(0.0, y + 1.0), (10.0, y + 1.0)], "c": [(0.0, y + 0.5), (10.0, y + 0.5)], "r": [(0.0, y), (10.0, y)]}
    return F.new(Lanelet, F.array([list(x) for x in pts["l"]]), F.array([list(x) for x in pts["c"]]), F.array([list(x) for x in pts["r"]]), lid)


def index_coherent(F, net):
    """the index mirrors the lanelet polygons: same ids; buffered polygon IS the lanelet polygon's geometry; tree over them; id map"""
    las = F.items(F.attr(net, "lanelets"))
    if F.native:
        bp, tree, idx = net._buffered_polygons, net._strtee, net._lanelet_id_index_by_id
    else:
        bp, tree, idx = net.attrs["_buffered_polygons"], net.attrs["_strtee"], net.attrs["_lanelet_id_index_by_id"]
    ok = set(bp.keys()) == {F.attr(la, "lanelet_id") for la in las}
    for la in las:
        lid = F.attr(la, "lanelet_id")
        geom = F.attr(F.attr(la, "polygon"), "shapely_object")
        ok = ok and bp.get(lid) is geom
        ok = ok and idx.get(id(geom)) == lid
        ok = ok and tree is not None and any(g is geom for g in tree.geometries)
    ok = ok and tree is not None and len(tree.geometries) == len(las)
    return ok


ROUTES = ("add_lanelet one by one", "create_from_lanelet_list", "add_lanelets_from_network", "add_lanelets_from_network with an id clash",
          "deepcopy", "pickle state round trip", "translate_rotate", "remove_lanelet",
          "deferred additions (rtree=False), then remove_lanelet of an absent id", "remove_lanelet twice, index refresh only requested by the second call")

for _route in ROUTES:

    @register
    class IndexCoherence(Contract):
        prop = "C06"
        target = LN + "_create_strtree"
        case = _route
        route = _route
        unroll = MVO
        describe = "after this construction / mutation route the spatial index mirrors the current lanelet polygons and the lookups answer from them"

        def build(self, F):
            las = [lanelet(F, 1, "a_"), lanelet(F, 2, "b_")]
            px, py = F.real("px"), F.real("py")
            d = {"las": las, "p": (px, py), "args": []}
            if self.route == "translate_rotate":
                d["t"], d["tarr"], d["a"] = motion(F)
            return d

        def invoke(self, F, inp):
            las = inp["las"]
            r = self.route
            if r == "create_from_lanelet_list":
                net = F.call_target(LN + "create_from_lanelet_list", [las], {})
            elif r.startswith("deferred additions"):
                net = F.new(LaneletNetwork)
                for la in las:
                    F.method(net, "add_lanelet", la, False)  # index refresh deferred ...
                F.method(net, "remove_lanelet", 99)  # ... to this call, which names an id that is not in the network
            else:
                net = F.new(LaneletNetwork)
                for la in las:
                    F.method(net, "add_lanelet", la)
            if r.startswith("remove_lanelet twice"):
                F.method(net, "remove_lanelet", 1, False)
                F.method(net, "remove_lanelet", 1)
            if r.startswith("add_lanelets_from_network"):
                other = net
                net = F.new(LaneletNetwork)
                if r.endswith("clash"):
                    F.method(net, "add_lanelet", lanelet(F, 2, "c_"))  # id 2 already present: lanelet 1 is added, 2 is refused
                F.method(net, "add_lanelets_from_network", other)
            elif r == "deepcopy":
                import copy

                net = copy.deepcopy(net) if F.native else __import__("pyvc.libmodels", fromlist=["deepcopy"]).deepcopy(F.interp, net)
            elif r == "pickle state round trip":
                if F.native:
                    net = pickle.loads(pickle.dumps(net))
                else:
                    state = F.method(net, "__getstate__")
                    new = F.raw(LaneletNetwork)
                    F.method(new, "__setstate__", state)
                    net = new
            elif r == "translate_rotate":
                F.method(net, "find_lanelet_by_position", [F.array([inp["p"][0], inp["p"][1]])])  # use the index before the mutation
                F.method(net, "translate_rotate", inp["tarr"], inp["a"])
            elif r == "remove_lanelet":
                F.method(net, "remove_lanelet", 1)
            found = F.method(net, "find_lanelet_by_position", [F.array([inp["p"][0], inp["p"][1]])])
            return net, found

        def post(self, F, inp, out):
            yield ("raises nothing", out.exc is None)
            if out.exc is None:
                net, found = out.value
                yield ("index mirrors the current lanelet polygons", index_coherent(F, net))
                got = set(int(x) for x in F.items(found[0]))
                conds = []
                for la in F.items(F.attr(net, "lanelets")):
                    inside = point_in_geom(F, F.attr(F.attr(la, "polygon"), "shapely_object"), inp["p"][0], inp["p"][1])
                    conds.append(z3.BoolVal(F.attr(la, "lanelet_id") in got) == inside)
                yield ("find_lanelet_by_position returns exactly the lanelets whose current polygon contains the point", conj(conds))
                yield ("only ids of lanelets in the network are returned", got <= {F.attr(la, "lanelet_id") for la in F.items(F.attr(net, "lanelets"))})


@register
class LaneletPolygon(Contract):
    prop = "C06"
    target = "commonroad.scenario.lanelet.Lanelet.__init__"
    unroll = MVO
    describe = "the lanelet polygon is the right boundary followed by the reversed left boundary"

    def build(self, F):
        return {"la": lanelet(F, 1, "a_", symbolic=True), "args": []}

    def invoke(self, F, inp):
        return F.attr(inp["la"], "polygon")

    def post(self, F, inp, out):
        yield ("raises nothing", out.exc is None)
        if out.exc is None and not F.native:
            la = inp["la"]
            rv, lv = F.elems(F.attr(la, "right_vertices")), F.elems(F.attr(la, "left_vertices"))
            want = [rv[0], rv[1], rv[2], rv[3], lv[2], lv[3], lv[0], lv[1]]
            g = F.attr(out.value, "shapely_object")
            yield ("denotation of the polygon is the ring right boundary ++ reversed left boundary",
                   conj(R(a) == R(b) for a, b in zip(g.denot[:8], want)) if len(g.denot) >= 8 else False)


for _k in ("Rectangle", "Circle", "Polygon"):

    @register
    class FindByShape(Contract):
        prop = "C06"
        target = LN + "find_lanelet_by_shape"
        case = _k
        shape_kind = _k
        unroll = MVO
        describe = "returns exactly the lanelets whose polygon intersects the shape"

        def build(self, F):
            net = F.new(LaneletNetwork)
            las = [lanelet(F, 1, "a_"), lanelet(F, 2, "b_")]
            for la in las:
                F.method(net, "add_lanelet", la)
            sh = SHAPES[self.shape_kind](F, "q_")
            return {"las": las, "sh": sh, "args": [net, sh]}

        def post(self, F, inp, out):
            yield ("raises nothing", out.exc is None)
            if out.exc is None:
                got = set(int(x) for x in F.items(out.value))
                conds = []
                for la in inp["las"]:
                    hit = B(F.method(F.attr(F.attr(la, "polygon"), "shapely_object"), "intersects", F.attr(inp["sh"], "shapely_object")))
                    conds.append(z3.BoolVal(F.attr(la, "lanelet_id") in got) == hit)
                yield ("a lanelet is returned iff its polygon intersects the shape", conj(conds))


@register
class ContainsPoints(Contract):
    prop = "C06"
    target = "commonroad.scenario.lanelet.Lanelet.contains_points"
    unroll = MVO
    describe = "per point: contained iff the lanelet polygon (exported geometry) contains it"

    def build(self, F):
        la = lanelet(F, 1, "a_")
        pts = [(F.real("p%dx" % i), F.real("p%dy" % i)) for i in range(2)]
        return {"la": la, "pts": pts, "args": [la, F.array([list(p) for p in pts])]}

    def post(self, F, inp, out):
        yield ("raises nothing", out.exc is None)
        if out.exc is None:
            res = F.items(out.value)
            g = F.attr(F.attr(inp["la"], "polygon"), "shapely_object")
            conds = [z3.BoolVal(len(res) == 2)]
            for r, (px, py) in zip(res, inp["pts"]):
                member = point_in_geom(F, g, px, py)
                if not F.native:
                    xs, ys = [R(p[0]) for p in g.ring], [R(p[1]) for p in g.ring]
                    F.assume(z3.Implies(member, z3.And(disj(R(px) <= x for x in xs), disj(R(px) >= x for x in xs), disj(R(py) <= y for y in ys), disj(R(py) >= y for y in ys))))
                conds.append(B(r) == member)
            yield ("contains_points agrees with the exported polygon", conj(conds))


def mk_obstacle(F, oid, p, group=False):
    if group:
        sh = F.new(ShapeGroup, [local_rect(F, p + "g0_", offset=False), F.new(Rectangle, F.real(p + "g1_l"), F.real(p + "g1_w"), F.array([F.real(p + "g1_cx"), 0.0]))])
    else:
        sh = local_rect(F, p + "sh_", offset=False)
    return F.new(StaticObstacle, oid, ObstacleType.PARKED_VEHICLE, sh, mk_initial_state(F, p + "init_", 0))


for _fn in ("get_obstacles", "map_obstacles_to_lanelets", "filter_obstacles_in_network"):

    @register
    class ObstacleMapping(Contract):
        prop = "C06"
        target = ("commonroad.scenario.lanelet.Lanelet." if _fn == "get_obstacles" else LN) + _fn
        fn = _fn
        unroll = MVO
        summaries = ("make_valid_orientation",)
        describe = "an obstacle is mapped to a lanelet iff its occupancy (any member shape of a group) intersects the lanelet polygon"

        def build(self, F):
            net = F.new(LaneletNetwork)
            las = [lanelet(F, 1, "a_"), lanelet(F, 2, "b_")]
            for la in las:
                F.method(net, "add_lanelet", la)
            obs = [mk_obstacle(F, 10, "o1_"), mk_obstacle(F, 11, "o2_", group=True)]
            args = [las[0], obs] if self.fn == "get_obstacles" else [net, obs]
            return {"las": las, "obs": obs, "args": args}

        def hit(self, F, la, o):
            shape = F.attr(F.method(o, "occupancy_at_time", 0), "shape")
            members = F.items(F.attr(shape, "shapes")) if F.isinstance(shape, ShapeGroup) else [shape]
            lg = F.attr(F.attr(la, "polygon"), "shapely_object")
            return disj(B(F.method(lg, "intersects", F.attr(m, "shapely_object"))) for m in members)

        def post(self, F, inp, out):
            yield ("raises nothing", out.exc is None)
            if out.exc is None:
                las, obs = inp["las"], inp["obs"]
                conds = []
                if self.fn == "get_obstacles":
                    got = [id(o) for o in F.items(out.value)]
                    for o in obs:
                        conds.append(z3.BoolVal(id(o) in got) == self.hit(F, las[0], o))
                elif self.fn == "map_obstacles_to_lanelets":
                    for la in las:
                        got = [id(o) for o in F.items(out.value.get(F.attr(la, "lanelet_id"), []))]
                        for o in obs:
                            conds.append(z3.BoolVal(id(o) in got) == self.hit(F, la, o))
                else:
                    got = [id(o) for o in F.items(out.value)]
                    for o in obs:
                        conds.append(z3.BoolVal(id(o) in got) == disj(self.hit(F, la, o) for la in las))
                    conds.append(z3.BoolVal(len(got) == len(set(got))))
                yield ("mapped iff the occupancy intersects the lanelet polygon", conj(conds))
