"""C09 -- object ids in a scenario stay unique and the id pool stays exact.
The representation invariant WF (pool == ids of the contained objects, all ids distinct, every object stored under its
own id) is shown to be established by the constructor and preserved by every public operation, for a populated
scenario whose ids are all symbolic (so that every collision pattern of the operation's argument is covered)."""
import z3

import commonroad.scenario.state as st
from commonroad.geometry.shape import Rectangle
from commonroad.prediction.prediction import Occupancy, SetBasedPrediction
from commonroad.scenario.intersection import Intersection, IntersectionIncomingElement
from commonroad.scenario.lanelet import Lanelet, LaneletNetwork
from commonroad.scenario.obstacle import DynamicObstacle, EnvironmentObstacle, ObstacleType, PhantomObstacle, StaticObstacle
from commonroad.scenario.scenario import Scenario
from commonroad.scenario.traffic_light import TrafficLight
from commonroad.scenario.traffic_sign import TrafficSign, TrafficSignElement, TrafficSignIDGermany
from pyvc.contract import B, Contract, R, T, conj, disj, register

SQ = "commonroad.scenario.scenario.Scenario."
Contract.unroll = {"commonroad.common.util.make_valid_orientation": 3, "commonroad.common.util.make_valid_orientation_interval": 3}


def new_id(F, name):
    v = F.int(name)
    F.assume(T(v) >= 1)
    return v


def rect():
    return Rectangle(2.0, 1.0)


def init_state():
    import numpy as np

    return st.InitialState(time_step=0, position=np.array([0.0, 0.0]), orientation=0.0, velocity=0.0, acceleration=0.0, yaw_rate=0.0, slip_angle=0.0)


def mk_lanelet(F, lid, signs=None, lights=None, y=0.0, **kw):
    import numpy as np

    return F.new(Lanelet, np.array([[0.0, y + 1], [1.0, y + 1]]), np.array([[0.0, y + 0.5], [1.0, y + 0.5]]), np.array([[0.0, y], [1.0, y]]), lid,
                 traffic_signs=signs, traffic_lights=lights, **kw)


def mk_sign(F, sid):
    import numpy as np

    return F.new(TrafficSign, sid, [TrafficSignElement(TrafficSignIDGermany.MAX_SPEED, ["10"])], set(), np.array([0.0, 0.0]))


def mk_light(F, lid):
    import numpy as np

    return F.new(TrafficLight, lid, np.array([0.0, 0.0]))


def mk_intersection(F, iid, inc_id, lanelet_ids):
    inc = F.new(IntersectionIncomingElement, inc_id, F.set(lanelet_ids), set(), set(), set())
    return F.new(Intersection, iid, [inc])


def mk_static(F, oid):
    return F.new(StaticObstacle, oid, ObstacleType.PARKED_VEHICLE, rect(), init_state())


def mk_dynamic(F, oid):
    return F.new(DynamicObstacle, oid, ObstacleType.CAR, rect(), init_state())


def mk_phantom(F, oid):
    return F.new(PhantomObstacle, oid, SetBasedPrediction(1, [Occupancy(1, rect())]))


def mk_env(F, oid):
    return F.new(EnvironmentObstacle, oid, ObstacleType.BUILDING, rect())


def populated(F):
    """scenario with two lanelets (sharing a sign; one light), an intersection with one incoming, one obstacle per role.
    All ids symbolic and pairwise distinct."""
    names = ["la1", "la2", "sign", "light", "inter", "inc", "stat", "dyn", "ph", "env"]
    ids = {n: new_id(F, "id_" + n) for n in names}
    vals = list(ids.values())
    for i in range(len(vals)):
        for j in range(i + 1, len(vals)):
            F.assume(T(vals[i]) != T(vals[j]))
    sc = F.new(Scenario, 0.1)
    net = F.new(LaneletNetwork)
    objs = {}
    objs["la1"] = mk_lanelet(F, ids["la1"], F.set([ids["sign"]]), F.set([ids["light"]]), 0.0)
    objs["la2"] = mk_lanelet(F, ids["la2"], F.set([ids["sign"]]), None, 2.0)
    objs["sign"] = mk_sign(F, ids["sign"])
    objs["light"] = mk_light(F, ids["light"])
    objs["inter"] = mk_intersection(F, ids["inter"], ids["inc"], [ids["la1"]])
    F.ok(lambda: F.method(net, "add_lanelet", objs["la1"]))
    F.ok(lambda: F.method(net, "add_lanelet", objs["la2"]))
    F.ok(lambda: F.method(net, "add_traffic_sign", objs["sign"], set()))
    F.ok(lambda: F.method(net, "add_traffic_light", objs["light"], set()))
    F.ok(lambda: F.method(net, "add_intersection", objs["inter"]))
    objs["stat"], objs["dyn"], objs["ph"], objs["env"] = mk_static(F, ids["stat"]), mk_dynamic(F, ids["dyn"]), mk_phantom(F, ids["ph"]), mk_env(F, ids["env"])
    F.ok(lambda: F.method(sc, "add_objects", [net, objs["stat"], objs["dyn"], objs["ph"], objs["env"]]))
    return sc, ids, objs


def contained_ids(F, sc):
    """ids of all contained objects, read through the public accessors"""
    net = F.attr(sc, "lanelet_network")
    out = []
    out += [F.attr(x, "lanelet_id") for x in F.items(F.attr(net, "lanelets"))]
    out += [F.attr(x, "traffic_sign_id") for x in F.items(F.attr(net, "traffic_signs"))]
    out += [F.attr(x, "traffic_light_id") for x in F.items(F.attr(net, "traffic_lights"))]
    for x in F.items(F.attr(net, "intersections")):
        out.append(F.attr(x, "intersection_id"))
        out += [F.attr(i, "incoming_id") for i in F.items(F.attr(x, "incomings"))]
    out += [F.attr(x, "obstacle_id") for x in F.items(F.attr(sc, "obstacles"))]
    return out


def same_members(xs, ys):
    return z3.And(conj(disj(T(x) == T(y) for y in ys) for x in xs), conj(disj(T(x) == T(y) for x in xs) for y in ys))


def distinct(xs):
    return conj(T(xs[i]) != T(xs[j]) for i in range(len(xs)) for j in range(i + 1, len(xs)))


def wf(F, sc):
    ids = contained_ids(F, sc)
    pool = F.keys(F.attr(sc, "_id_set") if not F.native else sc._id_set)
    return z3.And(same_members(pool, ids), distinct(ids), z3.BoolVal(len(pool) == len(ids)))


ADDABLE = {
    "StaticObstacle": lambda F, i: mk_static(F, i),
    "DynamicObstacle": lambda F, i: mk_dynamic(F, i),
    "PhantomObstacle": lambda F, i: mk_phantom(F, i),
    "EnvironmentObstacle": lambda F, i: mk_env(F, i),
    "Lanelet": lambda F, i: mk_lanelet(F, i, None, None, 4.0),
    "TrafficSign": lambda F, i: mk_sign(F, i),
    "TrafficLight": lambda F, i: mk_light(F, i),
}


@register
class InitWF(Contract):
    prop = "C09"
    target = SQ + "__init__"
    describe = "a new scenario has an empty, exact id pool"

    def build(self, F):
        return {"args": []}

    def invoke(self, F, inp):
        return F.new(Scenario, 0.1)

    def post(self, F, inp, out):
        yield ("raises nothing", out.exc is None)
        if out.exc is None:
            yield ("WF: pool == ids of contained objects (empty)", wf(F, out.value))


for _k in ADDABLE:

    @register
    class AddObject(Contract):
        prop = "C09"
        target = SQ + "add_objects"
        case = _k
        kind_name = _k
        describe = "fresh id: added, pool grows by exactly that id; used id: ValueError and the scenario is unchanged; WF preserved"

        def build(self, F):
            sc, ids, objs = populated(F)
            n = new_id(F, "new_id")
            obj = ADDABLE[self.kind_name](F, n)
            return {"sc": sc, "ids": ids, "n": n, "obj": obj, "args": [sc, obj], "before": contained_ids(F, sc), "snap": F.snapshot(sc)}

        def post(self, F, inp, out):
            used = disj(T(inp["n"]) == T(x) for x in inp["before"])
            yield ("id in use => ValueError", z3.Implies(used, out.raised(ValueError)))
            yield ("fresh id => accepted", z3.Implies(z3.Not(used), out.exc is None))
            yield ("only ValueError is raised", out.exc is None or out.raised(ValueError))
            after = contained_ids(F, inp["sc"])
            yield ("WF preserved: pool == ids of contained objects, all distinct", wf(F, inp["sc"]))
            if out.exc is None:
                yield ("ids afterwards == ids before + the new id", same_members(after, inp["before"] + [inp["n"]]))
            else:
                yield ("scenario unchanged on rejection", F.same(inp["snap"], inp["sc"], ignore=("_id_counter",) + __import__("pyvc.contract", fromlist=["CACHE_ATTRS"]).CACHE_ATTRS))


@register
class AddIntersection(Contract):
    prop = "C09"
    target = SQ + "add_objects"
    case = "Intersection (id and incoming id symbolic)"
    describe = "intersection and incoming ids both enter the pool; any collision => ValueError and the scenario is unchanged"

    def build(self, F):
        sc, ids, objs = populated(F)
        n, m = new_id(F, "new_id"), new_id(F, "new_inc_id")
        obj = mk_intersection(F, n, m, [ids["la2"]])
        return {"sc": sc, "n": n, "m": m, "args": [sc, obj], "before": contained_ids(F, sc), "snap": F.snapshot(sc)}

    def post(self, F, inp, out):
        from pyvc.contract import CACHE_ATTRS

        n, m = T(inp["n"]), T(inp["m"])
        used = z3.Or(disj(n == T(x) for x in inp["before"]), disj(m == T(x) for x in inp["before"]), n == m)
        yield ("a collision => ValueError", z3.Implies(used, out.raised(ValueError)))
        yield ("fresh ids => accepted", z3.Implies(z3.Not(used), out.exc is None))
        yield ("WF preserved", wf(F, inp["sc"]))
        if out.exc is None:
            yield ("ids afterwards == ids before + both new ids", same_members(contained_ids(F, inp["sc"]), inp["before"] + [inp["n"], inp["m"]]))
        else:
            yield ("scenario unchanged on rejection", F.same(inp["snap"], inp["sc"], ignore=("_id_counter",) + CACHE_ATTRS))


@register
class AddNetwork(Contract):
    prop = "C09"
    target = SQ + "add_objects"
    case = "LaneletNetwork into a scenario with obstacles"
    describe = "a network whose ids collide with used ids is rejected leaving the scenario unchanged; otherwise all its ids enter the pool"

    def build(self, F):
        sc = F.new(Scenario, 0.1)
        o = new_id(F, "id_stat")
        F.ok(lambda: F.method(sc, "add_objects", mk_static(F, o)))
        a, b, s = new_id(F, "net_la1"), new_id(F, "net_la2"), new_id(F, "net_sign")
        F.assume(z3.And(T(a) != T(b), T(a) != T(s), T(b) != T(s)))
        net = F.new(LaneletNetwork)
        F.ok(lambda: F.method(net, "add_lanelet", mk_lanelet(F, a, F.set([s]), None, 0.0)))
        F.ok(lambda: F.method(net, "add_lanelet", mk_lanelet(F, b, None, None, 2.0)))
        F.ok(lambda: F.method(net, "add_traffic_sign", mk_sign(F, s), set()))
        return {"sc": sc, "o": o, "new": [a, b, s], "args": [sc, net], "before": contained_ids(F, sc), "snap": F.snapshot(sc)}

    def post(self, F, inp, out):
        from pyvc.contract import CACHE_ATTRS

        used = disj(T(x) == T(inp["o"]) for x in inp["new"])
        yield ("a collision => ValueError", z3.Implies(used, out.raised(ValueError)))
        yield ("fresh ids => accepted", z3.Implies(z3.Not(used), out.exc is None))
        yield ("WF preserved", wf(F, inp["sc"]))
        if out.exc is not None:
            yield ("scenario unchanged on rejection", F.same(inp["snap"], inp["sc"], ignore=("_id_counter",) + CACHE_ATTRS))


REMOVALS = {
    "remove_obstacle(static)": (lambda F, sc, o: F.method(sc, "remove_obstacle", o["stat"]), ["stat"]),
    "remove_obstacle(dynamic)": (lambda F, sc, o: F.method(sc, "remove_obstacle", o["dyn"]), ["dyn"]),
    "remove_obstacle(list of all four roles)": (lambda F, sc, o: F.method(sc, "remove_obstacle", [o["stat"], o["dyn"], o["ph"], o["env"]]), ["stat", "dyn", "ph", "env"]),
    "remove_lanelet(la1: its light is hanging, the sign is still used)": (lambda F, sc, o: F.method(sc, "remove_lanelet", o["la1"]), ["la1", "light"]),
    "remove_lanelet(list of both: sign and light hanging)": (lambda F, sc, o: F.method(sc, "remove_lanelet", [o["la1"], o["la2"]]), ["la1", "la2", "sign", "light"]),
    "remove_lanelet(la2, referenced_elements=False)": (lambda F, sc, o: F.method(sc, "remove_lanelet", o["la2"], False), ["la2"]),
    "remove_traffic_sign": (lambda F, sc, o: F.method(sc, "remove_traffic_sign", o["sign"]), ["sign"]),
    "remove_traffic_sign(list)": (lambda F, sc, o: F.method(sc, "remove_traffic_sign", [o["sign"]]), ["sign"]),
    "remove_traffic_light": (lambda F, sc, o: F.method(sc, "remove_traffic_light", o["light"]), ["light"]),
    "remove_traffic_light(list)": (lambda F, sc, o: F.method(sc, "remove_traffic_light", [o["light"]]), ["light"]),
    "remove_intersection": (lambda F, sc, o: F.method(sc, "remove_intersection", o["inter"]), ["inter", "inc"]),
    "remove_intersection(list)": (lambda F, sc, o: F.method(sc, "remove_intersection", [o["inter"]]), ["inter", "inc"]),
    "erase_lanelet_network": (lambda F, sc, o: F.method(sc, "erase_lanelet_network"), ["la1", "la2", "sign", "light", "inter", "inc"]),
}

for _name, (_op, _removed) in REMOVALS.items():

    @register
    class Removal(Contract):
        prop = "C09"
        target = SQ + _name.split("(")[0]
        case = _name
        op, removed = staticmethod(_op), _removed
        describe = "ids afterwards == ids before minus the removed ones (incl. cascade); WF preserved; a removed object can be added again"

        def build(self, F):
            sc, ids, objs = populated(F)
            return {"sc": sc, "ids": ids, "objs": objs, "args": []}

        def invoke(self, F, inp):
            self.op(F, inp["sc"], inp["objs"])
            # "removed objects can be added again": re-add the first removed top-level object
            first = inp["objs"].get(self.removed[0])
            readd = F.attempt(lambda: F.method(inp["sc"], "add_objects", first)) if first is not None and self.removed[0] not in ("inc",) else None
            return readd

        def post(self, F, inp, out):
            yield ("raises nothing", out.exc is None)
            if out.exc is None:
                readd = out.value
                keep = [v for k, v in inp["ids"].items() if k not in self.removed]
                exp = keep + ([inp["ids"][self.removed[0]]] if readd is not None and readd.exc is None else [])
                if self.removed[0] == "inter" and readd is not None and readd.exc is None:
                    exp = exp + [inp["ids"]["inc"]]
                if readd is not None:
                    yield ("the removed object can be added again", readd.exc is None)
                yield ("ids afterwards == ids before minus the removed ones (then plus the re-added one)", same_members(contained_ids(F, inp["sc"]), exp))
                yield ("WF preserved: pool == ids of contained objects", wf(F, inp["sc"]))


@register
class ReplaceNetwork(Contract):
    prop = "C09"
    target = SQ + "replace_lanelet_network"
    describe = "the old network's ids become free, the new network's ids enter the pool"

    def build(self, F):
        sc, ids, objs = populated(F)
        a = new_id(F, "new_la")
        for k in ("stat", "dyn", "ph", "env"):
            F.assume(T(a) != T(ids[k]))
        net = F.new(LaneletNetwork)
        F.ok(lambda: F.method(net, "add_lanelet", mk_lanelet(F, a, None, None, 6.0)))
        return {"sc": sc, "ids": ids, "a": a, "args": [sc, net]}

    def post(self, F, inp, out):
        yield ("raises nothing (ids of the old network may be reused by the new one)", out.exc is None)
        if out.exc is None:
            exp = [inp["ids"][k] for k in ("stat", "dyn", "ph", "env")] + [inp["a"]]
            yield ("ids afterwards == obstacle ids + ids of the new network", same_members(contained_ids(F, inp["sc"]), exp))
            yield ("WF preserved", wf(F, inp["sc"]))


for _n in (0, 1, 2):

    @register
    class GenerateSmallPool(Contract):
        prop = "C09"
        target = SQ + "generate_object_id"
        case = "generate, add %d object(s) with arbitrary ids, generate" % _n
        n = _n
        describe = "generated ids are never used by a contained object and never repeat, whatever ids are added in between"

        def build(self, F):
            sc = F.new(Scenario, 0.1)
            return {"sc": sc, "new": [new_id(F, "obj%d" % i) for i in range(self.n)], "args": []}

        def invoke(self, F, inp):
            sc = inp["sc"]
            g1 = F.method(sc, "generate_object_id")
            added = []
            for i, n in enumerate(inp["new"]):
                r = F.attempt(lambda n=n, i=i: F.method(sc, "add_objects", mk_static(F, n) if i == 0 else mk_env(F, n)))
                added.append(r.exc is None)
            g2 = F.method(sc, "generate_object_id")
            g3 = F.method(sc, "generate_object_id")
            return [g1, g2, g3], added

        def post(self, F, inp, out):
            yield ("raises nothing", out.exc is None)
            if out.exc is None:
                g, added = out.value
                g = [T(x) for x in g]
                used = [T(n) for n, ok in zip(inp["new"], added) if ok]
                yield ("ids generated after the additions are unused", conj(z3.And(x >= 1, conj(x != u for u in used)) for x in g[1:]))
                yield ("never the same id twice", z3.And(g[0] != g[1], g[0] != g[2], g[1] != g[2]))


@register
class EraseWithUnreferencedMembers(Contract):
    prop = "C09"
    target = SQ + "erase_lanelet_network"
    case = "network with a sign and a light that no lanelet references"
    describe = "erasing / replacing the network releases every id of the old network, also of signs and lights no lanelet references"

    def build(self, F):
        sc, ids, objs = populated(F)
        s2, l2 = new_id(F, "id_sign2"), new_id(F, "id_light2")
        F.assume(z3.And(T(s2) != T(l2), conj(z3.And(T(s2) != T(v), T(l2) != T(v)) for v in ids.values())))
        objs["sign2"], objs["light2"] = mk_sign(F, s2), mk_light(F, l2)
        F.ok(lambda: F.method(sc, "add_objects", objs["sign2"]))
        F.ok(lambda: F.method(sc, "add_objects", objs["light2"]))
        return {"sc": sc, "ids": ids, "objs": objs, "args": [sc]}

    def invoke(self, F, inp):
        F.method(inp["sc"], "erase_lanelet_network")
        return [F.attempt(lambda k=k: F.method(inp["sc"], "add_objects", inp["objs"][k])) for k in ("light2", "sign2", "light", "sign")]

    def post(self, F, inp, out):
        yield ("raises nothing", out.exc is None)
        if out.exc is None:
            yield ("every removed sign and light can be added again", all(r.exc is None for r in out.value))
            yield ("WF preserved", wf(F, inp["sc"]))


@register
class GenerateObjectId(Contract):
    prop = "C09"
    target = SQ + "generate_object_id"
    describe = "returns an id no contained object uses and that was never returned before (also after removals and further additions)"

    def build(self, F):
        sc, ids, objs = populated(F)
        return {"sc": sc, "ids": ids, "objs": objs, "args": []}

    def invoke(self, F, inp):
        sc = inp["sc"]
        g1 = F.method(sc, "generate_object_id")
        g2 = F.method(sc, "generate_object_id")
        F.method(sc, "remove_obstacle", inp["objs"]["env"])  # removing (possibly the largest id) must not make ids repeat
        g3 = F.method(sc, "generate_object_id")
        return [g1, g2, g3]

    def post(self, F, inp, out):
        yield ("raises nothing", out.exc is None)
        if out.exc is None:
            g = [T(x) for x in out.value]
            allids = [T(v) for v in inp["ids"].values()]
            yield ("generated ids are positive and unused", conj(z3.And(x >= 1, conj(x != y for y in allids)) for x in g))
            yield ("never the same id twice", z3.And(g[0] != g[1], g[0] != g[2], g[1] != g[2]))


for _how in ("erase_lanelet_network, then add a network", "replace_lanelet_network"):

    @register
    class GenerateAcrossNetworkReplacement(Contract):
        prop = "C09"
        target = SQ + "generate_object_id"
        case = "generate, %s, generate (scenario holds nothing but the network)" % _how
        how = _how
        describe = "an id that was generated stays reserved when the network (the scenario's only content) is erased or replaced: it is not generated a second time"

        def build(self, F):
            a, b, c, d = (new_id(F, n) for n in ("old_la1", "old_la2", "new_la1", "new_la2"))
            F.assume(z3.And(T(a) != T(b), T(c) != T(d)))
            sc = F.new(Scenario, 0.1)
            net = F.new(LaneletNetwork)
            F.ok(lambda: F.method(net, "add_lanelet", mk_lanelet(F, a, None, None, 0.0)))
            F.ok(lambda: F.method(net, "add_lanelet", mk_lanelet(F, b, None, None, 2.0)))
            F.ok(lambda: F.method(sc, "add_objects", net))
            net2 = F.new(LaneletNetwork)
            F.ok(lambda: F.method(net2, "add_lanelet", mk_lanelet(F, c, None, None, 4.0)))
            F.ok(lambda: F.method(net2, "add_lanelet", mk_lanelet(F, d, None, None, 6.0)))
            return {"sc": sc, "net2": net2, "new": (c, d), "args": []}

        def invoke(self, F, inp):
            sc = inp["sc"]
            g1 = F.method(sc, "generate_object_id")
            # the new network does not use the reserved id (otherwise adding it is refused or the id is simply in use)
            F.assume(z3.And(T(inp["new"][0]) != T(g1), T(inp["new"][1]) != T(g1)))
            if self.how.startswith("erase"):
                F.method(sc, "erase_lanelet_network")
                F.method(sc, "add_objects", inp["net2"])
            else:
                F.method(sc, "replace_lanelet_network", inp["net2"])
            g2 = F.method(sc, "generate_object_id")
            g3 = F.method(sc, "generate_object_id")
            return [g1, g2, g3]

        def post(self, F, inp, out):
            yield ("raises nothing", out.exc is None)
            if out.exc is None:
                g = [T(x) for x in out.value]
                yield ("ids generated afterwards are unused", conj(z3.And(x >= 1, x != T(inp["new"][0]), x != T(inp["new"][1])) for x in g[1:]))
                yield ("never the same id twice", z3.And(g[0] != g[1], g[0] != g[2], g[1] != g[2]))
