"""C19 -- the part of 'rendering shows the model at the selected time' that contracts can reach.

Under contract (proved, all values symbolic):
  (a) BaseParam.__setattr__ / __post_init__ / __setitem__: a value set on a parameter group reaches every nested group
      that declares the parameter, nothing else changes; also through the constructor.
  (b) MPRenderer.draw_static_obstacle / draw_dynamic_obstacle / draw_phantom_obstacle / draw_environment_obstacle /
      draw_scenario with shape drawing on and icons, signals, trajectories, extra occupancies, labels, history off:
      the patches collected in renderer.obstacle_patches are exactly the shapes of the occupancies the model reports
      (occupancy_at_time, proved in C04) at the selected begin step -- for set-based predictions also at the later steps
      of the window -- and nothing for an obstacle without occupancy there.  matplotlib patch constructors are recorders.
NOT under contract (DESIGN.md 5/C19): that matplotlib renders without exception for every parameter setting, icons,
signals, traffic signs / lights, the lanelet-network drawing (draw_lanelet_network: 150 lines of path / colour code on
matplotlib internals) and everything behind render()."""
import dataclasses
import itertools

import numpy as np
import z3

import commonroad.scenario.state as st
import commonroad.visualization.draw_params as dp
from commonroad.geometry.shape import Circle, Polygon, Rectangle, ShapeGroup
from commonroad.prediction.prediction import Occupancy, SetBasedPrediction, TrajectoryPrediction
from commonroad.scenario.obstacle import DynamicObstacle, EnvironmentObstacle, ObstacleType, PhantomObstacle, StaticObstacle
from commonroad.scenario.trajectory import Trajectory
from commonroad.visualization.mp_renderer import MPRenderer
from contracts.c01 import ang, poly2, pos, positive
from pyvc.contract import B, Contract, R, T, conj, register

GROUPS = [c for c in vars(dp).values() if isinstance(c, type) and issubclass(c, dp.BaseParam)]


def nested(F, group, path=""):
    """all (path, group object) pairs below a parameter group, the group itself first"""
    out = [(path or "<root>", group)]
    cls = group.cls if not F.native else type(group)
    for f in dataclasses.fields(cls):
        v = F.attr(group, f.name)
        vc = getattr(v, "cls", type(v))
        if isinstance(vc, type) and issubclass(vc, dp.BaseParam):
            out += nested(F, v, (path + "." if path else "") + f.name)
    return out


def declares(F, group, name):
    cls = group.cls if not F.native else type(group)
    return name in {f.name for f in dataclasses.fields(cls)}


def fresh_value(F, cls, name, tag):
    f = {x.name: x for x in dataclasses.fields(cls)}[name]
    d = f.default if f.default is not dataclasses.MISSING else None
    if isinstance(d, bool):
        return F.bool(tag)
    if isinstance(d, int):
        return F.int(tag)
    if isinstance(d, float):
        return F.real(tag)
    if isinstance(d, str):
        return "#abcdef"
    return None


def same_value(F, a, b):
    if F.native:
        return a == b
    from pyvc.core import Sym

    if type(a) is Sym or type(b) is Sym:
        if isinstance(a, str) or isinstance(b, str) or a is None or b is None:
            return False
        if (type(a) is Sym and a.ty is bool) or (type(b) is Sym and b.ty is bool):
            return B(a) == B(b)
        return R(a) == R(b)
    return a is b or a == b


class Propagation(Contract):
    prop = "C19"
    target = "commonroad.visualization.draw_params.BaseParam.__setattr__"
    budget_s = 200

    def __init__(self, root, name, how):
        self.root, self.name, self.how = root, name, how
        self.case = "%s.%s via %s" % (root.__name__, name, how)
        self.describe = "the value reaches every nested group that declares the parameter; no other parameter changes"

    def build(self, F):
        v = fresh_value(F, self.root, self.name, "value")
        if self.how == "constructor":
            return {"value": v, "args": []}
        g = F.new(self.root)
        if self.how == "attribute after replacing a nested group":
            # a nested group assigned later is part of the tree like the one it replaces
            for f in dataclasses.fields(self.root):
                sub = F.attr(g, f.name)
                vc = getattr(sub, "cls", type(sub))
                if isinstance(vc, type) and issubclass(vc, dp.BaseParam):
                    F.setattr(g, f.name, F.new(vc))
        before = {p: {f.name: F.attr(o, f.name) for f in dataclasses.fields(o.cls if not F.native else type(o))} for p, o in nested(F, g)}
        return {"group": g, "value": v, "before": before, "args": []}

    def invoke(self, F, inp):
        if self.how == "constructor":
            inp["group"] = F.new(self.root, **{self.name: inp["value"]})
        elif self.how.startswith("attribute"):
            F.setattr(inp["group"], self.name, inp["value"])
        else:
            F.method(inp["group"], "__setitem__", self.name, inp["value"])
        return None

    def post(self, F, inp, out):
        yield ("raises nothing", out.exc is None)
        if out.exc is not None:
            return
        hit = 0
        for p, o in nested(F, inp["group"]):
            if declares(F, o, self.name):
                hit += 1
                yield ("nested group %s carries the value" % p, same_value(F, F.attr(o, self.name), inp["value"]))
            if self.how != "constructor":
                cls = o.cls if not F.native else type(o)
                for f in dataclasses.fields(cls):
                    vc = getattr(F.attr(o, f.name), "cls", None)
                    if f.name != self.name and not (isinstance(vc, type) and issubclass(vc, dp.BaseParam)):
                        yield ("%s.%s unchanged" % (p, f.name), same_value(F, F.attr(o, f.name), inp["before"][p][f.name]))
        yield ("the parameter is declared by at least the group itself", hit >= 1)


def _shared_names(root):
    """parameters of the root group that some nested group declares as well"""
    names = []
    seen = set()

    def below(cls):
        for f in dataclasses.fields(cls):
            t = f.default_factory if f.default_factory is not dataclasses.MISSING else None
            sub = None
            if isinstance(f.type, type) and issubclass(f.type, dp.BaseParam):
                sub = f.type
            elif isinstance(f.type, str) and isinstance(getattr(dp, f.type, None), type) and issubclass(getattr(dp, f.type), dp.BaseParam):
                sub = getattr(dp, f.type)
            if sub is not None and sub not in seen:
                seen.add(sub)
                yield sub
                yield from below(sub)

    subs = list(below(root))
    for f in dataclasses.fields(root):
        if f.name.startswith("_"):
            continue
        if isinstance(f.default, (bool, int, float, str)) and any(f.name in {x.name for x in dataclasses.fields(s)} for s in subs):
            names.append(f.name)
    return names


for _root in (dp.MPDrawParams, dp.DynamicObstacleParams, dp.LaneletNetworkParams, dp.PlanningProblemSetParams, dp.OccupancyParams):
    for _name in _shared_names(_root):
        for _how in (("attribute", "item", "constructor", "attribute after replacing a nested group") if _name in ("time_begin", "time_end", "antialiased") else ("attribute",)):
            register(Propagation(_root, _name, _how))


# ------------------------------------------------------------------------------ (b) what is drawn


def quiet_params(F, t0, t1):
    """shape drawing on; icons, signals, trajectories, extra occupancies, labels, initial states, history off"""
    p = F.new(dp.MPDrawParams)
    dyn = F.attr(p, "dynamic_obstacle")
    for k, v in (("draw_shape", True), ("draw_icon", False), ("draw_direction", False), ("show_label", False), ("draw_signals", False), ("draw_initial_state", False)):
        F.setattr(dyn, k, v)
    F.setattr(F.attr(dyn, "trajectory"), "draw_trajectory", False)
    F.setattr(F.attr(dyn, "occupancy"), "draw_occupancies", False)
    F.setattr(F.attr(dyn, "history"), "draw_history", False)
    ph = F.attr(p, "phantom_obstacle")
    F.setattr(ph, "draw_shape", True)
    F.setattr(F.attr(ph, "occupancy"), "draw_occupancies", False)
    F.setattr(p, "time_begin", t0)
    F.setattr(p, "time_end", t1)
    return p


def renderer_for(F, params):
    if F.native:
        import matplotlib

        matplotlib.use("Agg")
        r = MPRenderer(draw_params=params)
        return r
    return F.raw(MPRenderer, draw_params=params, obstacle_patches=[], dynamic_labels=[], focus_obstacle_id=False, plot_center=None,
                 static_artists=[], dynamic_artists=[], traffic_sign_artists=[], static_collections=[], dynamic_collections=[])


def patch_view(F, patches):
    """[(kind, geometry)] of the recorded / real patches"""
    out = []
    for p in patches:
        if F.native:
            kind = type(p).__name__
            if kind == "Polygon":
                xy = p.get_xy()
                if len(xy) > 1 and np.allclose(xy[0], xy[-1]):  # matplotlib closes the ring
                    xy = xy[:-1]
                out.append(("Polygon", xy))
            elif kind == "Ellipse":
                out.append(("Ellipse", (np.array(p.center), p.width, p.height)))
            else:
                out.append((kind, None))
        else:
            if p.kind == "Polygon":
                out.append(("Polygon", p.args[0]))
            elif p.kind == "Ellipse":
                out.append(("Ellipse", (p.args[0], p.args[1], p.args[2])))
            else:
                out.append((p.kind, None))
    return out


def expected_for(F, shape):
    cls = shape.cls if not F.native else type(shape)
    if cls is Circle:
        r = F.attr(shape, "radius")
        return [("Ellipse", (F.attr(shape, "center"), 2 * r if F.native else F.interp.binop(__import__("ast").Mult, 2, r), 2 * r if F.native else F.interp.binop(__import__("ast").Mult, 2, r)))]
    if cls is ShapeGroup:
        out = []
        for s in F.items(F.attr(shape, "shapes")):
            out += expected_for(F, s)
        return out
    verts = F.attr(shape, "vertices")
    if F.native and cls is Rectangle and len(verts) > 1 and np.allclose(verts[0], verts[-1]):
        verts = verts[:-1]
    return [("Polygon", verts)]


def arr_eq(F, a, b):
    if F.native:
        a, b = np.asarray(a, dtype=float), np.asarray(b, dtype=float)
        return a.shape == b.shape and bool(np.all(a == b))
    fa, fb = F.elems(a), F.elems(b)
    if len(fa) != len(fb):
        return False
    return conj(R(x) == R(y) for x, y in zip(fa, fb))


def views_equal(F, got, exp):
    if len(got) != len(exp):
        return False
    cs = []
    for (k1, g1), (k2, g2) in zip(got, exp):
        if k1 != k2:
            return False
        if k1 == "Polygon":
            c = arr_eq(F, g1 if not F.native else g1, g2 if not (F.native and len(g2) > 1 and np.allclose(g2[0], g2[-1])) else g2[:-1])
        else:
            c = conj([arr_eq(F, g1[0], g2[0]), same_value(F, g1[1], g2[1]), same_value(F, g1[2], g2[2])]) if not F.native else (
                arr_eq(F, g1[0], g2[0]) and g1[1] == g2[1] and g1[2] == g2[2])
        if c is False:
            return False
        cs.append(c)
    if F.native:
        return all(cs)
    return conj(cs)


def mini_state(F, p, t=0):
    return F.new(st.InitialState, time_step=t, position=pos(F, p + "p"), orientation=ang(F, p + "o"), velocity=F.real(p + "v"))


def ks(F, p, t):
    return F.new(st.KSState, time_step=t, position=pos(F, p + "p"), orientation=ang(F, p + "o"), velocity=F.real(p + "v"), steering_angle=F.real(p + "d"))


def mk_obstacle(F, kind):
    rect = lambda p: F.new(Rectangle, positive(F, p + "l"), positive(F, p + "w"))
    if kind == "static rectangle":
        return F.new(StaticObstacle, 10, ObstacleType.PARKED_VEHICLE, rect("so_"), mini_state(F, "so_i_"))
    if kind == "static circle":
        return F.new(StaticObstacle, 10, ObstacleType.PILLAR, F.new(Circle, positive(F, "so_r")), mini_state(F, "so_i_"))
    if kind == "dynamic without prediction":
        return F.new(DynamicObstacle, 11, ObstacleType.CAR, rect("do_"), mini_state(F, "do_i_", 1))
    if kind == "dynamic with trajectory":
        shape = rect("do_")
        traj = F.new(Trajectory, 2, [ks(F, "do_s2_", 2), ks(F, "do_s3_", 3)])
        return F.new(DynamicObstacle, 11, ObstacleType.CAR, shape, mini_state(F, "do_i_", 1), F.new(TrajectoryPrediction, traj, shape))
    if kind == "dynamic with set-based prediction":
        occs = [F.new(Occupancy, 2, F.new(Rectangle, positive(F, "sb_l"), positive(F, "sb_w"), pos(F, "sb_c"), ang(F, "sb_o"))),
                F.new(Occupancy, 3, F.new(Circle, positive(F, "sb_r"), pos(F, "sb_c2"))),
                F.new(Occupancy, 4, F.new(Polygon, poly2(F, "sb_v", 3)))]
        return F.new(DynamicObstacle, 12, ObstacleType.PEDESTRIAN, F.new(Circle, positive(F, "d2_r")), mini_state(F, "d2_i_", 1), F.new(SetBasedPrediction, 2, occs))
    if kind == "phantom":
        return F.new(PhantomObstacle, 13, F.new(SetBasedPrediction, 1, [F.new(Occupancy, 1, F.new(Polygon, poly2(F, "ph_v", 3))), F.new(Occupancy, 2, F.new(Circle, positive(F, "ph_r"), pos(F, "ph_c")))]))
    if kind == "environment":
        return F.new(EnvironmentObstacle, 14, ObstacleType.BUILDING, F.new(Polygon, poly2(F, "env_v", 3)))
    raise KeyError(kind)


WINDOWS = {  # (time_begin, time_end) relative to the horizons above (initial step 1, predictions 2..4)
    "before the horizon": (0, 0), "at the initial step": (1, 1), "inside": (2, 3), "last predicted step": (4, 6), "after the horizon": (7, 9),
    "window over everything": (0, 200), "begin = end inside": (3, 3), "begins two steps before the obstacle appears": (-1, 6),
}


class Drawn(Contract):
    prop = "C19"
    target = "commonroad.visualization.mp_renderer.MPRenderer.draw_scenario"
    budget_s = 900
    unroll = {"commonroad.common.util.make_valid_orientation": 3}
    summaries = ("make_valid_orientation",)

    def __init__(self, kind, wname, symbolic_t=False):
        self.kind, self.wname, self.symbolic_t = kind, wname, symbolic_t
        self.case = "%s, %s" % (kind, "symbolic time_begin <= time_end" if symbolic_t else "window %s %s" % (wname, WINDOWS[wname]))
        self.describe = "patches collected by the renderer = shapes of the occupancies the model reports at the selected step(s)"

    def build(self, F):
        import contracts.c16  # noqa: F401  (summary provider)
        from commonroad.scenario.scenario import Scenario, ScenarioID

        ob = mk_obstacle(F, self.kind)
        if self.symbolic_t:
            t0, t1 = F.int("time_begin"), F.int("time_end")
            F.assume(z3.And(T(t0) <= T(t1), T(t0) >= -5, T(t1) <= 300))
        else:
            t0, t1 = WINDOWS[self.wname]
        params = quiet_params(F, t0, t1)
        sc = F.new(Scenario, positive(F, "dt"), F.new(ScenarioID))
        F.method(sc, "add_objects", ob)
        return {"sc": sc, "ob": ob, "params": params, "r": renderer_for(F, params), "t0": t0, "t1": t1, "args": []}

    def invoke(self, F, inp):
        # draw_scenario minus the lanelet network (drawn by draw_lanelet_network, not under contract)
        F.method(inp["ob"], "draw", inp["r"], F.attr(inp["params"], {StaticObstacle: "static_obstacle", DynamicObstacle: "dynamic_obstacle", PhantomObstacle: "phantom_obstacle",
                                                                          EnvironmentObstacle: "environment_obstacle"}[inp["ob"].cls if not F.native else type(inp["ob"])]))
        return list(F.items(F.attr(inp["r"], "obstacle_patches")))

    def steps(self, F, inp):
        cls = inp["ob"].cls if not F.native else type(inp["ob"])
        pred = F.attr(inp["ob"], "prediction") if cls in (DynamicObstacle, PhantomObstacle) else None
        pcls = getattr(pred, "cls", type(pred)) if pred is not None else None
        if pcls is SetBasedPrediction and not self.symbolic_t and cls is DynamicObstacle:
            return [inp["t0"]] + list(range(inp["t0"] + 1, inp["t1"]))
        return [inp["t0"]]

    def post(self, F, inp, out):
        yield ("drawing raises nothing", out.exc is None)
        if out.exc is not None:
            return
        exp = []
        for t in self.steps(F, inp):
            occ = F.method(inp["ob"], "occupancy_at_time", t)
            if not F.is_none(occ):
                exp += expected_for(F, F.attr(occ, "shape"))
        got = patch_view(F, out.value)
        yield ("as many patches as occupancies the model reports in the window (%s)" % ("; ".join(k for k, _ in exp) or "none"), len(got) == len(exp))
        yield ("every patch has the geometry of the reported occupancy", views_equal(F, got, exp))


for _kind in ("static rectangle", "static circle", "dynamic without prediction", "dynamic with trajectory", "environment"):
    register(Drawn(_kind, None, symbolic_t=True))
for _kind, _w in itertools.product(("dynamic with set-based prediction", "phantom", "dynamic with trajectory", "dynamic without prediction"), WINDOWS):
    register(Drawn(_kind, _w))


# ------------------------------------------------------------------------------ (c) which lanelets are drawn

from commonroad.scenario.lanelet import Lanelet, LaneletNetwork  # noqa: E402
from pyvc.runner import summary_provider  # noqa: E402


@summary_provider("c19_colormap")
def _colormap_summary():
    """commonroad.visualization.util.colormap_idx builds a matplotlib colour map; with unique_colors off its result is never
    called -- replaced by an opaque callable"""
    from pyvc.interp import ModelFn

    def summ(interp, args, kwargs):
        def never(it, a, k):
            from pyvc.core import Unsupported

            raise Unsupported("colour map evaluated (unique_colors is off in this contract)")
        return ModelFn(never, "colormap")
    return {"commonroad.visualization.util.colormap_idx": summ}


DRAW_IDS = {"None (all lanelets)": None, "empty list (no lanelet)": [], "[12]": [12], "[13, 11]": [13, 11], "[11, 12, 13]": [11, 12, 13], "[12, 99]": [12, 99]}


class LaneletsDrawn(Contract):
    prop = "C19"
    target = "commonroad.visualization.mp_renderer.MPRenderer.draw_lanelet_network"
    summaries = ("c19_colormap",)
    budget_s = 900  # 3-6 s on an idle machine

    def __init__(self, name):
        self.name = name
        self.case = "draw_ids = %s" % name
        self.describe = "the filled lanelet polygons and the bound / centre paths recorded are exactly those of the selected lanelets (all for None), in network order"

    def build(self, F):
        net = F.new(LaneletNetwork)
        lanes = []
        for k, lid in enumerate((11, 12, 13)):
            if lid == 12:  # one lanelet with symbolic vertices; the other two concrete (keeps the number of paths small)
                left, right = poly2(F, "L%dl" % lid), poly2(F, "L%dr" % lid)
            else:
                y = 5.0 * k
                left, right = F.array([[0.0, y + 3.0], [20.0, y + 3.5]]), F.array([[0.0, y], [20.0, y + 0.5]])
            center = 0.5 * (left + right) if F.native else F.interp.binop(__import__("ast").Mult, 0.5, F.interp.binop(__import__("ast").Add, left, right))
            la = F.new(Lanelet, left, center, right, lid)
            F.method(net, "add_lanelet", la)
            lanes.append(la)
        params = F.new(dp.MPDrawParams)
        ln = F.attr(params, "lanelet_network")
        lp = F.attr(ln, "lanelet")
        for k in ("draw_line_markings", "draw_stop_line", "draw_start_and_direction", "show_label", "draw_border_vertices", "unique_colors", "colormap_tangent"):
            F.setattr(lp, k, False)
        F.setattr(F.attr(ln, "traffic_light"), "draw_traffic_lights", False)
        F.setattr(F.attr(ln, "traffic_sign"), "draw_traffic_signs", False)
        F.setattr(F.attr(ln, "intersection"), "draw_intersections", False)
        ids = DRAW_IDS[self.name]
        F.setattr(ln, "draw_ids", None if ids is None else list(ids))
        return {"net": net, "lanes": lanes, "params": params, "r": renderer_for(F, params), "ids": ids, "args": []}

    def invoke(self, F, inp):
        F.method(inp["r"], "draw_lanelet_network", inp["net"], F.attr(inp["params"], "lanelet_network"))
        return list(F.items(F.attr(inp["r"], "static_collections")))

    def post(self, F, inp, out):
        yield ("drawing raises nothing", out.exc is None)
        if out.exc is not None:
            return
        sel = [la for la, lid in zip(inp["lanes"], (11, 12, 13)) if inp["ids"] is None or lid in inp["ids"]]
        cols = out.value
        if F.native:
            polys = [c for c in cols if type(c).__name__ == "PolyCollection"]
            got = [np.asarray(p.vertices)[:-1] if len(p.vertices) > 4 else np.asarray(p.vertices) for c in polys[:1] for p in c.get_paths()]
            paths = [[np.asarray(p.vertices) for p in c.get_paths()] for c in cols if type(c).__name__ == "PathCollection"]
        else:
            polys = [c for c in cols if c.kind == "PolyCollection"]
            got = list(polys[0].args[0]) if polys else []
            paths = [[p.args[0] for p in c.args[0]] for c in cols if c.kind == "PathCollection"]
        yield ("exactly one fill collection", len(polys) == 1)
        yield ("as many filled polygons as selected lanelets (%d)" % len(sel), len(got) == len(sel))
        if len(got) == len(sel):
            cs = []
            for g, la in zip(got, sel):
                r, l = F.attr(la, "right_vertices"), F.attr(la, "left_vertices")
                if F.native:
                    exp = np.concatenate((r, np.flip(l, 0)))
                    cs.append(g.shape == exp.shape and bool(np.all(g == exp)))
                else:
                    fr, fl = F.elems(r), F.elems(l)
                    exp = fr + [fl[2], fl[3], fl[0], fl[1]]
                    fg = F.elems(g)
                    cs.append(len(fg) == len(exp) and conj(R(x) == R(y) for x, y in zip(fg, exp)))
            yield ("every filled polygon is right bound followed by the reversed left bound of its lanelet, in network order", all(cs) if F.native else conj(cs))
        # (the centre-line collection stays empty unless unique_colors or colormap_tangent is on -- not part of the property)
        yield ("right-bound and left-bound collections each hold one path per selected lanelet", len(paths) >= 2 and all(len(p) == len(sel) for p in paths[:2]))


for _n in DRAW_IDS:
    register(LaneletsDrawn(_n))
