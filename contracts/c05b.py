"""C05 (continued) -- fan-out of translate_rotate: every class that carries spatial data.
Each contract builds the object through its public constructor with symbolic coordinates, calls
translate_rotate, and requires: every spatial attribute is the rigid image, everything else is unchanged."""
import numpy as np
import z3

import commonroad.scenario.state as st
from commonroad.common.common_lanelet import LineMarking, StopLine
from commonroad.common.util import AngleInterval, Interval
from commonroad.geometry.shape import Circle, Polygon, Rectangle, ShapeGroup
from commonroad.planning.goal import GoalRegion
from commonroad.planning.planning_problem import PlanningProblem, PlanningProblemSet
from commonroad.prediction.prediction import Occupancy, SetBasedPrediction, TrajectoryPrediction
from commonroad.scenario.lanelet import Lanelet, LaneletNetwork
from commonroad.scenario.obstacle import DynamicObstacle, EnvironmentObstacle, ObstacleType, PhantomObstacle, StaticObstacle
from commonroad.scenario.scenario import Scenario
from commonroad.scenario.traffic_light import TrafficLight, TrafficLightCycle, TrafficLightCycleElement, TrafficLightState
from commonroad.scenario.traffic_sign import TrafficSign, TrafficSignElement, TrafficSignIDGermany
from commonroad.scenario.trajectory import Trajectory
import contracts.c16  # noqa: F401  (callee contract of make_valid_orientation)
from contracts.c05 import MVO, SHAPES, mk_circle, mk_rectangle, motion, polyline
from pyvc.contract import B, Contract, R, T, conj, register
from spec.rigid import image
from spec.sets import TWO_PI


def pos_array(F, name, int_dtype=False):
    if int_dtype:
        return F.array([F.int(name + "x"), F.int(name + "y")])
    return F.array([F.real(name + "x"), F.real(name + "y")])


def mk_ks_state(F, p, t):
    o = F.real(p + "orientation")
    F.assume(z3.And(R(o) >= -TWO_PI, R(o) <= TWO_PI))
    return F.new(st.KSState, time_step=t, position=pos_array(F, p + "p"), orientation=o, velocity=F.real(p + "v"),
                 steering_angle=F.real(p + "delta"))


def mk_initial_state(F, p, t=0):
    o = F.real(p + "orientation")
    F.assume(z3.And(R(o) >= -TWO_PI, R(o) <= TWO_PI))
    return F.new(st.InitialState, time_step=t, position=pos_array(F, p + "p"), orientation=o, velocity=F.real(p + "v"),
                 acceleration=F.real(p + "acc"), yaw_rate=F.real(p + "yaw"), slip_angle=F.real(p + "slip"))


def mk_trajectory(F, p, t0=1, n=2):
    return F.new(Trajectory, t0, [mk_ks_state(F, "%ss%d_" % (p, i), t0 + i) for i in range(n)])


def mk_occupancy(F, p, t, kind="Rectangle"):
    return F.new(Occupancy, t, SHAPES[kind](F, p))


def mk_set_prediction(F, p, t0=1):
    return F.new(SetBasedPrediction, t0, [mk_occupancy(F, p + "o0_", t0, "Rectangle"), mk_occupancy(F, p + "o1_", t0 + 1, "Circle")])


def mk_traj_prediction(F, p, t0=1):
    l, w = F.real(p + "shape_l"), F.real(p + "shape_w")
    F.assume(z3.And(R(l) > 0, R(w) > 0))
    return F.new(TrajectoryPrediction, mk_trajectory(F, p + "tr_", t0), F.new(Rectangle, l, w))


def local_rect(F, p, offset=True):
    """obstacle shape in the local frame; the reference point need not be the geometric centre (e.g. rear-axle reference)"""
    l, w = F.real(p + "l"), F.real(p + "w")
    F.assume(z3.And(R(l) > 0, R(w) > 0))
    if not offset:
        return F.new(Rectangle, l, w)
    th = F.real(p + "local_theta")
    F.assume(z3.And(R(th) >= -TWO_PI, R(th) <= TWO_PI))
    return F.new(Rectangle, l, w, F.array([F.real(p + "local_cx"), F.real(p + "local_cy")]), th)


def mk_static(F, p, oid=10):
    return F.new(StaticObstacle, oid, ObstacleType.PARKED_VEHICLE, local_rect(F, p + "sh_"), mk_initial_state(F, p + "init_"))


def mk_dynamic(F, p, oid=11, pred="trajectory"):
    prediction = None
    if pred == "trajectory":
        prediction = mk_traj_prediction(F, p + "pred_")
    elif pred == "set":
        prediction = mk_set_prediction(F, p + "pred_")
    return F.new(DynamicObstacle, oid, ObstacleType.CAR, local_rect(F, p + "sh_"), mk_initial_state(F, p + "init_"), prediction)


def mk_phantom(F, p, oid=12):
    return F.new(PhantomObstacle, oid, mk_set_prediction(F, p + "pred_"))


def mk_environment(F, p, oid=13):
    return F.new(EnvironmentObstacle, oid, ObstacleType.BUILDING, SHAPES["Rectangle"](F, p + "sh_"))


def mk_stop_line(F, p):
    return F.new(StopLine, pos_array(F, p + "s"), pos_array(F, p + "e"), LineMarking.SOLID, {101}, {201})


def mk_lanelet(F, p, lid=1, n=2, stop=True, **kw):
    _, left = polyline(F, n, p + "l")
    _, center = polyline(F, n, p + "c")
    _, right = polyline(F, n, p + "r")
    return F.new(Lanelet, left, center, right, lid, stop_line=mk_stop_line(F, p + "stop_") if stop else None,
                 traffic_signs={101}, traffic_lights={201}, **kw)


def mk_sign(F, p, sid=101, int_pos=False):
    return F.new(TrafficSign, sid, [TrafficSignElement(TrafficSignIDGermany.MAX_SPEED, ["10"])], {1}, pos_array(F, p + "p", int_pos))


def mk_light(F, p, lid=201, int_pos=False):
    cyc = F.new(TrafficLightCycle, [F.new(TrafficLightCycleElement, TrafficLightState.RED, 2),
                                    F.new(TrafficLightCycleElement, TrafficLightState.GREEN, 3)], 1)
    return F.new(TrafficLight, lid, pos_array(F, p + "p", int_pos), cyc)


def mk_network(F, p):
    net = F.new(LaneletNetwork)
    F.method(net, "add_lanelet", mk_lanelet(F, p + "la_", 1))
    F.method(net, "add_traffic_sign", mk_sign(F, p + "sign_"), set())
    F.method(net, "add_traffic_light", mk_light(F, p + "light_"), set())
    return net


def mk_goal(F, p):
    from contracts.c08 import mk_goal_state

    g1, _ = mk_goal_state(F, "Rectangle", True, True, p + "g1_")
    g2, _ = mk_goal_state(F, "none", True, False, p + "g2_")   # orientation interval but no position
    return F.new(GoalRegion, [g1, g2])


def mk_planning_problem(F, p, pid=500):
    return F.new(PlanningProblem, pid, mk_initial_state(F, p + "init_"), mk_goal(F, p + "goal_"))


def mk_scenario(F, p):
    sc = F.new(Scenario, 0.1)
    F.method(sc, "add_objects", [mk_network(F, p + "net_"), mk_static(F, p + "st_"), mk_dynamic(F, p + "dy_"),
                                 mk_phantom(F, p + "ph_"), mk_environment(F, p + "env_")])
    return sc


BUILDERS = {
    "commonroad.common.common_lanelet.StopLine": [("", lambda F: mk_stop_line(F, "sl_"))],
    "commonroad.scenario.traffic_sign.TrafficSign": [("float position", lambda F: mk_sign(F, "ts_")), ("int position", lambda F: mk_sign(F, "ts_", int_pos=True))],
    "commonroad.scenario.traffic_light.TrafficLight": [("float position", lambda F: mk_light(F, "tl_")), ("int position", lambda F: mk_light(F, "tl_", int_pos=True))],
    "commonroad.scenario.lanelet.Lanelet": [("2 vertices, stop line", lambda F: mk_lanelet(F, "la_")), ("3 vertices", lambda F: mk_lanelet(F, "la_", n=3, stop=False))],
    "commonroad.scenario.lanelet.LaneletNetwork": [("lanelet+sign+light", lambda F: mk_network(F, "net_"))],
    "commonroad.scenario.trajectory.Trajectory": [("2 KS states", lambda F: mk_trajectory(F, "tr_"))],
    "commonroad.prediction.prediction.Occupancy": [(k, (lambda kk: lambda F: mk_occupancy(F, "oc_", 3, kk))(k)) for k in ("Rectangle", "Circle", "Polygon", "ShapeGroup")],
    "commonroad.prediction.prediction.SetBasedPrediction": [("", lambda F: mk_set_prediction(F, "sp_"))],
    "commonroad.prediction.prediction.TrajectoryPrediction": [("", lambda F: mk_traj_prediction(F, "tp_"))],
    "commonroad.scenario.obstacle.StaticObstacle": [("", lambda F: mk_static(F, "so_"))],
    "commonroad.scenario.obstacle.DynamicObstacle": [("trajectory prediction", lambda F: mk_dynamic(F, "do_")), ("set-based prediction", lambda F: mk_dynamic(F, "do_", pred="set")),
                                                     ("no prediction", lambda F: mk_dynamic(F, "do_", pred=None))],
    "commonroad.scenario.obstacle.PhantomObstacle": [("", lambda F: mk_phantom(F, "po_"))],
    "commonroad.scenario.obstacle.EnvironmentObstacle": [("", lambda F: mk_environment(F, "eo_"))],
    "commonroad.planning.goal.GoalRegion": [("position goal + orientation-only goal", lambda F: mk_goal(F, "gr_"))],
    "commonroad.planning.planning_problem.PlanningProblem": [("", lambda F: mk_planning_problem(F, "pp_"))],
    "commonroad.planning.planning_problem.PlanningProblemSet": [("", lambda F: F.new(PlanningProblemSet, [mk_planning_problem(F, "pp_")]))],
    "commonroad.scenario.scenario.Scenario": [("network + static + dynamic + phantom + environment obstacle", lambda F: mk_scenario(F, "sc_"))],
}

for _qn, _variants in BUILDERS.items():
    for _name, _mk in _variants:

        @register
        class FanOut(Contract):
            prop = "C05"
            target = _qn + ".translate_rotate"
            case = _name
            mk = staticmethod(_mk)
            unroll = MVO
            summaries = ("make_valid_orientation",)
            describe = "all spatial components moved together by the rigid motion, all other content unchanged, never fails"

            def build(self, F):
                t, tarr, a = motion(F)
                obj = self.mk(F)
                return {"t": t, "a": a, "obj": obj, "args": [obj, tarr, a], "snap": F.snapshot(obj)}

            def invoke(self, F, inp):
                return F.method(inp["obj"], "translate_rotate", inp["args"][1], inp["args"][2])

            def post(self, F, inp, out):
                yield ("raises nothing", out.exc is None)
                if out.exc is None:
                    new = inp["obj"] if out.value is None else out.value
                    yield ("every stored point p -> R(a)(p+t), orientation th -> th+a, everything else unchanged",
                           image(F, inp["snap"], new, inp["t"], inp["a"]))
