"""C17 -- traffic-light state follows the cycle definition (scenario/traffic_light.py).
Cycle length n is enumerated (structure bound, reported); durations, offset, colours and the time
step are symbolic, so each n is decided for all values."""
import os

import numpy as np
import z3

from commonroad.scenario.traffic_light import TrafficLight, TrafficLightCycle, TrafficLightCycleElement
from pyvc.contract import B, Contract, R, T, conj, register

TL = "commonroad.scenario.traffic_light."
NMAX = 8 if os.environ.get("VERIF_TIER") == "thorough" else 5


def _cycle(F, n):
    ds = [F.int("d%d" % i) for i in range(n)]
    ss = [F.int("colour%d" % i) for i in range(n)]  # colours as arbitrary symbols: 'any colours'
    for d in ds:
        F.assume(T(d) > 0)
    off = F.int("offset")
    F.assume(T(off) >= 0)
    elems = [F.new(TrafficLightCycleElement, s, d) for s, d in zip(ss, ds)]
    cyc = F.new(TrafficLightCycle, elems, off)
    return ds, ss, off, cyc


def _spec_state(ds, ss, off, t, result):
    """the element whose window contains (t - offset) mod total"""
    total = sum((T(d) for d in ds[1:]), T(ds[0]))
    tm = (T(t) - T(off)) % total
    conds = []
    lo = z3.IntVal(0)
    for d, s in zip(ds, ss):
        hi = lo + T(d)
        conds.append(z3.Implies(z3.And(lo <= tm, tm < hi), T(result) == T(s)))
        lo = hi
    return z3.And(*conds), total


for _n in range(1, NMAX + 1):

    @register
    class CycleState(Contract):
        prop = "C17"
        target = TL + "TrafficLightCycle.get_state_at_time_step"
        case = "n=%d" % _n
        n = _n
        describe = "state at t = state of the element whose window contains (t - offset) mod total; periodic"

        def build(self, F):
            ds, ss, off, cyc = _cycle(F, self.n)
            t = F.int("t")
            return {"ds": ds, "ss": ss, "off": off, "cyc": cyc, "t": t, "args": [cyc, t], "snap": F.snapshot(cyc)}

        def invoke(self, F, inp):
            r1 = F.method(inp["cyc"], "get_state_at_time_step", inp["t"])
            total = sum(inp["ds"][1:], inp["ds"][0]) if F.native else None
            if F.native:
                t2 = inp["t"] + total
            else:
                t2 = F.interp.binop(__import__("ast").Add, inp["t"], _sum(F, inp["ds"]))
            r2 = F.method(inp["cyc"], "get_state_at_time_step", t2)  # second query: memoised path
            return (r1, r2)

        def post(self, F, inp, out):
            yield ("raises nothing", out.exc is None)
            if out.exc is None:
                r1, r2 = out.value
                spec, total = _spec_state(inp["ds"], inp["ss"], inp["off"], inp["t"], r1)
                yield ("state is that of the element whose window contains (t - offset) mod total", spec)
                yield ("periodic with the total duration (second query on the same object)", T(r1) == T(r2))
                yield ("cycle definition not modified", F.same(inp["snap"], F.snapshot(_without_cache(F, inp["cyc"]))))

        def canaries(self, F, inp, out):
            if out.exc is None and self.n > 1:
                yield ("always the first element is refuted", T(out.value[0]) == T(inp["ss"][0]))


    @register
    class LightState(Contract):
        prop = "C17"
        target = TL + "TrafficLight.get_state_at_time_step"
        case = "n=%d" % _n
        n = _n
        describe = "TrafficLight agrees with its cycle"

        def build(self, F):
            ds, ss, off, cyc = _cycle(F, self.n)
            t = F.int("t")
            light = F.new(TrafficLight, 7, F.array([F.real("px"), F.real("py")]), cyc)
            return {"ds": ds, "ss": ss, "off": off, "cyc": cyc, "t": t, "args": [light, t]}

        def post(self, F, inp, out):
            yield ("raises nothing", out.exc is None)
            if out.exc is None:
                spec, total = _spec_state(inp["ds"], inp["ss"], inp["off"], inp["t"], out.value)
                yield ("state is that of the element whose window contains (t - offset) mod total", spec)


def _sum(F, xs):
    import ast

    acc = xs[0]
    for x in xs[1:]:
        acc = F.interp.binop(ast.Add, acc, x)
    return acc


def _without_cache(F, cyc):
    """view of the cycle without the declared cache attribute (_cycle_init_timesteps is covered by C11)"""
    import copy

    if F.native:
        c = copy.copy(cyc)
        c.__dict__.pop("_cycle_init_timesteps", None)
        return c
    from pyvc.objects import SObj

    c = SObj(cyc.cls)
    c.attrs.update({k: v for k, v in cyc.attrs.items() if k != "_cycle_init_timesteps"})
    return c
