"""C15 -- a file writer's output depends only on its own inputs.
The written document is the abstract XML tree stored by ElementTree.write in the modelled file system."""
import os
import tempfile

import numpy as np
import z3

import contracts.c16  # noqa: F401
from commonroad.common.file_writer import CommonRoadFileWriter
from commonroad.common.util import FileFormat
from commonroad.common.writer.file_writer_interface import OverwriteExistingFile
from commonroad.planning.planning_problem import PlanningProblemSet
from contracts.c01 import RoundTrip, mk_planning_problems, mk_scenario
from pyvc.contract import B, Contract, R, T, conj, register, scratch_dir
from pyvc.xmlmodel import NumText, XElem


def tree_eq(a, b, path=""):
    """two abstract documents are identical (date stamp aside)"""
    conds = []
    if a.tag != b.tag:
        return z3.BoolVal(False)
    ka = {k for k in a.attrib if k != "date"}
    kb = {k for k in b.attrib if k != "date"}
    if ka != kb:
        return z3.BoolVal(False)
    for k in ka:
        conds.append(text_eq(a.attrib[k], b.attrib[k]))
    conds.append(text_eq(a.text, b.text))
    if len(a.children) != len(b.children):
        return z3.BoolVal(False)
    for x, y in zip(a.children, b.children):
        conds.append(tree_eq(x, y, path + "/" + a.tag))
    return conj(conds)


def text_eq(s, t):
    if isinstance(s, NumText) and isinstance(t, NumText):
        if s.cls != t.cls:
            return z3.BoolVal(False)
        return R(s.value) == R(t.value)
    if isinstance(s, NumText) or isinstance(t, NumText):
        return z3.BoolVal(False)
    return z3.BoolVal(s == t)


def written(F, path):
    if F.native:
        import re

        try:
            data = open(path, "rb").read().decode()
        except OSError:
            return None
        return re.sub(r'date="[^"]*"', "", data)
    fs = F.ctx.options.get("__fs__", {})
    return fs[path][1] if path in fs else None


def out_path(F, name):
    if F.native:
        d = scratch_dir("c15_")
        return os.path.join(d, name)
    return "/nonexistent-dir/" + name


def same_document(F, a, b):
    if F.native:
        return a is not None and a == b
    return a is not None and b is not None and tree_eq(a, b)


def count(node):
    return 1 + sum(count(c) for c in node.children)


class WriterContract(RoundTrip):
    prop = "C15"
    budget_s = 200  # seconds on the unchanged tree: 1-4; a memoising wrapper multiplies paths (one case split per cache probe)

    def scenario(self, F):
        return mk_scenario(F, ("static", "dynamic")), mk_planning_problems(F)


@register
class WriteTwice(WriterContract):
    target = "commonroad.common.writer.file_writer_xml.XMLFileWriter.write_to_file"
    case = "the same writer object writes twice"
    describe = "the second document is identical to the first (date stamp aside)"

    def build(self, F):
        sc, pps = self.scenario(F)
        return {"sc": sc, "pps": pps, "args": []}

    def invoke(self, F, inp):
        w = F.new(CommonRoadFileWriter, inp["sc"], inp["pps"], decimal_precision=4, file_format=FileFormat.XML)
        pa, pb = out_path(F, "c15_a.xml"), out_path(F, "c15_b.xml")
        F.method(w, "write_to_file", pa, OverwriteExistingFile.ALWAYS)
        F.method(w, "write_to_file", pb, OverwriteExistingFile.ALWAYS)
        return written(F, pa), written(F, pb)

    def post(self, F, inp, out):
        yield ("raises nothing", out.exc is None)
        if out.exc is None:
            a, b = out.value
            yield ("both documents were written", a is not None and b is not None)
            if a is not None and b is not None:
                yield ("same number of elements in both documents (nothing emitted twice)", (a.count("<") == b.count("<")) if F.native else (count(a) == count(b)))
                yield ("second document identical to the first", same_document(F, a, b))


for _d2 in (2, 7):

    @register
    class OtherWriterInBetween(WriterContract):
        target = "commonroad.common.writer.file_writer_interface.FileWriter.__init__"
        case = "another writer with decimal precision %d is constructed in between" % _d2
        d2 = _d2
        describe = "constructing another writer with a different precision does not change what this writer writes"

        def build(self, F):
            sc, pps = self.scenario(F)
            return {"sc": sc, "pps": pps, "args": []}

        def invoke(self, F, inp):
            ref = F.new(CommonRoadFileWriter, inp["sc"], inp["pps"], decimal_precision=4, file_format=FileFormat.XML)
            pr, pw = out_path(F, "c15_ref.xml"), out_path(F, "c15_w.xml")
            F.method(ref, "write_to_file", pr, OverwriteExistingFile.ALWAYS)
            w = F.new(CommonRoadFileWriter, inp["sc"], inp["pps"], decimal_precision=4, file_format=FileFormat.XML)
            F.new(CommonRoadFileWriter, inp["sc"], inp["pps"], decimal_precision=self.d2, file_format=FileFormat.XML)  # never used
            F.method(w, "write_to_file", pw, OverwriteExistingFile.ALWAYS)
            return written(F, pr), written(F, pw)

        def post(self, F, inp, out):
            yield ("raises nothing", out.exc is None)
            if out.exc is None:
                a, b = out.value
                yield ("identical to the document of an identically constructed writer used alone", same_document(F, a, b))


@register
class TwoWritersInterleaved(WriterContract):
    target = "commonroad.common.writer.file_writer_xml.XMLFileWriter.write_to_file"
    case = "two XML writers (precision 2 and 6) are both constructed, then each writes"
    describe = "each document equals the one an identically constructed writer produces when constructed and used alone"

    def build(self, F):
        sc, pps = self.scenario(F)
        return {"sc": sc, "pps": pps, "args": []}

    def invoke(self, F, inp):
        mk = lambda d: F.new(CommonRoadFileWriter, inp["sc"], inp["pps"], decimal_precision=d, file_format=FileFormat.XML)
        pa, pb, ra, rb = out_path(F, "c15_A.xml"), out_path(F, "c15_B.xml"), out_path(F, "c15_rA.xml"), out_path(F, "c15_rB.xml")
        a, b = mk(2), mk(6)
        F.method(a, "write_to_file", pa, OverwriteExistingFile.ALWAYS)
        F.method(b, "write_to_file", pb, OverwriteExistingFile.ALWAYS)
        F.method(mk(2), "write_to_file", ra, OverwriteExistingFile.ALWAYS)
        F.method(mk(6), "write_to_file", rb, OverwriteExistingFile.ALWAYS)
        return [written(F, p) for p in (pa, pb, ra, rb)]

    def post(self, F, inp, out):
        yield ("raises nothing", out.exc is None)
        if out.exc is None:
            a, b, ra, rb = out.value
            yield ("document of the precision-2 writer equals its reference", same_document(F, a, ra))
            yield ("document of the precision-6 writer equals its reference", same_document(F, b, rb))


@register
class SkipExisting(WriterContract):
    target = "commonroad.common.writer.file_writer_interface.FileWriter._handle_file_path"
    case = "overwrite mode SKIP with an existing file"
    describe = "an existing file is left untouched: no write reaches the path"
    KEEP = b"<keep/>"

    def build(self, F):
        sc, pps = self.scenario(F)
        fd, path = tempfile.mkstemp(suffix=".xml", prefix="verif_c15_", dir=scratch_dir("c15_"))
        os.write(fd, self.KEEP)
        os.close(fd)
        return {"sc": sc, "pps": pps, "path": path, "args": []}

    def invoke(self, F, inp):
        try:
            w = F.new(CommonRoadFileWriter, inp["sc"], inp["pps"], decimal_precision=4, file_format=FileFormat.XML)
            F.method(w, "write_to_file", inp["path"], OverwriteExistingFile.SKIP)
            F.method(w, "write_scenario_to_file", inp["path"], OverwriteExistingFile.SKIP)
            content = open(inp["path"], "rb").read()
            touched = (not F.native) and inp["path"] in F.ctx.options.get("__fs__", {})
        finally:
            os.remove(inp["path"])
        return content, touched

    def post(self, F, inp, out):
        yield ("raises nothing", out.exc is None)
        if out.exc is None:
            content, touched = out.value
            yield ("file left byte-for-byte untouched", content == self.KEEP and not touched)


@register
class SkipExistingEmptyFile(SkipExisting):
    case = "overwrite mode SKIP with an existing file of 0 bytes"
    KEEP = b""


# ------------------------------------------------------------------------------ protobuf writers


def pb_written(F, path):
    """the written message with the date stamp removed (abstract tree, or bytes natively)"""
    if F.native:
        from commonroad.scenario_definition.protobuf_format.generated_scripts import commonroad_pb2

        try:
            data = open(path, "rb").read()
        except OSError:
            return None
        m = commonroad_pb2.CommonRoad()
        m.ParseFromString(data)
        m.information.ClearField("date")
        return m.SerializePartialToString()
    fs = F.ctx.options.get("__fs__", {})
    if path not in fs:
        return None
    from pyvc.pbmodel import copy_msg

    root = copy_msg(fs[path][1].root)
    info = root.vals.get("information")
    if info is not None:
        info.vals.pop("date", None)
    return root


def msg_eq(a, b):
    from pyvc.pbmodel import PMsg, PRep

    if a.desc is not b.desc or set(a.vals) != set(b.vals):
        return z3.BoolVal(False)
    conds = []
    for k, va in a.vals.items():
        vb = b.vals[k]
        if isinstance(va, PMsg):
            conds.append(msg_eq(va, vb) if isinstance(vb, PMsg) else z3.BoolVal(False))
        elif isinstance(va, PRep):
            if not isinstance(vb, PRep) or len(va.items) != len(vb.items):
                return z3.BoolVal(False)
            for x, y in zip(va.items, vb.items):
                conds.append(msg_eq(x, y) if isinstance(x, PMsg) else scalar_eq(x, y))
        else:
            conds.append(scalar_eq(va, vb))
    return conj(conds)


def scalar_eq(x, y):
    from pyvc.core import Sym

    if type(x) is Sym or type(y) is Sym:
        if isinstance(x, str) or isinstance(y, str):
            return z3.BoolVal(False)
        if (type(x) is Sym and x.ty is bool) or (type(y) is Sym and y.ty is bool):
            return B(x) == B(y)
        return R(x) == R(y)
    return z3.BoolVal(type(x) is type(y) and x == y)


def same_pb(F, a, b):
    if a is None or b is None:
        return False
    return a == b if F.native else msg_eq(a, b)


def n_repeated(m):
    from pyvc.pbmodel import PMsg, PRep

    n = 0
    for v in m.vals.values():
        if isinstance(v, PRep):
            n += len(v.items) + sum(n_repeated(x) for x in v.items if isinstance(x, PMsg))
        elif isinstance(v, PMsg):
            n += n_repeated(v)
    return n


class PbWriterContract(RoundTrip):
    prop = "C15"
    budget_s = 200

    def scenario(self, F):
        from contracts.c02 import WEATHER, fits_int32

        sc, pps = mk_scenario(F, ("static", "dynamic"), weather=WEATHER), mk_planning_problems(F)
        fits_int32(F)
        return sc, pps

    def build(self, F):
        sc, pps = self.scenario(F)
        return {"sc": sc, "pps": pps, "args": []}


@register
class PbWriteSequence(PbWriterContract):
    target = "commonroad.common.writer.file_writer_protobuf.ProtobufFileWriter.write_to_file"
    case = "the same protobuf writer: write_to_file, write_scenario_to_file, write_to_file"
    describe = "every document equals the one an identically constructed writer produces when used alone (date stamp aside)"

    def invoke(self, F, inp):
        mk = lambda: F.new(CommonRoadFileWriter, inp["sc"], inp["pps"], file_format=FileFormat.PROTOBUF)
        w = mk()
        p1, p2, p3 = out_path(F, "c15_1.pb"), out_path(F, "c15_2.pb"), out_path(F, "c15_3.pb")
        F.method(w, "write_to_file", p1, OverwriteExistingFile.ALWAYS)
        F.method(w, "write_scenario_to_file", p2, OverwriteExistingFile.ALWAYS)
        F.method(w, "write_to_file", p3, OverwriteExistingFile.ALWAYS)
        r_full, r_sc = out_path(F, "c15_rf.pb"), out_path(F, "c15_rs.pb")
        F.method(mk(), "write_to_file", r_full, OverwriteExistingFile.ALWAYS)
        F.method(mk(), "write_scenario_to_file", r_sc, OverwriteExistingFile.ALWAYS)
        return [pb_written(F, p) for p in (p1, p2, p3, r_full, r_sc)]

    def post(self, F, inp, out):
        yield ("raises nothing", out.exc is None)
        if out.exc is None:
            d1, d2, d3, rf, rs = out.value
            yield ("all documents were written", all(d is not None for d in out.value))
            if all(d is not None for d in out.value):
                yield ("first full document equals the reference", same_pb(F, d1, rf))
                yield ("scenario-only document after a full write equals the reference (nothing left over, nothing twice)", same_pb(F, d2, rs))
                yield ("full document after a scenario-only write equals the reference", same_pb(F, d3, rf))
                if not F.native:
                    yield ("same number of repeated entries (nothing emitted twice)", n_repeated(d2) == n_repeated(rs) and n_repeated(d3) == n_repeated(rf))


@register
class XmlThenPb(PbWriterContract):
    target = "commonroad.common.writer.file_writer_protobuf.ProtobufFileWriter.__init__"
    case = "an XML writer with another precision is constructed and used in between"
    describe = "a writer of the other format, constructed and used in between, does not change what this writer writes"

    def invoke(self, F, inp):
        mk = lambda: F.new(CommonRoadFileWriter, inp["sc"], inp["pps"], file_format=FileFormat.PROTOBUF)
        ref, w = mk(), mk()
        pr, pw = out_path(F, "c15_r.pb"), out_path(F, "c15_w.pb")
        F.method(ref, "write_to_file", pr, OverwriteExistingFile.ALWAYS)
        x = F.new(CommonRoadFileWriter, inp["sc"], inp["pps"], decimal_precision=9, file_format=FileFormat.XML)
        F.method(x, "write_to_file", out_path(F, "c15_x.xml"), OverwriteExistingFile.ALWAYS)
        F.method(w, "write_to_file", pw, OverwriteExistingFile.ALWAYS)
        return pb_written(F, pr), pb_written(F, pw)

    summaries = ("float_to_str", "make_valid_orientation")

    def post(self, F, inp, out):
        yield ("raises nothing", out.exc is None)
        if out.exc is None:
            a, b = out.value
            yield ("identical to the document of an identically constructed writer used alone", same_pb(F, a, b))


for _fmt in (FileFormat.XML, FileFormat.PROTOBUF):

    @register
    class SkipExistingDefaultName(WriterContract):
        target = "commonroad.common.writer.file_writer_interface.FileWriter._handle_file_path"
        case = "overwrite mode SKIP, default file name, %s" % _fmt.name
        fmt = _fmt
        describe = "with filename=None the name derived from the scenario id is protected by SKIP just like an explicit one"

        def scenario(self, F):
            if self.fmt is FileFormat.PROTOBUF:
                return PbWriterContract.scenario(self, F)
            return WriterContract.scenario(self, F)

        def build(self, F):
            sc, pps = self.scenario(F)
            d = scratch_dir("c15_cwd_")
            name = os.path.join(d, "DEU_Muc-2_1_T-3-1" + self.fmt.value)
            with open(name, "wb") as fh:
                fh.write(b"<keep/>")
            return {"sc": sc, "pps": pps, "dir": d, "path": name, "args": []}

        def invoke(self, F, inp):
            old = os.getcwd()
            os.chdir(inp["dir"])
            try:
                w = F.new(CommonRoadFileWriter, inp["sc"], inp["pps"], file_format=self.fmt)
                F.method(w, "write_to_file", None, OverwriteExistingFile.SKIP)
                F.method(w, "write_scenario_to_file", None, OverwriteExistingFile.SKIP)
                content = open(inp["path"], "rb").read()
                fs = {} if F.native else F.ctx.options.get("__fs__", {})
                touched = [k for k in fs if os.path.basename(str(k)) == os.path.basename(inp["path"])]
            finally:
                os.chdir(old)
            return content, touched

        def post(self, F, inp, out):
            yield ("raises nothing", out.exc is None)
            if out.exc is None:
                content, touched = out.value
                yield ("file left byte-for-byte untouched", content == b"<keep/>" and not touched)


@register
class ProtobufWriterBetweenXmlWrites(WriterContract):
    target = "commonroad.common.writer.file_writer_xml.XMLFileWriter.write_to_file"
    case = "XML writer writes, a protobuf writer writes the same scenario (with a lanelet network), the XML writer writes again"
    budget_s = 900
    describe = "a writer of the other format used in between does not change what this writer writes (nor the scenario it writes)"

    def scenario(self, F):
        from commonroad.planning.planning_problem import PlanningProblemSet
        from contracts.c02 import WEATHER, fits_int32

        sc = mk_scenario(F, ("network",), weather=WEATHER)
        fits_int32(F)
        return sc, F.new(PlanningProblemSet)

    def build(self, F):
        sc, pps = self.scenario(F)
        return {"sc": sc, "pps": pps, "args": []}

    def invoke(self, F, inp):
        w = F.new(CommonRoadFileWriter, inp["sc"], inp["pps"], decimal_precision=4, file_format=FileFormat.XML)
        pa, pb = out_path(F, "c15_x1.xml"), out_path(F, "c15_x2.xml")
        F.method(w, "write_to_file", pa, OverwriteExistingFile.ALWAYS)
        p = F.new(CommonRoadFileWriter, inp["sc"], inp["pps"], file_format=FileFormat.PROTOBUF)
        F.method(p, "write_to_file", out_path(F, "c15_between.pb"), OverwriteExistingFile.ALWAYS)
        F.method(w, "write_to_file", pb, OverwriteExistingFile.ALWAYS)
        return written(F, pa), written(F, pb)

    def post(self, F, inp, out):
        yield ("raises nothing", out.exc is None)
        if out.exc is None:
            a, b = out.value
            yield ("both documents were written", a is not None and b is not None)
            if a is not None and b is not None:
                yield ("second XML document identical to the first", same_document(F, a, b))


@register
class XmlWriterBetweenPbWrites(PbWriterContract):
    target = "commonroad.common.writer.file_writer_protobuf.ProtobufFileWriter.write_to_file"
    case = "protobuf writer writes, an XML writer writes the same scenario (lanelet without type), the protobuf writer writes again"
    summaries = ("float_to_str", "make_valid_orientation")
    describe = "a writer of the other format used in between does not change what this writer writes (nor the scenario it writes)"

    def scenario(self, F):
        import numpy as np

        from commonroad.planning.planning_problem import PlanningProblemSet
        from commonroad.scenario.lanelet import Lanelet
        from contracts.c02 import WEATHER, fits_int32

        sc = mk_scenario(F, ("mini_network",), weather=WEATHER)
        cv = lambda y: (np.array([[30.0, y + 1.0], [40.0, y + 1.25]]), np.array([[30.0, y + 0.5], [40.0, y + 0.75]]), np.array([[30.0, y], [40.0, y + 0.25]]))
        F.method(sc, "add_objects", F.new(Lanelet, *cv(7.0), 4, [3, 2], [2, 3]))  # constructor defaults: no lanelet type; reference lists not ascending
        fits_int32(F)
        return sc, F.new(PlanningProblemSet)

    def invoke(self, F, inp):
        w = F.new(CommonRoadFileWriter, inp["sc"], inp["pps"], file_format=FileFormat.PROTOBUF)
        pa, pb = out_path(F, "c15_p1.pb"), out_path(F, "c15_p2.pb")
        F.method(w, "write_to_file", pa, OverwriteExistingFile.ALWAYS)
        x = F.new(CommonRoadFileWriter, inp["sc"], inp["pps"], decimal_precision=4, file_format=FileFormat.XML)
        F.method(x, "write_to_file", out_path(F, "c15_between.xml"), OverwriteExistingFile.ALWAYS)
        F.method(w, "write_to_file", pb, OverwriteExistingFile.ALWAYS)
        return pb_written(F, pa), pb_written(F, pb)

    def post(self, F, inp, out):
        yield ("raises nothing", out.exc is None)
        if out.exc is None:
            a, b = out.value
            yield ("second protobuf document identical to the first", same_pb(F, a, b))
