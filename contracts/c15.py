"""C15 -- a file writer's output depends only on its own inputs.
The written document is the abstract XML tree stored by ElementTree.write in the modelled file system."""
import os
import tempfile

import numpy as np
import z3

import contracts.c16  # noqa: F401
from commonroad.common.file_writer import CommonRoadFileWriter
from commonroad.common.util import FileFormat
from commonroad.common.writer.file_writer_interface import OverwriteExistingFile
from commonroad.planning.planning_problem import PlanningProblemSet
from contracts.c01 import RoundTrip, mk_planning_problems, mk_scenario
from pyvc.contract import B, Contract, R, T, conj, register, scratch_dir
from pyvc.xmlmodel import NumText, XElem


def tree_eq(a, b, path=""):
    """two abstract documents are identical (date stamp aside)"""
    conds = []
    if a.tag != b.tag:
        return z3.BoolVal(False)
    ka = {k for k in a.attrib if k != "date"}
    kb = {k for k in b.attrib if k != "date"}
    if ka != kb:
        return z3.BoolVal(False)
    for k in ka:
        conds.append(text_eq(a.attrib[k], b.attrib[k]))
    conds.append(text_eq(a.text, b.text))
    if len(a.children) != len(b.children):
        return z3.BoolVal(False)
    for x, y in zip(a.children, b.children):
        conds.append(tree_eq(x, y, path + "/" + a.tag))
    return conj(conds)


def text_eq(s, t):
    if isinstance(s, NumText) and isinstance(t, NumText):
        if s.cls != t.cls:
            return z3.BoolVal(False)
        return R(s.value) == R(t.value)
    if isinstance(s, NumText) or isinstance(t, NumText):
        return z3.BoolVal(False)
    return z3.BoolVal(s == t)


def written(F, path):
    if F.native:
        import re

        try:
            data = open(path, "rb").read().decode()
        except OSError:
            return None
        return re.sub(r'date="[^"]*"', "", data)
    fs = F.ctx.options.get("__fs__", {})
    return fs[path][1] if path in fs else None


def out_path(F, name):
    if F.native:
        d = scratch_dir("c15_")
        return os.path.join(d, name)
    return "/nonexistent-dir/" + name


def same_document(F, a, b):
    if F.native:
        return a is not None and a == b
    return a is not None and b is not None and tree_eq(a, b)


def count(node):
    return 1 + sum(count(c) for c in node.children)


class WriterContract(RoundTrip):
    prop = "C15"

    def scenario(self, F):
        return mk_scenario(F, ("static", "dynamic")), mk_planning_problems(F)


@register
class WriteTwice(WriterContract):
    target = "commonroad.common.writer.file_writer_xml.XMLFileWriter.write_to_file"
    case = "the same writer object writes twice"
    describe = "the second document is identical to the first (date stamp aside)"

    def build(self, F):
        sc, pps = self.scenario(F)
        return {"sc": sc, "pps": pps, "args": []}

    def invoke(self, F, inp):
        w = F.new(CommonRoadFileWriter, inp["sc"], inp["pps"], decimal_precision=4, file_format=FileFormat.XML)
        pa, pb = out_path(F, "c15_a.xml"), out_path(F, "c15_b.xml")
        F.method(w, "write_to_file", pa, OverwriteExistingFile.ALWAYS)
        F.method(w, "write_to_file", pb, OverwriteExistingFile.ALWAYS)
        return written(F, pa), written(F, pb)

    def post(self, F, inp, out):
        yield ("raises nothing", out.exc is None)
        if out.exc is None:
            a, b = out.value
            yield ("both documents were written", a is not None and b is not None)
            if a is not None and b is not None:
                yield ("same number of elements in both documents (nothing emitted twice)", (a.count("<") == b.count("<")) if F.native else (count(a) == count(b)))
                yield ("second document identical to the first", same_document(F, a, b))


for _d2 in (2, 7):

    @register
    class OtherWriterInBetween(WriterContract):
        target = "commonroad.common.writer.file_writer_interface.FileWriter.__init__"
        case = "another writer with decimal precision %d is constructed in between" % _d2
        d2 = _d2
        describe = "constructing another writer with a different precision does not change what this writer writes"

        def build(self, F):
            sc, pps = self.scenario(F)
            return {"sc": sc, "pps": pps, "args": []}

        def invoke(self, F, inp):
            ref = F.new(CommonRoadFileWriter, inp["sc"], inp["pps"], decimal_precision=4, file_format=FileFormat.XML)
            pr, pw = out_path(F, "c15_ref.xml"), out_path(F, "c15_w.xml")
            F.method(ref, "write_to_file", pr, OverwriteExistingFile.ALWAYS)
            w = F.new(CommonRoadFileWriter, inp["sc"], inp["pps"], decimal_precision=4, file_format=FileFormat.XML)
            F.new(CommonRoadFileWriter, inp["sc"], inp["pps"], decimal_precision=self.d2, file_format=FileFormat.XML)  # never used
            F.method(w, "write_to_file", pw, OverwriteExistingFile.ALWAYS)
            return written(F, pr), written(F, pw)

        def post(self, F, inp, out):
            yield ("raises nothing", out.exc is None)
            if out.exc is None:
                a, b = out.value
                yield ("identical to the document of an identically constructed writer used alone", same_document(F, a, b))


@register
class SkipExisting(WriterContract):
    target = "commonroad.common.writer.file_writer_interface.FileWriter._handle_file_path"
    case = "overwrite mode SKIP with an existing file"
    describe = "an existing file is left untouched: no write reaches the path"

    def build(self, F):
        sc, pps = self.scenario(F)
        fd, path = tempfile.mkstemp(suffix=".xml", prefix="verif_c15_", dir=scratch_dir("c15_"))
        os.write(fd, b"<keep/>")
        os.close(fd)
        return {"sc": sc, "pps": pps, "path": path, "args": []}

    def invoke(self, F, inp):
        try:
            w = F.new(CommonRoadFileWriter, inp["sc"], inp["pps"], decimal_precision=4, file_format=FileFormat.XML)
            F.method(w, "write_to_file", inp["path"], OverwriteExistingFile.SKIP)
            F.method(w, "write_scenario_to_file", inp["path"], OverwriteExistingFile.SKIP)
            content = open(inp["path"], "rb").read()
            touched = (not F.native) and inp["path"] in F.ctx.options.get("__fs__", {})
        finally:
            os.remove(inp["path"])
        return content, touched

    def post(self, F, inp, out):
        yield ("raises nothing", out.exc is None)
        if out.exc is None:
            content, touched = out.value
            yield ("file left byte-for-byte untouched", content == b"<keep/>" and not touched)
