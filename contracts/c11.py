"""C11 -- derived data never goes stale under mutation.
Each contract is a short history  query (cache populated) -> public mutator -> query ; the postcondition says the
second answer is what a freshly constructed object would give for the current primary data."""
import ast

import numpy as np
import z3

import commonroad.scenario.state as st
import contracts.c16  # noqa: F401
from commonroad.geometry.shape import Circle, Rectangle
from commonroad.prediction.prediction import Occupancy, SetBasedPrediction, TrajectoryPrediction
from commonroad.scenario.obstacle import DynamicObstacle, ObstacleType
from commonroad.scenario.traffic_light import TrafficLight, TrafficLightCycle, TrafficLightCycleElement
from commonroad.scenario.trajectory import Trajectory
from contracts.c04 import mk_traj_states, shape_at_state
from contracts.c05 import MVO, motion, polyline
from contracts.c05b import local_rect, mk_initial_state, mk_ks_state, mk_lanelet
from contracts.c17 import _cycle, _spec_state
from pyvc.contract import B, Contract, R, T, conj, deep_eq, register
from spec.rigid import rigid_pt, xy, placed, pt_eq
from spec.sets import TWO_PI


class History(Contract):
    prop = "C11"
    unroll = MVO
    summaries = ("make_valid_orientation",)  # callee contract (proved under C16)


# ------------------------------------------------------------------------------ TrajectoryPrediction.occupancy_set

for _mut in ("translate_rotate", "trajectory setter", "shape setter", "DynamicObstacle.translate_rotate"):

    @register
    class PredictionOccupancyFresh(History):
        target = "commonroad.prediction.prediction.TrajectoryPrediction.occupancy_set"
        case = "after " + _mut
        mut = _mut
        describe = "occupancy_at_time_step after the mutation is the shape placed at the *current* trajectory state"

        def build(self, F):
            sh = local_rect(F, "sh_")
            t_first = F.int("t_first")
            F.assume(T(t_first) >= 1)
            states = mk_traj_states(F, "tr_", t_first, 2)
            pred = F.new(TrajectoryPrediction, F.new(Trajectory, t_first, states), sh)
            d = {"sh": sh, "states": states, "pred": pred, "t_first": t_first, "args": []}
            if self.mut in ("translate_rotate", "DynamicObstacle.translate_rotate"):
                d["t"], d["tarr"], d["a"] = motion(F)
            if self.mut == "DynamicObstacle.translate_rotate":
                d["obs"] = F.new(DynamicObstacle, 11, ObstacleType.CAR, sh, mk_initial_state(F, "init_", 0), pred)
            if self.mut == "trajectory setter":
                d["states2"] = mk_traj_states(F, "tr2_", t_first, 2)
                d["traj2"] = F.new(Trajectory, t_first, d["states2"])
            if self.mut == "shape setter":
                d["sh2"] = local_rect(F, "sh2_")
            return d

        def invoke(self, F, inp):
            pred = inp["pred"]
            first = F.method(pred, "occupancy_at_time_step", inp["t_first"])  # populates the cache
            if self.mut == "translate_rotate":
                F.method(pred, "translate_rotate", inp["tarr"], inp["a"])
            elif self.mut == "DynamicObstacle.translate_rotate":
                F.method(inp["obs"], "translate_rotate", inp["tarr"], inp["a"])
            elif self.mut == "trajectory setter":
                F.setattr(pred, "trajectory", inp["traj2"])
            else:
                F.setattr(pred, "shape", inp["sh2"])
            return [F.method(pred, "occupancy_at_time_step", F.add(inp["t_first"], i)) for i in range(2)]

        def post(self, F, inp, out):
            yield ("raises nothing", out.exc is None)
            if out.exc is None:
                cur_states = F.items(F.attr(F.attr(inp["pred"], "trajectory"), "state_list"))
                cur_shape = F.attr(inp["pred"], "shape")
                for i, occ in enumerate(out.value):
                    yield ("occupancy %d exists" % i, occ is not None)
                    if occ is not None:
                        yield ("occupancy %d is the current shape placed at the current state %d" % (i, i),
                               shape_at_state(F, F.attr(occ, "shape"), cur_shape, cur_states[i]))
                if self.mut in ("translate_rotate", "DynamicObstacle.translate_rotate"):
                    # and the current state is the moved one (C05), so the occupancy centre is the rigid image
                    p_old = xy(F, F.attr(inp["states"][0], "position")) if F.native is False else None


# ------------------------------------------------------------------------------ DynamicObstacle


for _mut in ("prediction setter", "update_prediction", "update_initial_state", "translate_rotate"):

    @register
    class ObstacleOccupancyFresh(History):
        target = "commonroad.scenario.obstacle.DynamicObstacle.occupancy_at_time"
        case = "after " + _mut
        mut = _mut
        describe = "occupancy / state at a time step after the mutation equal those of the current initial state / prediction"

        def build(self, F):
            sh = local_rect(F, "sh_")
            init = mk_initial_state(F, "init_", 0)
            states = mk_traj_states(F, "tr_", 1, 2)
            pred = F.new(TrajectoryPrediction, F.new(Trajectory, 1, states), sh)
            obs = F.new(DynamicObstacle, 11, ObstacleType.CAR, sh, init, pred)
            d = {"sh": sh, "obs": obs, "init": init, "args": []}
            if self.mut in ("prediction setter", "update_prediction"):
                d["states2"] = mk_traj_states(F, "tr2_", 1, 2)
                d["pred2"] = F.new(TrajectoryPrediction, F.new(Trajectory, 1, d["states2"]), sh)
            if self.mut == "update_initial_state":
                d["init2"] = mk_initial_state(F, "init2_", 1)
            if self.mut == "translate_rotate":
                d["t"], d["tarr"], d["a"] = motion(F)
            return d

        def invoke(self, F, inp):
            obs = inp["obs"]
            for t in (0, 1, 2):
                F.method(obs, "occupancy_at_time", t)  # populate every cache
            if self.mut == "prediction setter":
                F.setattr(obs, "prediction", inp["pred2"])
            elif self.mut == "update_prediction":
                F.method(obs, "update_prediction", inp["pred2"])
            elif self.mut == "update_initial_state":
                F.method(obs, "update_initial_state", inp["init2"])
            else:
                F.method(obs, "translate_rotate", inp["tarr"], inp["a"])
            return [(F.method(obs, "occupancy_at_time", t), F.method(obs, "state_at_time", t)) for t in (0, 1, 2)]

        def post(self, F, inp, out):
            yield ("raises nothing", out.exc is None)
            if out.exc is None:
                obs = inp["obs"]
                cur_init = F.attr(obs, "initial_state")
                cur_pred = F.attr(obs, "prediction")
                t_init = F.attr(cur_init, "time_step")
                for t, (occ, stt) in zip((0, 1, 2), out.value):
                    if t == t_init:
                        exp_state = cur_init
                    elif cur_pred is not None and t > t_init:
                        lst = F.items(F.attr(F.attr(cur_pred, "trajectory"), "state_list"))
                        exp_state = lst[t - 1] if 0 <= t - 1 < len(lst) else None
                    else:
                        exp_state = None
                    yield ("t=%d: state is the one of the current data" % t, stt is exp_state)
                    yield ("t=%d: occupancy exists iff a state exists" % t, (occ is None) == (exp_state is None))
                    if occ is not None and exp_state is not None:
                        yield ("t=%d: occupancy is the shape placed at the current state" % t,
                               shape_at_state(F, F.attr(occ, "shape"), inp["sh"], exp_state))


for _hist, _max in ((0, 1), (1, 1), (1, 2), (2, 2), (3, 2), (2, 5)):

    @register
    class UpdateInitialStateHistory(History):
        target = "commonroad.scenario.obstacle.DynamicObstacle.update_initial_state"
        case = "history=%d,max=%d" % (_hist, _max)
        nh, mx = _hist, _max
        describe = "keeps exactly the most recent max_history_length previous states, in order; all history lists of equal length; prediction reset"

        def build(self, F):
            sh = local_rect(F, "sh_")
            hist = [mk_initial_state(F, "h%d_" % i, i) for i in range(self.nh)]
            init = mk_initial_state(F, "init_", self.nh)
            obs = F.new(DynamicObstacle, 11, ObstacleType.CAR, sh, init, None, None, None, None, None, None, None, None,
                        list(hist), [None] * self.nh, [set() for _ in range(self.nh)], [set() for _ in range(self.nh)])
            new = mk_initial_state(F, "new_", self.nh + 1)
            return {"obs": obs, "hist": hist, "init": init, "new": new, "args": [obs, new, None, {5}, {6}, self.mx]}

        def post(self, F, inp, out):
            yield ("raises nothing", out.exc is None)
            if out.exc is None:
                obs = inp["obs"]
                exp = (inp["hist"] + [inp["init"]])[-self.mx:]
                got = F.items(F.attr(obs, "history"))
                yield ("history is the most recent max_history_length previous states, in order",
                       len(got) == len(exp) and all(g is e for g, e in zip(got, exp)))
                lens = {len(F.items(F.attr(obs, k))) for k in ("history", "signal_history", "center_lanelet_ids_history", "shape_lanelet_ids_history")}
                yield ("all history lists have equal length", len(lens) == 1)
                yield ("new initial state installed, prediction reset", F.attr(obs, "initial_state") is inp["new"] and F.attr(obs, "prediction") is None)
                occ = F.method(obs, "occupancy_at_time", self.nh + 1)
                yield ("occupancy at the new initial step is the shape placed at the new initial state",
                       occ is not None and shape_at_state(F, F.attr(occ, "shape"), F.attr(obs, "obstacle_shape"), inp["new"]))


# ------------------------------------------------------------------------------ traffic light cycle


for _mut in ("cycle_elements setter", "time_offset setter", "TrafficLight.traffic_light_cycle setter", "cycle_elements edited in place and assigned back",
             "time_offset set on the cycle object of a TrafficLight, queried through the light"):

    @register
    class CycleFresh(History):
        target = "commonroad.scenario.traffic_light.TrafficLightCycle.get_state_at_time_step"
        case = "after " + _mut
        mut = _mut
        describe = "state at a time step after changing the cycle follows the *current* cycle definition"

        def build(self, F):
            ds, ss, off, cyc = _cycle(F, 2)
            t = F.int("t")
            d = {"cyc": cyc, "t": t, "ds": ds, "ss": ss, "off": off, "args": []}
            if self.mut == "cycle_elements edited in place and assigned back":
                e = F.int("e_new")
                c = F.int("colour_new")
                F.assume(T(e) > 0)
                d["extra"] = F.new(TrafficLightCycleElement, c, e)
                d["ds2"], d["ss2"] = ds + [e], ss + [c]
            elif self.mut == "cycle_elements setter":
                d["ds2"] = [F.int("e%d" % i) for i in range(3)]
                d["ss2"] = [F.int("colour2_%d" % i) for i in range(3)]
                for x in d["ds2"]:
                    F.assume(T(x) > 0)
                d["elems2"] = [F.new(TrafficLightCycleElement, s, x) for s, x in zip(d["ss2"], d["ds2"])]
            elif self.mut == "time_offset setter":
                d["off2"] = F.int("offset2")
                F.assume(T(d["off2"]) >= 0)
            elif self.mut.startswith("time_offset set on the cycle object"):
                d["light"] = F.new(TrafficLight, 7, F.array([0.0, 0.0]), cyc)
                d["off2"] = F.int("offset2")
                F.assume(T(d["off2"]) >= 0)
            else:
                d["light"] = F.new(TrafficLight, 7, F.array([0.0, 0.0]), cyc)
                d["ds2"], d["ss2"], d["off2"], d["cyc2"] = _cycle2(F)
            return d

        def invoke(self, F, inp):
            q = inp["light"] if "light" in inp else inp["cyc"]
            F.method(q, "get_state_at_time_step", inp["t"])  # populate caches
            if self.mut == "cycle_elements edited in place and assigned back":
                lst = F.attr(inp["cyc"], "cycle_elements")
                lst.append(inp["extra"])
                F.setattr(inp["cyc"], "cycle_elements", lst)
            elif self.mut == "cycle_elements setter":
                F.setattr(inp["cyc"], "cycle_elements", inp["elems2"])
            elif self.mut == "time_offset setter":
                F.setattr(inp["cyc"], "time_offset", inp["off2"])
            elif self.mut.startswith("time_offset set on the cycle object"):
                F.setattr(F.attr(inp["light"], "traffic_light_cycle"), "time_offset", inp["off2"])  # the light is asked again at the same t
            else:
                F.setattr(inp["light"], "traffic_light_cycle", inp["cyc2"])
            return F.method(q, "get_state_at_time_step", inp["t"])

        def post(self, F, inp, out):
            yield ("raises nothing", out.exc is None)
            if out.exc is None:
                ds = inp.get("ds2", inp["ds"])
                ss = inp.get("ss2", inp["ss"])
                off = inp.get("off2", inp["off"])
                spec, _ = _spec_state(ds, ss, off, inp["t"], out.value)
                yield ("state follows the current cycle definition", spec)


def _cycle2(F):
    ds = [F.int("e%d" % i) for i in range(2)]
    ss = [F.int("colour2_%d" % i) for i in range(2)]
    for d in ds:
        F.assume(T(d) > 0)
    off = F.int("offset2")
    F.assume(T(off) >= 0)
    cyc = F.new(TrafficLightCycle, [F.new(TrafficLightCycleElement, s, d) for s, d in zip(ss, ds)], off)
    return ds, ss, off, cyc


# ------------------------------------------------------------------------------ lanelet polygon / distance


@register
class LaneletDerivedFresh(History):
    target = "commonroad.scenario.lanelet.Lanelet.translate_rotate"
    case = "polygon and distance after translate_rotate"
    describe = "lanelet polygon and cumulative distance after translate_rotate equal those recomputed from the current vertices"

    def build(self, F):
        la = mk_lanelet(F, "la_", n=3, stop=False)
        t, tarr, a = motion(F)
        return {"la": la, "tarr": tarr, "a": a, "args": []}

    def invoke(self, F, inp):
        la = inp["la"]
        F.attr(la, "distance")  # populate caches
        F.attr(la, "polygon")
        F.method(la, "translate_rotate", inp["tarr"], inp["a"])
        return (F.attr(la, "distance"), F.attr(la, "polygon"))

    def post(self, F, inp, out):
        from commonroad.scenario.lanelet import Lanelet

        yield ("raises nothing", out.exc is None)
        if out.exc is None:
            la = inp["la"]
            dist, poly = out.value
            fresh = F.new(Lanelet, F.attr(la, "left_vertices"), F.attr(la, "center_vertices"), F.attr(la, "right_vertices"), 99)
            yield ("distance equals the distance of a freshly constructed lanelet", deep_eq(dist, F.attr(fresh, "distance"), F))
            yield ("polygon equals the polygon of a freshly constructed lanelet",
                   deep_eq(F.attr(poly, "vertices"), F.attr(F.attr(fresh, "polygon"), "vertices"), F))


@register
class LaneletDerivedFresh2D(History):
    """convert_to_2d is the other public mutator of a lanelet's geometry (the property's anchor names it next to
    translate_rotate): the cumulative distances of a 3-D centre line include the height differences, those of the
    converted lanelet must not"""
    target = "commonroad.scenario.lanelet.Lanelet.convert_to_2d"
    case = "polygon, distance and inner distance after convert_to_2d (3-D vertices)"
    describe = "lanelet polygon, cumulative distance and inner distance after convert_to_2d equal those recomputed from the current (2-D) vertices"

    def build(self, F):
        from commonroad.scenario.lanelet import Lanelet

        line = lambda name: F.array([[F.real("%s%dx" % (name, i)), F.real("%s%dy" % (name, i)), F.real("%s%dz" % (name, i))] for i in range(2)])
        left, right = line("c2l"), line("c2r")
        center = 0.5 * (left + right) if F.native else F.interp.binop(__import__("ast").Mult, 0.5, F.interp.binop(__import__("ast").Add, left, right))
        return {"la": F.new(Lanelet, left, center, right, 7), "args": []}

    def invoke(self, F, inp):
        la = inp["la"]
        F.attr(la, "distance")  # populate caches
        F.attr(la, "inner_distance")
        F.attr(la, "polygon")
        F.method(la, "convert_to_2d")
        return (F.attr(la, "distance"), F.attr(la, "inner_distance"), F.attr(la, "polygon"))

    def post(self, F, inp, out):
        from commonroad.scenario.lanelet import Lanelet

        yield ("raises nothing", out.exc is None)
        if out.exc is None:
            la = inp["la"]
            dist, inner, poly = out.value
            fresh = F.new(Lanelet, F.attr(la, "left_vertices"), F.attr(la, "center_vertices"), F.attr(la, "right_vertices"), 99)
            yield ("distance equals the distance of a freshly constructed lanelet", deep_eq(dist, F.attr(fresh, "distance"), F))
            yield ("inner distance equals that of a freshly constructed lanelet", deep_eq(inner, F.attr(fresh, "inner_distance"), F))
            yield ("polygon equals the polygon of a freshly constructed lanelet",
                   deep_eq(F.attr(poly, "vertices"), F.attr(F.attr(fresh, "polygon"), "vertices"), F))
