"""C08 -- goal-region membership is decided correctly (planning/goal.py, planning/planning_problem.py)."""
import itertools

import numpy as np
import z3

import commonroad.scenario.state as st
from commonroad.common.util import AngleInterval, Interval
from commonroad.geometry.shape import Circle, Polygon, Rectangle, ShapeGroup
from commonroad.planning.goal import GoalRegion
from commonroad.planning.planning_problem import PlanningProblem
from commonroad.scenario.trajectory import Trajectory
from contracts.c05 import SHAPES
from pyvc.contract import B, Contract, R, T, conj, disj, register
from pyvc.core import PI
from pyvc.ops import ATAN2, SQRT
from spec.sets import TWO_PI, amem, mem

GQ = "commonroad.planning.goal.GoalRegion."
UNROLL = {"commonroad.common.util.make_valid_orientation_interval": 2, "commonroad.common.util.make_valid_orientation": 3}

KINEMATIC = [st.InitialState, st.KSState, st.KSTState, st.STState, st.STDState, st.ExtendedPMState]
POINT_MASS = [st.PMState]
POS = ["none", "Rectangle", "Circle", "ShapeGroup", "Polygon"]


def mk_goal_state(F, pos, ori, vel, p="g_"):
    """goal state constraining time (mandatory) and the selected attributes"""
    t0, t1 = F.int(p + "t0"), F.int(p + "t1")
    F.assume(T(t0) <= T(t1))
    kw = {"time_step": F.new(Interval, t0, t1)}
    spec = {"time": (t0, t1)}
    if pos != "none":
        kw["position"] = SHAPES[pos](F, p + "pos_")
        spec["position"] = kw["position"]
    if ori:
        a, b = F.real(p + "o0"), F.real(p + "o1")
        F.assume(z3.And(R(a) >= -TWO_PI, R(b) <= TWO_PI, R(a) <= R(b), R(b) - R(a) < TWO_PI))
        kw["orientation"] = F.new(AngleInterval, a, b)
        spec["orientation"] = (a, b)
    if vel:
        a, b = F.real(p + "v0"), F.real(p + "v1")
        F.assume(R(a) <= R(b))
        kw["velocity"] = F.new(Interval, a, b)
        spec["velocity"] = (a, b)
    return F.new(st.CustomState, **kw), spec


def mk_query_state(F, cls, num_ty=float, p="s_"):
    """a state with exact values for time, position, heading and speed (other attributes left unset)"""
    t = F.int(p + "t")
    px, py = F.real(p + "px"), F.real(p + "py")
    info = {"t": t, "pos": (px, py)}
    kw = {"time_step": t, "position": F.array([px, py])}
    if cls in POINT_MASS:
        vx, vy = F.num(p + "vx", num_ty), F.num(p + "vy", num_ty)
        kw["velocity"], kw["velocity_y"] = vx, vy
        info["vx"], info["vy"] = vx, vy
    else:
        o, v = F.num(p + "orientation", num_ty), F.num(p + "velocity", num_ty)
        F.assume(z3.And(R(o) >= -TWO_PI, R(o) <= TWO_PI))
        kw["orientation"], kw["velocity"] = o, v
        info["heading"], info["speed"] = o, v
    return F.new(cls, **kw), info, kw["position"]


def heading_speed(F, info):
    """heading and speed of the state as the property defines them"""
    if "vx" in info:
        from pyvc import core, ops

        vx, vy = R(info["vx"]), R(info["vy"])
        sp = SQRT(z3.simplify(vx * vx + vy * vy))
        hd = ATAN2(z3.simplify(vy), z3.simplify(vx))
        if core.CURRENT is not None:
            core.CURRENT.solver.add(sp >= 0, hd > -PI, hd <= PI)
            core.CURRENT.lazy_axioms.append(sp * sp == vx * vx + vy * vy)
        return hd, sp
    return R(info["heading"]), R(info["speed"])


def reach(F, spec, info, pos_arr):
    """the goal state is satisfied in all the attributes it constrains"""
    hd, sp = heading_speed(F, info)
    cs = [mem(info["t"], *spec["time"])]
    if "position" in spec:
        cs.append(B(F.method(spec["position"], "contains_point", pos_arr)))
    if "orientation" in spec:
        cs.append(amem(hd, *spec["orientation"], K=3))
    if "velocity" in spec:
        cs.append(mem(sp, *spec["velocity"]))
    return conj(cs)


def cases():
    for cls in KINEMATIC + POINT_MASS:
        for pos in POS:
            for ori, vel in itertools.product((False, True), repeat=2):
                if pos in ("ShapeGroup", "Polygon") and not (cls in (st.KSState, st.PMState) and ori and vel):
                    continue
                yield cls, pos, ori, vel, float
    # int-typed values (the property: int or float values)
    yield st.KSState, "Circle", True, True, int
    yield st.PMState, "none", True, True, int


for _cls, _pos, _ori, _vel, _nt in cases():

    @register
    class IsReached(Contract):
        prop = "C08"
        target = GQ + "is_reached"
        case = "%s,goal:pos=%s,ori=%s,vel=%s,%s" % (_cls.__name__, _pos, _ori, _vel, _nt.__name__)
        cls, pos, ori, vel, nt = _cls, _pos, _ori, _vel, _nt
        unroll = UNROLL
        describe = "one goal state: is_reached == all constrained attributes satisfied; never raises; nothing modified"

        def build(self, F):
            g, spec = mk_goal_state(F, self.pos, self.ori, self.vel)
            s, info, pos_arr = mk_query_state(F, self.cls, self.nt)
            region = F.new(GoalRegion, [g])
            return {"spec": spec, "info": info, "pos_arr": pos_arr, "s": s, "g": g, "args": [region, s],
                    "snap_s": F.snapshot(s), "snap_g": F.snapshot(g)}

        def post(self, F, inp, out):
            yield ("raises nothing", out.exc is None)
            if out.exc is None:
                yield ("reached <=> time, position, orientation (mod 2pi) and velocity constraints all hold",
                       B(out.value) == reach(F, inp["spec"], inp["info"], inp["pos_arr"]))
            if not F.native:
                yield ("state not modified", F.same(inp["snap_s"], inp["s"]))
                yield ("goal state not modified", F.same(inp["snap_g"], inp["g"]))


for _cls in (st.KSState, st.PMState):

    @register
    class IsReachedTwoGoals(Contract):
        prop = "C08"
        target = GQ + "is_reached"
        case = "%s,two goal states" % _cls.__name__
        cls = _cls
        unroll = UNROLL
        describe = "reached iff at least one goal state is satisfied"

        def build(self, F):
            g1, spec1 = mk_goal_state(F, "Circle", True, False, "g1_")
            g2, spec2 = mk_goal_state(F, "none", False, True, "g2_")
            s, info, pos_arr = mk_query_state(F, self.cls)
            region = F.new(GoalRegion, [g1, g2])
            return {"specs": [spec1, spec2], "info": info, "pos_arr": pos_arr, "args": [region, s]}

        def post(self, F, inp, out):
            yield ("raises nothing", out.exc is None)
            if out.exc is None:
                yield ("reached <=> some goal state is satisfied",
                       B(out.value) == disj(reach(F, sp, inp["info"], inp["pos_arr"]) for sp in inp["specs"]))


@register
class GoalReached(Contract):
    prop = "C08"
    target = "commonroad.planning.planning_problem.PlanningProblem.goal_reached"
    unroll = UNROLL
    describe = "(True, i) => state i reaches the goal; (False, -1) <=> no state reaches it"

    def build(self, F):
        g, spec = mk_goal_state(F, "Circle", False, True)
        region = F.new(GoalRegion, [g])
        init = F.new(st.InitialState, time_step=0, position=F.array([0.0, 0.0]), orientation=0.0, velocity=0.0, yaw_rate=0.0, slip_angle=0.0)
        pp = F.new(PlanningProblem, 1, init, region)
        states, infos, arrs = [], [], []
        t0 = F.int("t0")
        for i in range(2):
            s, info, arr = mk_query_state(F, st.KSState, p="s%d_" % i)
            F.assume(T(info["t"]) == T(t0) + i)
            states.append(s)
            infos.append(info)
            arrs.append(arr)
        traj = F.new(Trajectory, t0, states)
        return {"spec": spec, "infos": infos, "arrs": arrs, "args": [pp, traj]}

    def post(self, F, inp, out):
        yield ("raises nothing", out.exc is None)
        if out.exc is None:
            ok, idx = F.items(out.value)
            rs = [reach(F, inp["spec"], info, arr) for info, arr in zip(inp["infos"], inp["arrs"])]
            yield ("success <=> some trajectory state reaches the goal", B(ok) == disj(rs))
            yield ("on success the index is that of a reaching state; otherwise -1",
                   z3.If(B(ok), disj(z3.And(T(idx) == i, r) for i, r in enumerate(rs)), T(idx) == -1))


@register
class GoalReachedTwoGoalStates(Contract):
    """two goal states with independent symbolic time windows (the first may start later than the second)"""
    prop = "C08"
    target = "commonroad.planning.planning_problem.PlanningProblem.goal_reached"
    case = "two goal states with different time windows"
    unroll = UNROLL
    describe = "(True, i) => state i reaches SOME goal state; (False, -1) <=> no trajectory state reaches any goal state, whatever the order of the goal states"

    def build(self, F):
        g1, spec1 = mk_goal_state(F, "Circle", False, True, p="g1_")
        g2, spec2 = mk_goal_state(F, "Circle", False, False, p="g2_")
        region = F.new(GoalRegion, [g1, g2])
        init = F.new(st.InitialState, time_step=0, position=F.array([0.0, 0.0]), orientation=0.0, velocity=0.0, yaw_rate=0.0, slip_angle=0.0)
        pp = F.new(PlanningProblem, 1, init, region)
        states, infos, arrs = [], [], []
        t0 = F.int("t0")
        for i in range(2):
            s, info, arr = mk_query_state(F, st.KSState, p="s%d_" % i)
            F.assume(T(info["t"]) == T(t0) + i)
            states.append(s)
            infos.append(info)
            arrs.append(arr)
        traj = F.new(Trajectory, t0, states)
        return {"specs": (spec1, spec2), "infos": infos, "arrs": arrs, "args": [pp, traj]}

    def post(self, F, inp, out):
        yield ("raises nothing", out.exc is None)
        if out.exc is None:
            ok, idx = F.items(out.value)
            rs = [z3.Or(reach(F, inp["specs"][0], info, arr), reach(F, inp["specs"][1], info, arr)) for info, arr in zip(inp["infos"], inp["arrs"])]
            yield ("success <=> some trajectory state reaches some goal state", B(ok) == disj(rs))
            yield ("on success the index is that of a reaching state; otherwise -1",
                   z3.If(B(ok), disj(z3.And(T(idx) == i, r) for i, r in enumerate(rs)), T(idx) == -1))
