"""C01 / C03 -- the contract of file_writer_xml.float_to_str, DISCHARGED on the real body (fourth session).

Until now the contract (plain decimal text, within 10^-d of the value, a truncation towards zero outside the exponent range,
monotone) was only ASSUMED by the XML contracts (summary 'float_to_str' in contracts/c01.py) and evaluated on real floats by
the bounded layer, because the body slices the characters of str(float).  Here the body itself is interpreted, for a
symbolic float and each decimal precision 1..12, over a small text model of str(float) / format() (pyvc/xmlmodel.py NumText:
T1 exponent form <=> f != 0 and (|f| < 1e-4 or |f| >= 1e16); T2 otherwise <digits>.<digits> denoting f; T3 format(f,'.df')
denotes f rounded to d decimals).  What remains assumed is T1-T3 (three facts about CPython's float formatting, evaluated on
the bounded layer's floats) instead of the behaviour of the function."""
import re
from fractions import Fraction

import numpy as np
import z3

import commonroad.common.writer.file_writer_xml as fw
from commonroad.common.writer.file_writer_interface import DecimalPrecision
from pyvc.contract import B, Contract, R, register

PLAIN = re.compile(r"-?[0-9]+(\.[0-9]+)?")
TARGET = "commonroad.common.writer.file_writer_xml.float_to_str"


def _value(F, text):
    """(is plain decimal text, the number the reader obtains from it)"""
    if F.native:
        ok = isinstance(text, str) and PLAIN.fullmatch(text) is not None
        return ok, (Fraction(float(text)) if ok else None)
    from pyvc.core import Unsupported

    if isinstance(text, str):  # a concrete text (e.g. format(0.0, '.4f'))
        ok = PLAIN.fullmatch(text) is not None
        return ok, (z3.RealVal(str(Fraction(text))) if ok else None)
    if type(text).__name__ == "NumText" and text.cls in ("plain", "int"):
        return getattr(text, "plain_if", True), R(text.value)
    if type(text).__name__ == "NumText" and text.cls == "pyrepr":  # str(f) itself: plain exactly when not in exponent form
        return z3.Not(text.exp_form()), R(text.value)
    if type(text).__name__ in ("ReprPart", "ReprCat"):
        raise Unsupported("float_to_str returns a piece of the repr text that the text model cannot evaluate: %s" % type(text).__name__)
    return False, None


for _prop in ("C01", "C03"):
    for _d in range(1, 13):
        for _np in (False, True):

            @register
            class FloatToStr(Contract):
                prop = _prop
                target = TARGET
                d, np_style = _d, _np
                case = "decimal precision %d, %s" % (_d, "numpy.float64" if _np else "float")
                describe = "plain decimal text whose value is within 10^-d of f; truncation towards zero outside the exponent range; monotone in f"

                def build(self, F):
                    f, g = F.real("f", self.np_style), F.real("g", self.np_style)
                    return {"f": f, "g": g, "args": []}

                def invoke(self, F, inp):
                    old = DecimalPrecision.decimals if F.native else None
                    F.setattr(DecimalPrecision, "decimals", self.d)
                    try:
                        conv = (np.float64 if self.np_style else float) if F.native else (lambda x: x)
                        return (F.call_target(TARGET, [conv(inp["f"])], {}), F.call_target(TARGET, [conv(inp["g"])], {}))
                    finally:
                        if F.native:
                            DecimalPrecision.decimals = old

                def post(self, F, inp, out):
                    yield ("raises nothing", out.exc is None)
                    if out.exc is not None:
                        return
                    (okf, rf), (okg, rg) = _value(F, out.value[0]), _value(F, out.value[1])
                    if F.native:
                        yield ("the text is in plain decimal notation (xs:decimal), never exponent notation", okf and okg)
                    else:
                        yield ("the text is in plain decimal notation (xs:decimal), never exponent notation", z3.And(B(okf), B(okg)))
                    if rf is None or rg is None:
                        return
                    if self.prop == "C03":
                        return
                    tol = Fraction(1, 10 ** self.d) if F.native else z3.Q(1, 10 ** self.d)
                    f = Fraction(float(inp["f"])) if F.native else R(inp["f"])
                    g = Fraction(float(inp["g"])) if F.native else R(inp["g"])
                    if F.native:
                        yield ("|value(text) - f| < 10^-d", abs(rf - f) < tol)
                        small = Fraction(1, 10000)
                        yield ("f >= 1e-4 => 0 <= value <= f;  f <= -1e-4 => f <= value <= 0", (f < small or 0 <= rf <= f) and (f > -small or f <= rf <= 0))
                        yield ("monotone: f <= g => value(text f) <= value(text g)", (not f <= g) or rf <= rg)
                    else:
                        yield ("|value(text) - f| < 10^-d", z3.And(rf - f < tol, f - rf < tol))
                        small = z3.Q(1, 10000)
                        yield ("f >= 1e-4 => 0 <= value <= f;  f <= -1e-4 => f <= value <= 0",
                               z3.And(z3.Implies(f >= small, z3.And(rf >= 0, rf <= f)), z3.Implies(f <= -small, z3.And(rf <= 0, rf >= f))))
                        mono = rf <= rg
                        sf, sg = getattr(out.value[0], "scaled", None), getattr(out.value[1], "scaled", None)
                        if sf is not None and sg is not None and sf[1] == sg[1]:
                            # equivalent statement on the scaled integers (value == m / 10^d): the second disjunct implies the first
                            mono = z3.Or(mono, z3.And(rf == z3.ToReal(sf[0]) / sf[1], rg == z3.ToReal(sg[0]) / sg[1], sf[0] <= sg[0]))
                        yield ("monotone: f <= g => value(text f) <= value(text g)", z3.Implies(f <= g, mono))
