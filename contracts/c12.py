"""C12 -- equality and hashing of scenario elements follow their contract.
For every class: two instances x, y built through the public constructor with independent symbolic attribute values.
Obligations: reflexivity, x == deepcopy(x), symmetry, completeness (all attributes agree => equal, also with id sets
inserted in a different order), soundness under every single-attribute perturbation (> 1e-10 for reals), hash totality
and hash compatibility (x == y => hash(x) == hash(y))."""
import ast

import numpy as np
import z3

import commonroad.scenario.state as st
from commonroad.common.common_lanelet import LaneletType, LineMarking, RoadUser, StopLine
from commonroad.common.util import AngleInterval, Interval, Time
from commonroad.geometry.shape import Circle, Polygon, Rectangle, ShapeGroup
from commonroad.planning.goal import GoalRegion
from commonroad.planning.planning_problem import PlanningProblem, PlanningProblemSet
from commonroad.prediction.prediction import Occupancy, SetBasedPrediction, TrajectoryPrediction
from commonroad.scenario.area import Area, AreaBorder, AreaType
from commonroad.scenario.intersection import Intersection, IntersectionIncomingElement
from commonroad.scenario.lanelet import Lanelet, LaneletNetwork
from commonroad.scenario.obstacle import DynamicObstacle, EnvironmentObstacle, ObstacleType, PhantomObstacle, SignalState, StaticObstacle
from commonroad.scenario.scenario import Environment, GeoTransformation, Location, Scenario, ScenarioID, Tag, TimeOfDay, Underground, Weather
from commonroad.scenario.traffic_light import TrafficLight, TrafficLightCycle, TrafficLightCycleElement, TrafficLightDirection, TrafficLightState
from commonroad.scenario.traffic_sign import TrafficSign, TrafficSignElement, TrafficSignIDGermany
from commonroad.scenario.trajectory import Trajectory
from pyvc.contract import B, Contract, Outcome, R, T, conj, register
from pyvc.core import PyExc
from spec.sets import TWO_PI

UNROLL = {"commonroad.common.util.make_valid_orientation_interval": 2, "commonroad.common.util.make_valid_orientation": 3}
EPS = z3.Q(1, 10 ** 10)


class Rec:
    """records the symbolic leaves created while building one instance"""

    def __init__(self, F, prefix, keep=None):
        self.F, self.p = F, prefix
        self.leaves = []  # (name, value, kind)
        self.keep = keep  # number of symbolic leaves this (sub-)record may still create; None = unlimited
        self.nconst = 0

    def _symbolic(self):
        if self.keep is None:
            return True
        if self.keep > 0:
            self.keep -= 1
            return True
        self.nconst += 1
        return False

    def real(self, name, lo=None, hi=None):
        if not self._symbolic():
            c = 0.5 + 0.25 * (self.nconst % 5)
            if lo is not None and not z3.is_expr(lo):
                c = max(c, float(lo))
            return c
        v = self.F.real(self.p + name)
        if lo is not None:
            self.F.assume(R(v) >= lo)
        if hi is not None:
            self.F.assume(R(v) <= hi)
        self.leaves.append((name, v, "real"))
        return v

    def pos(self, name):
        return self.F.array([self.real(name + "x"), self.real(name + "y")])

    def int(self, name, lo=None, hi=None):
        if not self._symbolic():
            c = 1 + (self.nconst % 3)
            if lo is not None:
                c = max(c, int(lo))
            if hi is not None:
                c = min(c, int(hi))
            return c
        v = self.F.int(self.p + name)
        if lo is not None:
            self.F.assume(T(v) >= lo)
        if hi is not None:
            self.F.assume(T(v) <= hi)
        self.leaves.append((name, v, "int"))
        return v

    def bool(self, name):
        if not self._symbolic():
            return True
        v = self.F.bool(self.p + name)
        self.leaves.append((name, v, "bool"))
        return v

    def angle(self, name):
        return self.real(name, -TWO_PI, TWO_PI)

    def poly(self, name, n):
        return self.F.array([[self.real("%s%dx" % (name, i)), self.real("%s%dy" % (name, i))] for i in range(n)])


# ------------------------------------------------------------------------------ builders: (rec, variant) -> object
# `variant` selects a discrete alternative (0 = base); 'order' flips the insertion order of id sets.


def ids(variant, a, b):
    """a set of two colliding ints in either insertion order"""
    s = set()
    for x in ((a, b) if variant != "order" else (b, a)):
        s.add(x)
    return s


def b_rectangle(r, v=0):
    return r.F.new(Rectangle, r.real("length", 0.1), r.real("width", 0.1), r.pos("c"), r.angle("theta"))


def b_circle(r, v=0):
    return r.F.new(Circle, r.real("radius", 0.1), r.pos("c"))


def b_polygon(r, v=0):
    return r.F.new(Polygon, r.poly("v", 3))


def b_shapegroup(r, v=0):
    return r.F.new(ShapeGroup, [b_rectangle(sub(r, "g0_")), b_circle(sub(r, "g1_"))])


def sub(r, p, keep=None):
    """sub-record; `keep` limits the number of symbolic leaves of a nested component (the component's own class
    contract covers all of its attributes; the composite only has to show that the component is compared at all)"""
    if r.keep is not None:
        keep = r.keep if keep is None else min(keep, r.keep)
    s = Rec(r.F, r.p + p, keep)
    s.leaves = _Prefixed(r.leaves, p)
    return s


class _Prefixed:
    def __init__(self, target, p):
        self.target, self.p = target, p

    def append(self, item):
        self.target.append((self.p + item[0], item[1], item[2]))


def b_interval(r, v=0):
    a = r.real("start")
    b = r.real("end")
    r.F.assume(R(a) <= R(b))
    return r.F.new(Interval, a, b)


def b_angle_interval(r, v=0):
    a, b = r.angle("start"), r.angle("end")
    r.F.assume(z3.And(R(a) <= R(b), R(b) - R(a) < TWO_PI))
    return r.F.new(AngleInterval, a, b)


def b_time(r, v=0):
    return r.F.new(Time, r.int("hours", 0, 23), r.int("minutes", 0, 59), r.int("day", 1, 28), r.int("month", 1, 12), r.int("year", 2000, 2030))


def b_state(cls):
    def build(r, v=0):
        kw = {}
        import dataclasses

        names = [f.name for f in dataclasses.fields(cls)] if cls is not st.CustomState else ["time_step", "position", "orientation", "velocity", "extra"]
        for n in names:
            if n == "time_step":
                kw[n] = r.int("time_step", 0)
            elif n == "position":
                kw[n] = r.pos("p")
            elif n == "orientation":
                kw[n] = r.angle("orientation")
            else:
                kw[n] = r.real(n)
        return r.F.new(cls, **kw)

    return build


def b_state_region(r, v=0):
    """state with an uncertain position (region) and orientation (interval)"""
    return r.F.new(st.KSState, time_step=r.int("time_step", 0), position=b_rectangle(sub(r, "pos_")), orientation=b_angle_interval(sub(r, "ori_")),
                   velocity=b_interval(sub(r, "vel_")))


def b_signal_state(r, v=0):
    return r.F.new(SignalState, time_step=r.int("time_step", 0), horn=r.bool("horn"), indicator_left=r.bool("left"), braking_lights=(v == 1))


def b_signal_small(r, v=0):
    return r.F.new(SignalState, time_step=r.int("time_step", 0), horn=True, indicator_left=False)


def b_ks(r, t):
    return r.F.new(st.KSState, time_step=t, position=r.pos("p"), orientation=r.angle("orientation"), velocity=r.real("v"), steering_angle=r.real("delta"))


def b_trajectory(r, v=0):
    return r.F.new(Trajectory, 1, [b_ks(sub(r, "s0_"), 1), b_ks(sub(r, "s1_"), 2)])


def b_occupancy(r, v=0):
    return r.F.new(Occupancy, r.int("t", 0), b_rectangle(sub(r, "sh_")) if v != 1 else b_circle(sub(r, "sh_")))


def b_set_prediction(r, v=0):
    return r.F.new(SetBasedPrediction, 1, [b_occupancy(sub(r, "o0_")), b_occupancy(sub(r, "o1_"), 1)])


def b_traj_prediction(r, v=0):
    return r.F.new(TrajectoryPrediction, b_trajectory(sub(r, "tr_")), r.F.new(Rectangle, r.real("l", 0.1), r.real("w", 0.1)),
                   {1: ids(v, 8, 16)}, {1: ids(v, 8, 16)})


def b_initial(r, t=0):
    return r.F.new(st.InitialState, time_step=t, position=r.pos("p"), orientation=r.angle("orientation"), velocity=r.real("v"),
                   acceleration=r.real("acc"), yaw_rate=r.real("yaw"), slip_angle=r.real("slip"))


def b_static(r, v=0):
    return r.F.new(StaticObstacle, 10 if v != 1 else 20, ObstacleType.PARKED_VEHICLE if v != 2 else ObstacleType.BUS,
                   r.F.new(Rectangle, r.real("l", 0.1), r.real("w", 0.1)), b_initial(sub(r, "init_", 2)), ids(v, 8, 16), ids(v, 8, 16),
                   b_signal_small(sub(r, "sig_", 1)), [b_signal_small(sub(r, "ser_", 1))])


def b_static_defaults(r, v=0):
    return r.F.new(StaticObstacle, 10, ObstacleType.PARKED_VEHICLE, r.F.new(Rectangle, r.real("l", 0.1), r.real("w", 0.1)), b_initial(sub(r, "init_", 2)))


def b_dynamic(r, v=0):
    return r.F.new(DynamicObstacle, 11 if v != 1 else 21, ObstacleType.CAR, r.F.new(Rectangle, r.real("l", 0.1), r.real("w", 0.1)),
                   b_initial(sub(r, "init_", 2)), b_traj_prediction(sub(r, "pred_", 2)) if v != 2 else None, ids(v, 8, 16), ids(v, 8, 16),
                   b_signal_small(sub(r, "sig_", 1)), [b_signal_small(sub(r, "ser_", 1))], None, [],
                   None, [b_initial(sub(r, "hist_", 1), 0)], [None], [ids(v, 8, 16)], [ids(v, 8, 16)])


def b_dynamic_defaults(r, v=0):
    return r.F.new(DynamicObstacle, 11, ObstacleType.CAR, r.F.new(Rectangle, r.real("l", 0.1), r.real("w", 0.1)), b_initial(sub(r, "init_", 2)))


def b_phantom(r, v=0):
    return r.F.new(PhantomObstacle, 12 if v != 1 else 22, b_set_prediction(sub(r, "pred_", 3)))


def b_environment(r, v=0):
    return r.F.new(EnvironmentObstacle, 13, ObstacleType.BUILDING if v != 1 else ObstacleType.PILLAR, b_rectangle(sub(r, "sh_")))


def b_stop_line(r, v=0):
    return r.F.new(StopLine, r.pos("s"), r.pos("e"), LineMarking.SOLID if v != 1 else LineMarking.DASHED, ids(v, 8, 16), ids(v, 8, 16))


def b_lanelet(r, v=0, lid=1):
    return r.F.new(Lanelet, r.poly("l", 2), r.poly("c", 2), r.poly("r", 2), lid if v != 1 else 5, [8, 16] if v != "order" else [16, 8],
                   [24, 32] if v != "order" else [32, 24], 3, True, 4, v != 2, LineMarking.DASHED, LineMarking.SOLID, b_stop_line(sub(r, "stop_", 1)),
                   {LaneletType.URBAN, LaneletType.MAIN_CARRIAGE_WAY}, {RoadUser.CAR, RoadUser.BUS} if v != 3 else {RoadUser.CAR},
                   {RoadUser.BICYCLE} if v != 4 else {RoadUser.PEDESTRIAN}, ids(v, 8, 16), ids(v, 8, 16), ids(v, 8, 16))


def b_sign_element(r, v=0):
    return r.F.new(TrafficSignElement, TrafficSignIDGermany.MAX_SPEED if v != 1 else TrafficSignIDGermany.MIN_SPEED, ["10"] if v != 2 else ["20"])


def b_sign(r, v=0):
    return r.F.new(TrafficSign, 101 if v != 1 else 102, [b_sign_element(r), b_sign_element(r, 1)], ids(v, 8, 16), r.pos("p"), v == 2)


def b_cycle_element(r, v=0):
    return r.F.new(TrafficLightCycleElement, TrafficLightState.RED if v != 1 else TrafficLightState.GREEN, r.int("duration", 1))


def b_cycle(r, v=0):
    els = [r.F.new(TrafficLightCycleElement, TrafficLightState.RED, r.int("d0", 1)), r.F.new(TrafficLightCycleElement, TrafficLightState.GREEN, r.int("d1", 1))]
    if v == 1:
        els = list(reversed(els))  # a different signal plan: same elements in another order
    return r.F.new(TrafficLightCycle, els, r.int("offset", 0), v != 2)


def b_light(r, v=0):
    return r.F.new(TrafficLight, 201 if v != 1 else 202, r.pos("p"), b_cycle(sub(r, "cyc_")), [TrafficLightState.RED, TrafficLightState.GREEN], v != 2,
                   TrafficLightDirection.ALL if v != 3 else TrafficLightDirection.LEFT)


def b_light_defaults(r, v=0):
    return r.F.new(TrafficLight, 201, r.pos("p"))


def b_incoming(r, v=0):
    return r.F.new(IntersectionIncomingElement, 300 if v != 1 else 301, ids(v, 8, 16), ids(v, 24, 32), ids(v, 40, 48) if v != 2 else {40}, ids(v, 56, 64), 7)


def b_intersection(r, v=0):
    # variant 3: same intersection id, same crossings, same number of incomings -- one incoming has another incoming_id
    # variant 4: two incomings of which the second has another incoming_id (the first is matched by id on both sides)
    incs = [b_incoming(r, v if v == "order" else (1 if v == 3 else 0))]
    if True:
        incs.append(r.F.new(IntersectionIncomingElement, 310 if v != 4 else 311, {72}, {80}, set(), set(), None))
    return r.F.new(Intersection, 400 if v != 1 else 401, incs, ids(v, 8, 16) if v != 2 else {8})


def b_area_border(r, v=0):
    return r.F.new(AreaBorder, 600 if v != 1 else 601, r.poly("b", 2), [8, 16] if v != "order" else [16, 8], LineMarking.SOLID)


def b_area(r, v=0):
    return r.F.new(Area, 700 if v != 1 else 701, [b_area_border(sub(r, "bd_"))], {AreaType.BUS_STOP} if v != 2 else {AreaType.PARKING})


def b_network(r, v=0):
    net = r.F.new(LaneletNetwork)
    r.F.method(net, "add_lanelet", b_lanelet(sub(r, "la_", 3), v if v == "order" else 0))
    r.F.method(net, "add_traffic_sign", b_sign(sub(r, "sign_", 1), v if v == "order" else 0), set())
    r.F.method(net, "add_traffic_light", b_light(sub(r, "light_", 2)), set())
    r.F.method(net, "add_intersection", b_intersection(r, 1 if v == 1 else 0))
    return net


def b_goal(r, v=0):
    g = r.F.new(st.CustomState, time_step=b_interval_int(sub(r, "t_")), position=b_rectangle(sub(r, "pos_")), orientation=b_angle_interval(sub(r, "ori_")),
                velocity=b_interval(sub(r, "vel_")))
    return r.F.new(GoalRegion, [g], {0: [8, 16]} if v != 1 else {0: [8]})


def b_goal_defaults(r, v=0):
    g = r.F.new(st.CustomState, time_step=b_interval_int(sub(r, "t_")), position=b_rectangle(sub(r, "pos_")))
    return r.F.new(GoalRegion, [g])


def b_interval_int(r, v=0):
    a, b = r.int("t0", 0), r.int("t1", 0)
    r.F.assume(T(a) <= T(b))
    return r.F.new(Interval, a, b)


def b_planning_problem(r, v=0):
    return r.F.new(PlanningProblem, 500 if v != 1 else 501, b_initial(sub(r, "init_", 2)), b_goal(sub(r, "goal_", 3)))


def b_pps(r, v=0):
    return r.F.new(PlanningProblemSet, [b_planning_problem(r, v)])


def b_scenario_id(r, v=0):
    return r.F.new(ScenarioID, v == 1, "DEU", "Muc" if v != 2 else "Ber", r.int("map_id", 1), r.int("config", 1), "T" if v != 3 else "S", [1, 2] if v != 4 else [1, 3])


def b_geo(r, v=0):
    return r.F.new(GeoTransformation, "ref" if v != 1 else "other", r.real("xt"), r.real("yt"), r.real("zr"), r.real("sc", 0.1))


def b_environment_info(r, v=0):
    return r.F.new(Environment, b_time(sub(r, "time_")), TimeOfDay.NIGHT if v != 1 else TimeOfDay.NOON, Weather.HEAVY_RAIN, Underground.WET)


def b_location(r, v=0):
    return r.F.new(Location, 2867714 if v != 1 else 1, r.real("lat"), r.real("lon"), b_geo(sub(r, "geo_", 1)), b_environment_info(sub(r, "env_", 1)))


def b_scenario(r, v=0):
    sc = r.F.new(Scenario, r.real("dt", 0.01), b_scenario_id(sub(r, "id_", 1)), "author" if v != 1 else "other", {Tag.URBAN, Tag.HIGHWAY} if v != 2 else {Tag.URBAN},
                 "aff", "src", b_location(sub(r, "loc_", 2)))
    r.F.method(sc, "add_objects", [b_network(sub(r, "net_", 4)), b_static_defaults(sub(r, "so_", 2)), b_dynamic_defaults(sub(r, "do_", 2)), b_phantom(sub(r, "po_", 1)), b_environment(sub(r, "eo_", 1))])
    return sc


CLASSES = {
    "Rectangle": (b_rectangle, []), "Circle": (b_circle, []), "Polygon": (b_polygon, []), "ShapeGroup": (b_shapegroup, []),
    "Interval": (b_interval, []), "AngleInterval": (b_angle_interval, []), "Time": (b_time, []),
    "SignalState": (b_signal_state, [1]), "State(region position, interval orientation)": (b_state_region, []),
    "Trajectory": (b_trajectory, []), "Occupancy": (b_occupancy, [1]), "SetBasedPrediction": (b_set_prediction, []),
    "TrajectoryPrediction": (b_traj_prediction, ["order"]),
    "StaticObstacle": (b_static, [1, 2, "order"]), "StaticObstacle(default arguments)": (b_static_defaults, []),
    "DynamicObstacle": (b_dynamic, [1, 2, "order"]), "DynamicObstacle(default arguments)": (b_dynamic_defaults, []),
    "PhantomObstacle": (b_phantom, [1]), "EnvironmentObstacle": (b_environment, [1]),
    "StopLine": (b_stop_line, [1, "order"]), "Lanelet": (b_lanelet, [1, 2, 3, 4, "order"]),
    "TrafficSignElement": (b_sign_element, [1, 2]), "TrafficSign": (b_sign, [1, 2, "order"]),
    "TrafficLightCycleElement": (b_cycle_element, [1]), "TrafficLightCycle": (b_cycle, [1, 2]),
    "TrafficLight": (b_light, [1, 2, 3]), "TrafficLight(default arguments)": (b_light_defaults, []),
    "IntersectionIncomingElement": (b_incoming, [1, 2, "order"]), "Intersection": (b_intersection, [1, 2, 3, 4, "order"]),
    "AreaBorder": (b_area_border, [1]), "Area": (b_area, [1, 2]),
    "LaneletNetwork": (b_network, [1, "order"]),
    "GoalRegion": (b_goal, [1]), "GoalRegion(default arguments)": (b_goal_defaults, []),
    "PlanningProblem": (b_planning_problem, [1]), "PlanningProblemSet": (b_pps, [1]),
    "ScenarioID": (b_scenario_id, [1, 2, 3, 4]), "GeoTransformation": (b_geo, [1]), "Environment": (b_environment_info, [1]),
    "Location": (b_location, [1]), "Scenario": (b_scenario, [1, 2]),
}
for _c in list(st.SpecificStateClasses) + [st.CustomState]:
    CLASSES[_c.__name__] = (b_state(_c), [])


def run_ops(F, x, y):
    """the operations of the property, each with its own outcome"""
    res = {}

    def attempt(name, fn):
        try:
            res[name] = Outcome(fn())
        except PyExc as e:
            res[name] = Outcome(exc=e)
        except Exception as e:  # native run
            if F.native:
                res[name] = Outcome(exc=e)
            else:
                raise

    if F.native:
        import copy

        attempt("x==x", lambda: x == x)
        attempt("x==copy", lambda: x == copy.deepcopy(x))
        attempt("x==y", lambda: x == y)
        attempt("y==x", lambda: y == x)
        attempt("hash(x)", lambda: hash(x))
        attempt("hash(y)", lambda: hash(y))
    else:
        from pyvc import libmodels

        it = F.interp
        attempt("x==x", lambda: it.to_boolsym(it.compare(ast.Eq, x, x)))
        attempt("x==copy", lambda: it.to_boolsym(it.compare(ast.Eq, x, libmodels.deepcopy(it, x))))
        attempt("x==y", lambda: it.to_boolsym(it.compare(ast.Eq, x, y)))
        attempt("y==x", lambda: it.to_boolsym(it.compare(ast.Eq, y, x)))
        attempt("hash(x)", lambda: libmodels._hash(it, [x], {}))
        attempt("hash(y)", lambda: libmodels._hash(it, [y], {}))
    return res


def leaf_eq(a, b, kind):
    if kind == "bool":
        return B(a) == B(b)
    return R(a) == R(b)


def leaf_differs(a, b, kind):
    if kind == "real":
        return z3.Or(R(a) - R(b) > EPS, R(b) - R(a) > EPS)
    if kind == "bool":
        return B(a) != B(b)
    return R(a) != R(b)


for _name, (_builder, _variants) in CLASSES.items():

    @register
    class EqHashLaws(Contract):
        prop = "C12"
        target = "eq/hash of " + _name
        case = "two symbolic instances"
        cname, builder = _name, staticmethod(_builder)
        unroll = UNROLL
        kind = "laws"
        describe = "reflexive, == deepcopy, symmetric, equal when all attributes agree, unequal under each single-attribute perturbation, hash total and compatible"

        def build(self, F):
            rx, ry = Rec(F, "x_"), Rec(F, "y_")
            x = self.builder(rx)
            y = self.builder(ry)
            return {"x": x, "y": y, "lx": rx.leaves, "ly": ry.leaves, "args": []}

        def invoke(self, F, inp):
            return run_ops(F, inp["x"], inp["y"])

        def post(self, F, inp, out):
            res = out.value
            for op, o in res.items():
                yield ("%s raises nothing" % op, o.exc is None)
            lx, ly = inp["lx"], inp["ly"]
            alleq = conj(leaf_eq(a[1], b[1], a[2]) for a, b in zip(lx, ly))
            if res["x==x"].exc is None:
                yield ("x == x", B(res["x==x"].value))
            if res["x==copy"].exc is None:
                yield ("x == deepcopy(x)", B(res["x==copy"].value))
            if res["x==y"].exc is None and res["y==x"].exc is None:
                yield ("symmetric", B(res["x==y"].value) == B(res["y==x"].value))
            if res["x==y"].exc is None:
                e = B(res["x==y"].value)
                yield ("all attribute values agree => equal", z3.Implies(alleq, e))
                parts = []
                eqs = [leaf_eq(p[1], q[1], p[2]) for p, q in zip(lx, ly)]
                for i, (a, b) in enumerate(zip(lx, ly)):
                    others = conj(eqs[j] for j in range(len(eqs)) if j != i)
                    parts.append((a[0], z3.Implies(z3.And(others, leaf_differs(a[1], b[1], a[2])), z3.Not(e))))
                yield ("exactly one constructor attribute differs (by more than 1e-10 if real) => unequal", conj(c for _, c in parts), parts)
                if res["hash(x)"].exc is None and res["hash(y)"].exc is None:
                    yield ("equal => equal hashes", z3.Implies(e, T(res["hash(x)"].value) == T(res["hash(y)"].value)))

    for _v in _variants:

        @register
        class EqDiscrete(Contract):
            prop = "C12"
            target = "eq/hash of " + _name
            case = "insertion order of id sets differs" if _v == "order" else "discrete attribute variant %s differs" % _v
            cname, builder, variant = _name, staticmethod(_builder), _v
            unroll = UNROLL
            kind = "laws"
            describe = "same real values; one discrete constructor attribute differs => unequal / only the insertion order of id sets differs => equal, same hash"

            def build(self, F):
                rx = Rec(F, "x_")
                x = self.builder(rx)
                # y shares the symbolic values of x (same names are re-created as equal symbols)
                ry = Rec(F, "y_")
                y = self.builder(ry, self.variant)
                for a, b in zip(rx.leaves, ry.leaves):
                    F.assume(leaf_eq(a[1], b[1], a[2]))
                return {"x": x, "y": y, "args": []}

            def invoke(self, F, inp):
                return run_ops(F, inp["x"], inp["y"])

            def post(self, F, inp, out):
                res = out.value
                for op, o in res.items():
                    yield ("%s raises nothing" % op, o.exc is None)
                if res["x==y"].exc is None and res["y==x"].exc is None:
                    e, e2 = B(res["x==y"].value), B(res["y==x"].value)
                    if self.variant == "order":
                        yield ("equal regardless of insertion order", z3.And(e, e2))
                        if res["hash(x)"].exc is None and res["hash(y)"].exc is None:
                            yield ("same hash regardless of insertion order", T(res["hash(x)"].value) == T(res["hash(y)"].value))
                    else:
                        yield ("unequal when a discrete attribute differs", z3.And(z3.Not(e), z3.Not(e2)))


# ------------------------------------------------------------------------------ containers of different size are different


def _ks(t, x=0.0):
    return st.KSState(time_step=t, position=np.array([x + t, 1.0]), orientation=0.25, velocity=2.0, steering_angle=0.0)


def _init0():
    return st.InitialState(time_step=0, position=np.array([0.0, 1.0]), orientation=0.25, velocity=2.0, yaw_rate=0.0, slip_angle=0.0, acceleration=0.0)


def _lane(lid, n=2, **kw):
    xs = [5.0 * k for k in range(n)]
    return Lanelet(np.array([[x, 1.0] for x in xs]), np.array([[x, 0.5] for x in xs]), np.array([[x, 0.0] for x in xs]), lid, **kw)


def _size_pairs():
    """(class name, shorter object, longer object): the longer one has the shorter one as a prefix / subset"""
    rect, circ = Rectangle(4.0, 2.0), Circle(1.0)
    tri = [[0.0, 0.0], [4.0, 0.0], [4.0, 3.0]]
    yield "Trajectory (3 vs 2 states)", Trajectory(1, [_ks(1), _ks(2)]), Trajectory(1, [_ks(1), _ks(2), _ks(3)])
    yield "TrajectoryPrediction (3 vs 2 states)", TrajectoryPrediction(Trajectory(1, [_ks(1), _ks(2)]), rect), TrajectoryPrediction(Trajectory(1, [_ks(1), _ks(2), _ks(3)]), rect)
    yield "DynamicObstacle (prediction 3 vs 2 states)", (DynamicObstacle(7, ObstacleType.CAR, rect, _init0(), TrajectoryPrediction(Trajectory(1, [_ks(1), _ks(2)]), rect)),
                                                         DynamicObstacle(7, ObstacleType.CAR, rect, _init0(), TrajectoryPrediction(Trajectory(1, [_ks(1), _ks(2), _ks(3)]), rect)))
    yield "SetBasedPrediction (2 vs 1 occupancies)", SetBasedPrediction(1, [Occupancy(1, rect)]), SetBasedPrediction(1, [Occupancy(1, rect), Occupancy(2, circ)])
    yield "ShapeGroup (2 vs 1 shapes)", ShapeGroup([rect]), ShapeGroup([rect, circ])
    yield "Polygon (4 vs 3 vertices)", Polygon(np.array(tri)), Polygon(np.array(tri + [[0.0, 3.0]]))
    yield "Lanelet (3 vs 2 vertices)", _lane(1, 2), _lane(1, 3)
    yield "Lanelet (2 vs 1 successors)", _lane(1, successor=[2]), _lane(1, successor=[2, 3])
    yield "Lanelet (2 vs 1 lanelet types)", _lane(1, lanelet_type={LaneletType.URBAN}), _lane(1, lanelet_type={LaneletType.URBAN, LaneletType.BUS_LANE})
    yield "GoalRegion (2 vs 1 goal states)", (GoalRegion([st.CustomState(time_step=Interval(1, 5))]),
                                              GoalRegion([st.CustomState(time_step=Interval(1, 5)), st.CustomState(time_step=Interval(2, 6))]))
    mk_el = lambda s, d: TrafficLightCycleElement(s, d)
    yield "TrafficLightCycle (3 vs 2 elements)", (TrafficLightCycle([mk_el(TrafficLightState.RED, 3), mk_el(TrafficLightState.GREEN, 4)], 0, True),
                                                 TrafficLightCycle([mk_el(TrafficLightState.RED, 3), mk_el(TrafficLightState.GREEN, 4), mk_el(TrafficLightState.YELLOW, 1)], 0, True))
    yield "TrafficSign (2 vs 1 elements)", (TrafficSign(5, [TrafficSignElement(TrafficSignIDGermany.STOP)], {1}, np.array([1.0, 1.0])),
                                           TrafficSign(5, [TrafficSignElement(TrafficSignIDGermany.STOP), TrafficSignElement(TrafficSignIDGermany.YIELD)], {1}, np.array([1.0, 1.0])))
    yield "TrafficSignElement (2 vs 1 additional values)", TrafficSignElement(TrafficSignIDGermany.MAX_SPEED, ["10"]), TrafficSignElement(TrafficSignIDGermany.MAX_SPEED, ["10", "20"])
    inc = lambda i, l: IntersectionIncomingElement(i, {l}, set(), {9}, set(), None)
    yield "Intersection (2 vs 1 incomings)", Intersection(3, [inc(4, 1)], {8}), Intersection(3, [inc(4, 1), inc(5, 2)], {8})
    yield "IntersectionIncomingElement (2 vs 1 incoming lanelets)", IntersectionIncomingElement(4, {1}, set(), {9}, set(), None), IntersectionIncomingElement(4, {1, 2}, set(), {9}, set(), None)
    init = st.InitialState(time_step=0, position=np.array([0.0, 0.0]), orientation=0.0, velocity=0.0, yaw_rate=0.0, slip_angle=0.0, acceleration=0.0)
    pp = lambda i: PlanningProblem(i, init, GoalRegion([st.CustomState(time_step=Interval(1, 5))]))
    yield "PlanningProblemSet (2 vs 1 problems)", PlanningProblemSet([pp(1)]), PlanningProblemSet([pp(1), pp(2)])
    n1, n2 = LaneletNetwork.create_from_lanelet_list([_lane(1)]), LaneletNetwork.create_from_lanelet_list([_lane(1), _lane(2)])
    yield "LaneletNetwork (2 vs 1 lanelets)", n1, n2
    d1 = DynamicObstacle(7, ObstacleType.CAR, rect, _init0(), None, None, None, None, [SignalState(time_step=1, horn=True)])
    d2 = DynamicObstacle(7, ObstacleType.CAR, rect, _init0(), None, None, None, None, [SignalState(time_step=1, horn=True), SignalState(time_step=2, horn=False)])
    yield "DynamicObstacle (2 vs 1 signal states)", d1, d2


for _item in _size_pairs():
    _name = _item[0]
    _short, _long = _item[1:] if len(_item) == 3 else _item[1]

    @register
    class SizeDifference(Contract):
        prop = "C12"
        target = "commonroad.%s.__eq__" % (type(_short).__module__.split("commonroad.")[-1] + "." + type(_short).__name__)
        case = "containers of different size: " + _name
        pair = (_short, _long)
        unroll = UNROLL
        describe = "an object whose list / set is a strict prefix or subset of the other's is not equal to it (in either direction)"

        def build(self, F):
            return {"args": []}

        def invoke(self, F, inp):
            a, b = self.pair
            if F.native:
                import warnings

                with warnings.catch_warnings():
                    warnings.simplefilter("ignore")
                    return (a == b, b == a, a != b)
            it = F.interp
            return (it.truth(it.compare(ast.Eq, a, b)), it.truth(it.compare(ast.Eq, b, a)), it.truth(it.compare(ast.NotEq, a, b)))

        def post(self, F, inp, out):
            yield ("comparison raises nothing", out.exc is None)
            if out.exc is None:
                ab, ba, ne = out.value
                yield ("shorter == longer is False", ab is False)
                yield ("longer == shorter is False", ba is False)
                yield ("shorter != longer is True", ne is True)
