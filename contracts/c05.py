"""C05 -- translate_rotate is the exact rigid motion on every object.
Kernel (geometry/transform.py), shapes, states; fan-out classes further below."""
import dataclasses
import itertools
import os

import numpy as np
import z3

from commonroad.common.util import AngleInterval, Interval
from commonroad.geometry.shape import Circle, Polygon, Rectangle, ShapeGroup
from pyvc.contract import B, Contract, R, T, conj, register
from pyvc.core import PI
from spec.rigid import interval_moved, orientation_moved, polyline_moved, pt_eq, rigid_pt, sc, shape_moved, xy
from spec.sets import TWO_PI, angle_eq

G = "commonroad.geometry.transform."
S = "commonroad.geometry.shape."
MVO = {"commonroad.common.util.make_valid_orientation": 3, "commonroad.common.util.make_valid_orientation_interval": 3}


def motion(F, int_angle=False):
    """translation vector (float array) and an angle in [-2pi, 2pi]"""
    tx, ty = F.real("tx"), F.real("ty")
    a = F.int("angle") if int_angle else F.real("angle")
    F.assume(z3.And(R(a) >= -TWO_PI, R(a) <= TWO_PI))
    return (tx, ty), F.array([tx, ty]), a


def polyline(F, n, name="v"):
    pts = [(F.real("%sx%d" % (name, i)), F.real("%sy%d" % (name, i))) for i in range(n)]
    return pts, F.array([[x, y] for x, y in pts])


# ------------------------------------------------------------------------------ kernel


for _ia in (False, True):

    @register
    class TransRotMatrix(Contract):
        prop = "C05"
        target = G + "translation_rotation_matrix"
        case = "angle:%s" % ("int" if _ia else "float")
        ia = _ia
        describe = "matrix == R(a) . T(t) entry-wise for every a in [-2pi, 2pi]"

        def build(self, F):
            t, tarr, a = motion(F, self.ia)
            return {"t": t, "a": a, "args": [tarr, a]}

        def post(self, F, inp, out):
            yield ("raises nothing", out.exc is None)
            if out.exc is None:
                s, c = sc(inp["a"])
                tx, ty = R(inp["t"][0]), R(inp["t"][1])
                m = F.elems(out.value)
                want = [c, -s, c * tx - s * ty, s, c, s * tx + c * ty, 0, 0, 1]
                yield ("3x3 result", F.shape(out.value) == (3, 3))
                yield ("entries are those of R(a).T(t)", conj(R(x) == w for x, w in zip(m, want)))


@register
class RotTransMatrix(Contract):
    prop = "C05"
    target = G + "rotation_translation_matrix"
    describe = "matrix == T(t) . R(a) entry-wise"

    def build(self, F):
        t, tarr, a = motion(F)
        return {"t": t, "a": a, "args": [tarr, a]}

    def post(self, F, inp, out):
        yield ("raises nothing", out.exc is None)
        if out.exc is None:
            s, c = sc(inp["a"])
            tx, ty = R(inp["t"][0]), R(inp["t"][1])
            m = F.elems(out.value)
            want = [c, -s, tx, s, c, ty, 0, 0, 1]
            yield ("entries are those of T(t).R(a)", conj(R(x) == w for x, w in zip(m, want)))


for _n in (1, 2, 3):

    @register
    class TranslateRotate(Contract):
        prop = "C05"
        target = G + "translate_rotate"
        case = "n=%d" % _n
        n = _n
        describe = "every vertex v maps to R(a)(v + t)"

        def build(self, F):
            t, tarr, a = motion(F)
            pts, arr = polyline(F, self.n)
            return {"t": t, "a": a, "pts": pts, "arr": arr, "args": [arr, tarr, a], "snap": F.snapshot(arr)}

        def post(self, F, inp, out):
            yield ("raises nothing", out.exc is None)
            if out.exc is None:
                yield ("shape (n, 2)", F.shape(out.value) == (self.n, 2))
                yield ("v' == R(a)(v + t) for every vertex", polyline_moved(F, out.value, inp["snap"], inp["t"], inp["a"]))
                # consequence stated by the property: distances are preserved (isometry), checked on the first segment
                if self.n >= 2:
                    o, p = F.elems(out.value), inp["pts"]
                    d_new = (R(o[0]) - R(o[2])) ** 2 + (R(o[1]) - R(o[3])) ** 2
                    d_old = (R(p[0][0]) - R(p[1][0])) ** 2 + (R(p[0][1]) - R(p[1][1])) ** 2
                    yield ("pairwise distances preserved", d_new == d_old)
            yield ("input array not modified", F.same(inp["snap"], inp["arr"]))


    @register
    class RotateTranslate(Contract):
        prop = "C05"
        target = G + "rotate_translate"
        case = "n=%d" % _n
        n = _n
        describe = "every vertex v maps to R(a) v + t"

        def build(self, F):
            t, tarr, a = motion(F)
            pts, arr = polyline(F, self.n)
            return {"t": t, "a": a, "pts": pts, "arr": arr, "args": [arr, tarr, a]}

        def post(self, F, inp, out):
            yield ("raises nothing", out.exc is None)
            if out.exc is None:
                s, c = sc(inp["a"])
                o = F.elems(out.value)
                tx, ty = R(inp["t"][0]), R(inp["t"][1])
                yield ("v' == R(a) v + t", conj(z3.And(R(o[2 * i]) == c * R(x) - s * R(y) + tx, R(o[2 * i + 1]) == s * R(x) + c * R(y) + ty)
                                               for i, (x, y) in enumerate(inp["pts"])))


# ------------------------------------------------------------------------------ shapes


def area_lemma(F, vertices, t, a):
    """lemma: the signed area of a ring is invariant under the rigid motion (so the ring orientation that
    shapely's orient() sees is the same before and after); proved by nlsat, then used as a hypothesis"""
    from pyvc.shapely_model import signed_area2

    e = F.elems(vertices)
    old = [(e[2 * i], e[2 * i + 1]) for i in range(len(e) // 2)]
    new = [rigid_pt(p, t, a) for p in old]
    F.lemma("signed area of a polygon ring is invariant under p -> R(a)(p + t)", signed_area2(new) == signed_area2(old))


def mk_rectangle(F, p=""):
    l, w = F.real(p + "length"), F.real(p + "width")
    cx, cy, th = F.real(p + "cx"), F.real(p + "cy"), F.real(p + "theta")
    F.assume(z3.And(R(l) > 0, R(w) > 0, R(th) >= -TWO_PI, R(th) <= TWO_PI))
    return F.new(Rectangle, l, w, F.array([cx, cy]), th)


def mk_circle(F, p=""):
    r, cx, cy = F.real(p + "radius"), F.real(p + "cx"), F.real(p + "cy")
    F.assume(R(r) > 0)
    return F.new(Circle, r, F.array([cx, cy]))


def mk_polygon(F, p="", n=3):
    pts, arr = polyline(F, n, p + "p")
    return F.new(Polygon, arr)


def mk_group(F, p=""):
    return F.new(ShapeGroup, [mk_rectangle(F, p + "g0_"), mk_circle(F, p + "g1_")])


SHAPES = {"Rectangle": mk_rectangle, "Circle": mk_circle, "Polygon": mk_polygon, "ShapeGroup": mk_group}

for _k in SHAPES:

    @register
    class ShapeTranslateRotate(Contract):
        prop = "C05"
        target = S + _k + ".translate_rotate"
        kind = "function"
        shape_kind = _k
        unroll = MVO
        describe = "centre / vertices map to R(a)(p + t), orientation to th + a, dimensions unchanged, self unchanged"

        def build(self, F):
            t, tarr, a = motion(F)
            sh = SHAPES[self.shape_kind](F)
            return {"t": t, "a": a, "sh": sh, "args": [sh, tarr, a], "snap": F.snapshot(sh)}

        def post(self, F, inp, out):
            yield ("raises nothing", out.exc is None)
            if out.exc is None:
                yield ("result is the shape moved by the rigid motion", shape_moved(F, out.value, inp["snap"], inp["t"], inp["a"]))
                yield ("a new object is returned", out.value is not inp["sh"])
            yield ("self not modified", F.same(inp["snap"], inp["sh"], ) if not F.native else True)


# ------------------------------------------------------------------------------ states

import commonroad.scenario.state as st

ST = "commonroad.scenario.state."
STATE_CLASSES = list(st.SpecificStateClasses) + [st.CustomState]
POS_KINDS = ["array", "Rectangle", "Circle", "Polygon", "ShapeGroup", "None"]
ORI_KINDS = ["float", "int", "AngleInterval", "None"]


def state_fields(cls):
    if cls is st.CustomState:
        return ["time_step", "position", "orientation", "velocity", "my_attr"]
    return [f.name for f in dataclasses.fields(cls)]


def mk_state(F, cls, pos_kind, ori_kind, prefix=""):
    """a state of class `cls` with all scalar fields symbolic floats"""
    vals = {}
    for name in state_fields(cls):
        if name == "time_step":
            vals[name] = F.int(prefix + "time_step")
        elif name == "position":
            if pos_kind == "array":
                vals[name] = F.array([F.real(prefix + "px"), F.real(prefix + "py")])
            elif pos_kind == "None":
                vals[name] = None
            else:
                vals[name] = SHAPES[pos_kind](F, prefix + "pos_")
        elif name == "orientation":
            if ori_kind == "float":
                o = F.real(prefix + "orientation")
                F.assume(z3.And(R(o) >= -TWO_PI, R(o) <= TWO_PI))
                vals[name] = o
            elif ori_kind == "int":
                o = F.int(prefix + "orientation")
                F.assume(z3.And(R(o) >= -TWO_PI, R(o) <= TWO_PI))
                vals[name] = o
            elif ori_kind == "AngleInterval":
                a, b = F.real(prefix + "o_start"), F.real(prefix + "o_end")
                F.assume(z3.And(R(a) >= -TWO_PI, R(b) <= TWO_PI, R(a) <= R(b), R(b) - R(a) < TWO_PI))
                vals[name] = F.new(AngleInterval, a, b)
            else:
                vals[name] = None
        else:
            vals[name] = F.real(prefix + name)
    return F.new(cls, **vals), vals


def state_cases():
    for cls in STATE_CLASSES:
        flds = state_fields(cls)
        pks = POS_KINDS if "position" in flds else ["None"]
        oks = ORI_KINDS if "orientation" in flds else ["None"]
        for pk in pks:
            for ok in oks:
                # the full product only for the first class with both fields; others get the diagonal + arrays
                if cls is not st.KSState and pk not in ("array", "None") and ok not in ("float",):
                    if not (pk == "Rectangle" and ok == "AngleInterval"):
                        continue
                yield cls, pk, ok


def state_moved(F, new, old_vals, cls, t, a):
    """all spatial attributes moved, everything else unchanged"""
    conds = []
    for name, old in old_vals.items():
        if not F.has(new, name):
            conds.append(False)
            continue
        nv = F.attr(new, name)
        if name == "position" and old is not None:
            if F.isinstance(old, (Rectangle, Circle, Polygon, ShapeGroup)):
                conds.append(shape_moved(F, nv, old, t, a))
            else:
                conds.append(pt_eq(xy(F, nv), rigid_pt(xy(F, old), t, a)))
        elif name == "orientation" and old is not None:
            if F.isinstance(old, AngleInterval):
                conds.append(interval_moved(F, nv, old, a))
            else:
                conds.append(orientation_moved(nv, old, a))
        elif cls is st.PMState and name in ("velocity", "velocity_y"):
            continue  # see the heading clause below
        elif old is None:
            conds.append(nv is None)
        else:
            conds.append(R(nv) == R(old))
    return conj(conds)


for _cls, _pk, _ok in state_cases():

    @register
    class StateTranslateRotate(Contract):
        prop = "C05"
        target = ST + ("PMState" if _cls is st.PMState else "State") + ".translate_rotate"
        case = "%s,pos:%s,ori:%s" % (_cls.__name__, _pk, _ok)
        cls, pk, ok = _cls, _pk, _ok
        unroll = MVO
        describe = "position -> R(a)(p+t) (point or region), orientation -> th+a (number or interval), rest unchanged, self unchanged, never raises"

        def build(self, F):
            t, tarr, a = motion(F)
            s, vals = mk_state(F, self.cls, self.pk, self.ok)
            return {"t": t, "a": a, "s": s, "vals": vals, "args": [s, tarr, a], "snap": F.snapshot(s)}

        def invoke(self, F, inp):
            # dynamic dispatch on the state's class, as a caller would do
            return F.method(inp["s"], "translate_rotate", inp["args"][1], inp["args"][2])

        def post(self, F, inp, out):
            yield ("raises nothing", out.exc is None)
            if out.exc is None:
                yield ("result has the class of self and is a new object", z3.And(F.type(out.value) is self.cls, out.value is not inp["s"]))
                yield ("spatial attributes moved by the rigid motion, all others unchanged",
                       state_moved(F, out.value, inp["vals"], self.cls, inp["t"], inp["a"]))
                if self.cls is st.PMState:
                    s, c = sc(inp["a"])
                    vx, vy = R(inp["vals"]["velocity"]), R(inp["vals"]["velocity_y"])
                    nvx, nvy = R(F.attr(out.value, "velocity")), R(F.attr(out.value, "velocity_y"))
                    yield ("point-mass velocity vector rotated by a (heading atan2(vy,vx) -> heading + a, speed kept)",
                           z3.And(nvx == c * vx - s * vy, nvy == s * vx + c * vy))
            if not F.native:
                yield ("self not modified", F.same(inp["snap"], inp["s"]))
