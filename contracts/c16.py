"""C16 -- Interval and AngleInterval behave as the closed sets they denote.
Contracts on commonroad/common/util.py (real source, interpreted by pyvc)."""
import itertools

import numpy as np
import z3

from commonroad.common.util import AngleInterval, Interval
from pyvc.contract import B, Contract, LoopSpec, R, T, conj, register
from pyvc.core import PI
from spec.sets import TWO_PI, amem, angle_eq, mem, wrap0

U = "commonroad.common.util."
NUM_TYPES = {"i": int, "f": float}


def _interval(F, ty, prefix=""):
    a, b = F.num(prefix + "a", ty), F.num(prefix + "b", ty)
    F.assume(R(a) <= R(b))
    return a, b, F.new(Interval, a, b)


def _angle_interval(F, ty, prefix="", lo=None):
    """a valid AngleInterval: -2pi <= a <= b <= 2pi, b - a < 2pi  (the class invariant of the property)"""
    a, b = F.num(prefix + "a", ty), F.num(prefix + "b", ty)
    F.assume(z3.And(R(a) >= -TWO_PI, R(b) <= TWO_PI, R(a) <= R(b), R(b) - R(a) < TWO_PI))
    return a, b, F.new(AngleInterval, a, b)


def _no_exc(out):
    return ("raises nothing", out.exc is None)


# ------------------------------------------------------------------------------ Interval


for _ta, _tx in itertools.product("if", "if"):

    @register
    class IntervalInit(Contract):
        prop = "C16"
        target = U + "Interval.__init__"
        case = "start:%s,end:%s" % (_ta, _tx)
        tys = (NUM_TYPES[_ta], NUM_TYPES[_tx])
        describe = "constructor establishes start<=end, rejects start>end"

        def build(self, F):
            a, b = F.num("a", self.tys[0]), F.num("b", self.tys[1])
            return {"a": a, "b": b, "args": []}

        def invoke(self, F, inp):
            o = F.try_new(Interval, inp["a"], inp["b"])
            if o.exc is not None:
                raise o.exc
            return o.value

        def post(self, F, inp, out):
            a, b = inp["a"], inp["b"]
            ok = R(a) <= R(b)
            yield ("start > end is rejected with AssertionError", z3.Implies(z3.Not(ok), out.raised(AssertionError)))
            yield ("start <= end is accepted", z3.Implies(ok, out.exc is None))
            if out.exc is None:
                o = out.value
                yield ("start/end are the arguments", z3.And(R(F.attr(o, "start")) == R(a), R(F.attr(o, "end")) == R(b)))
                yield ("invariant start <= end", R(F.attr(o, "start")) <= R(F.attr(o, "end")))
            else:
                yield ("only AssertionError", out.raised(AssertionError))


for _which in ("start", "end"):
    for _tv in "if":

        @register
        class IntervalSetter(Contract):
            prop = "C16"
            target = U + "Interval.%s" % _which
            case = "set:%s" % _tv
            which = _which
            ty = NUM_TYPES[_tv]
            describe = "setter keeps start<=end or raises AssertionError leaving the interval unchanged"

            def build(self, F):
                a, b, I = _interval(F, float)
                v = F.num("v", self.ty)
                return {"a": a, "b": b, "I": I, "v": v, "args": []}

            def invoke(self, F, inp):
                if F.native:
                    setattr(inp["I"], self.which, inp["v"])
                else:
                    F.interp.setattr(inp["I"], self.which, inp["v"])
                return None

            def post(self, F, inp, out):
                a, b, I, v = inp["a"], inp["b"], inp["I"], inp["v"]
                ok = (R(v) <= R(b)) if self.which == "start" else (R(v) >= R(a))
                s, e = R(F.attr(I, "start")), R(F.attr(I, "end"))
                yield ("invariant start <= end after the call", s <= e)
                yield ("admissible value accepted", z3.Implies(ok, out.exc is None))
                yield ("inadmissible value rejected with AssertionError", z3.Implies(z3.Not(ok), out.raised(AssertionError)))
                if out.exc is None:
                    yield ("value stored, other end unchanged",
                           z3.And(s == R(v), e == R(b)) if self.which == "start" else z3.And(e == R(v), s == R(a)))
                else:
                    yield ("interval unchanged on rejection", z3.And(s == R(a), e == R(b)))


for _ta, _tx in itertools.product("if", "if"):
    for _m in ("contains", "__contains__"):

        @register
        class IntervalContainsNum(Contract):
            prop = "C16"
            target = U + "Interval." + _m
            case = "ends:%s,x:%s" % (_ta, _tx)
            ta, tx = NUM_TYPES[_ta], NUM_TYPES[_tx]
            describe = "x in [a,b] iff a <= x <= b"

            def build(self, F):
                a, b, I = _interval(F, self.ta)
                x = F.num("x", self.tx)
                return {"a": a, "b": b, "I": I, "x": x, "args": [I, x], "snap": F.snapshot(I)}

            def post(self, F, inp, out):
                yield _no_exc(out)
                if out.exc is None:
                    yield ("result == (a <= x <= b)", B(out.value) == mem(inp["x"], inp["a"], inp["b"]))
                yield ("interval not modified", F.same(inp["snap"], inp["I"]))

            def canaries(self, F, inp, out):
                if out.exc is None:
                    yield ("half-open semantics is refuted", B(out.value) == z3.And(R(inp["a"]) < R(inp["x"]), R(inp["x"]) <= R(inp["b"])))


@register
class IntervalContainsInterval(Contract):
    prop = "C16"
    target = U + "Interval.contains"
    case = "interval"
    describe = "containment of an interval = containment of all its points"

    def build(self, F):
        a, b, I = _interval(F, float)
        c, d, J = _interval(F, float, "o_")
        y = F.real("y")  # arbitrary point: universally quantified
        return {"a": a, "b": b, "c": c, "d": d, "I": I, "J": J, "y": y, "args": [I, J]}

    def post(self, F, inp, out):
        a, b, c, d, y = (inp[k] for k in "abcdy")
        yield _no_exc(out)
        if out.exc is None:
            r = B(out.value)
            yield ("True => every point of other is in self", z3.Implies(r, z3.Implies(mem(y, c, d), mem(y, a, b))))
            # False => some point of other is outside self: the witnesses are the end points
            yield ("False => an end point of other is outside self", z3.Implies(z3.Not(r), z3.Or(z3.Not(mem(c, a, b)), z3.Not(mem(d, a, b)))))


@register
class IntervalOverlaps(Contract):
    prop = "C16"
    target = U + "Interval.overlaps"
    describe = "overlaps iff the intersection of the two sets is non-empty"

    def build(self, F):
        a, b, I = _interval(F, float)
        c, d, J = _interval(F, float, "o_")
        y = F.real("y")
        return {"a": a, "b": b, "c": c, "d": d, "I": I, "J": J, "y": y, "args": [I, J]}

    def post(self, F, inp, out):
        a, b, c, d, y = (inp[k] for k in "abcdy")
        yield _no_exc(out)
        if out.exc is None:
            r = B(out.value)
            # witness of non-emptiness: max(a,c)
            w = z3.If(R(a) >= R(c), R(a), R(c))
            yield ("True => a common point exists (max of the starts)", z3.Implies(r, z3.And(mem(w, a, b), mem(w, c, d))))
            yield ("False => no point is common", z3.Implies(z3.Not(r), z3.Not(z3.And(mem(y, a, b), mem(y, c, d)))))


@register
class IntervalIntersection(Contract):
    prop = "C16"
    target = U + "Interval.intersection"
    describe = "intersection is None iff disjoint, else denotes exactly the set intersection"

    def build(self, F):
        a, b, I = _interval(F, float)
        c, d, J = _interval(F, float, "o_")
        y = F.real("y")
        return {"a": a, "b": b, "c": c, "d": d, "I": I, "J": J, "y": y, "args": [I, J]}

    def post(self, F, inp, out):
        a, b, c, d, y = (inp[k] for k in "abcdy")
        yield _no_exc(out)
        if out.exc is None:
            both = z3.And(mem(y, a, b), mem(y, c, d))
            if F.is_none(out.value):
                yield ("None => the sets are disjoint", z3.Not(both))
            else:
                s, e = F.attr(out.value, "start"), F.attr(out.value, "end")
                yield ("result is an Interval with start <= end", z3.And(F.isinstance(out.value, Interval), R(s) <= R(e)))
                yield ("y in result <=> y in both", mem(y, s, e) == both)


for _op, _name in (("__add__", "+"), ("__sub__", "-")):
    for _tk in "if":

        @register
        class IntervalShift(Contract):
            prop = "C16"
            target = U + "Interval." + _op
            case = "k:%s" % _tk
            op = _name
            tk = NUM_TYPES[_tk]
            describe = "shifting gives the image set"

            def build(self, F):
                a, b, I = _interval(F, float)
                k, y = F.num("k", self.tk), F.real("y")
                return {"a": a, "b": b, "I": I, "k": k, "y": y, "args": [I, k], "snap": F.snapshot(I)}

            def post(self, F, inp, out):
                a, b, k, y = (inp[x] for x in "abky")
                yield _no_exc(out)
                if out.exc is None:
                    s, e = F.attr(out.value, "start"), F.attr(out.value, "end")
                    yield ("start <= end", R(s) <= R(e))
                    pre = (R(y) - R(k)) if self.op == "+" else (R(y) + R(k))
                    yield ("y in result <=> preimage of y in self", mem(y, s, e) == mem(pre, a, b))
                    yield ("result has the class of self", F.type(out.value) is Interval)
                yield ("self not modified", F.same(inp["snap"], inp["I"]))


for _op in ("__mul__", "__truediv__"):
    for _tk in "if":

        @register
        class IntervalScale(Contract):
            prop = "C16"
            target = U + "Interval." + _op
            case = "k:%s" % _tk
            op = _op
            tk = NUM_TYPES[_tk]
            describe = "multiplying / dividing (also by negative numbers) gives the image set"

            def build(self, F):
                a, b, I = _interval(F, float)
                k, y = F.num("k", self.tk), F.real("y")
                if self.op == "__truediv__":
                    F.assume(R(k) != 0)
                return {"a": a, "b": b, "I": I, "k": k, "y": y, "args": [I, k], "snap": F.snapshot(I)}

            def post(self, F, inp, out):
                a, b, k, y = (inp[x] for x in "abky")
                yield _no_exc(out)
                if out.exc is None:
                    s, e = F.attr(out.value, "start"), F.attr(out.value, "end")
                    yield ("start <= end", R(s) <= R(e))
                    if self.op == "__mul__":
                        yield ("k != 0: y in result <=> y/k in self", z3.Implies(R(k) != 0, mem(y, s, e) == mem(R(y) / R(k), a, b)))
                        yield ("k == 0: result is {0}", z3.Implies(R(k) == 0, z3.And(R(s) == 0, R(e) == 0)))
                    else:
                        yield ("y in result <=> y*k in self", mem(y, s, e) == mem(R(y) * R(k), a, b))
                yield ("self not modified", F.same(inp["snap"], inp["I"]))


@register
class IntervalRound(Contract):
    prop = "C16"
    target = U + "Interval.__round__"
    describe = "rounding gives [round(a), round(b)] with start <= end"
    options = {"round_monotone": True}

    def build(self, F):
        a, b, I = _interval(F, float)
        return {"a": a, "b": b, "I": I, "args": [I, 3]}

    def post(self, F, inp, out):
        from pyvc.ops import ROUND

        a, b = inp["a"], inp["b"]
        yield _no_exc(out)
        if out.exc is None:
            s, e = F.attr(out.value, "start"), F.attr(out.value, "end")
            yield ("start <= end", R(s) <= R(e))
            yield ("ends are the rounded ends", z3.And(R(s) == ROUND(R(a), 3), R(e) == ROUND(R(b), 3)))


@register
class IntervalLength(Contract):
    prop = "C16"
    target = U + "Interval.length"
    describe = "length = end - start >= 0"

    def build(self, F):
        a, b, I = _interval(F, float)
        return {"a": a, "b": b, "I": I, "args": []}

    def invoke(self, F, inp):
        return F.attr(inp["I"], "length")

    def post(self, F, inp, out):
        yield _no_exc(out)
        if out.exc is None:
            yield ("length == b - a and >= 0", z3.And(R(out.value) == R(inp["b"]) - R(inp["a"]), R(out.value) >= 0))


# ------------------------------------------------------------------------------ angle helpers


@register
class MakeValidOrientation(Contract):
    prop = "C16"
    target = U + "make_valid_orientation"
    describe = "|result| <= 2pi and result == angle (mod 2pi); identity on [-2pi, 2pi]"
    unroll = {U + "make_valid_orientation": 4}

    def build(self, F):
        a = F.real("angle")
        F.assume(z3.And(R(a) <= 7 * PI, R(a) >= -7 * PI))
        return {"a": a, "args": [a]}

    # use as a callee contract (modular calls from other contracts)
    def summary_inputs(self, F, args, kwargs):
        return {"a": args[0], "args": [args[0]]}

    def summary_pre(self, F, inp):
        return z3.And(R(inp["a"]) <= 7 * PI, R(inp["a"]) >= -7 * PI)

    def summary_result(self, F, inp):
        from pyvc.core import pytype, is_float_type
        ty = pytype(inp["a"])
        # the function is deterministic: a second call on the very same argument gives the very same result
        memo = F.ctx.options.setdefault("__mvo_results__", [])
        t = z3.simplify(R(inp["a"]))
        for (t0, ty0, r0) in memo:
            if ty0 is ty and t0.eq(t):
                return r0
        r = F.ctx.fresh("make_valid_orientation", ty if is_float_type(ty) else float)
        memo.append((t, ty, r))
        return r

    def post(self, F, inp, out):
        a = inp["a"]
        yield _no_exc(out)
        if out.exc is None:
            r = R(out.value)
            yield ("|result| <= 2pi", z3.And(r <= TWO_PI, r >= -TWO_PI))
            yield ("result == angle mod 2pi", angle_eq(r, a, 4))
            yield ("identity on [-2pi, 2pi]", z3.Implies(z3.And(R(a) <= TWO_PI, R(a) >= -TWO_PI), r == R(a)))


@register
class MakeValidOrientationUnbounded(Contract):
    """the same function for *every* real angle, by loop invariants with a ghost iteration counter"""

    prop = "C16"
    target = U + "make_valid_orientation"
    case = "unbounded"
    describe = "all reals: result == angle - 2pi*n + 2pi*m for ghost counters n, m; |result| <= 2pi; terminates"
    Q = U + "make_valid_orientation"
    loopspecs = {
        (Q, "angle > TWO_PI"): LoopSpec(
            inv=lambda env, entry, g: z3.And(T(g["n"]) >= 0, R(env["angle"]) == R(entry["angle"]) - TWO_PI * z3.ToReal(T(g["n"])),
                                             z3.Implies(T(g["n"]) > 0, R(env["angle"]) >= 0)),
            variant=lambda env, entry, g: R(env["angle"]) + TWO_PI,
            variant_step=6,
            ghost={"n": (0, lambda g, env: T(g) + 1)},
        ),
        (Q, "angle < -TWO_PI"): LoopSpec(
            inv=lambda env, entry, g: z3.And(T(g["m"]) >= 0, R(env["angle"]) == R(entry["angle"]) + TWO_PI * z3.ToReal(T(g["m"])),
                                             R(entry["angle"]) <= TWO_PI, z3.Implies(T(g["m"]) > 0, R(env["angle"]) <= 0)),
            variant=lambda env, entry, g: TWO_PI - R(env["angle"]),
            variant_step=6,
            ghost={"m": (0, lambda g, env: T(g) + 1)},
        ),
    }

    def build(self, F):
        a = F.real("angle")
        return {"a": a, "args": [a]}

    def post(self, F, inp, out):
        yield _no_exc(out)
        if out.exc is None:
            r = R(out.value)
            g = F.ctx.ghost if not F.native else None
            yield ("|result| <= 2pi", z3.And(r <= TWO_PI, r >= -TWO_PI))
            if g is not None:
                n, m = T(g["make_valid_orientation:n"]), T(g["make_valid_orientation:m"])
                yield ("result == angle - 2pi*n + 2pi*m (ghost counters)", r == R(inp["a"]) - TWO_PI * z3.ToReal(n) + TWO_PI * z3.ToReal(m))


@register
class MakeValidOrientationInterval(Contract):
    prop = "C16"
    target = U + "make_valid_orientation_interval"
    describe = "both ends shifted by the same multiple of 2pi into [-2pi, 2pi]"
    unroll = {U + "make_valid_orientation_interval": 4}

    def build(self, F):
        a, b = F.real("a"), F.real("b")
        F.assume(z3.And(R(a) <= R(b), R(b) - R(a) < TWO_PI, R(a) >= -7 * PI, R(b) <= 7 * PI))
        return {"a": a, "b": b, "args": [a, b]}

    def post(self, F, inp, out):
        a, b = R(inp["a"]), R(inp["b"])
        yield _no_exc(out)
        if out.exc is None:
            s, e = (R(x) for x in F.items(out.value))
            yield ("same shift on both ends, multiple of 2pi", z3.Or(*[z3.And(s == a + TWO_PI * k, e == b + TWO_PI * k) for k in range(-4, 5)]))
            yield ("ends within [-2pi, 2pi]", z3.And(s >= -TWO_PI, e <= TWO_PI))


@register
class VectorizedAngleDifference(Contract):
    prop = "C16"
    target = U + "vectorized_angle_difference"
    describe = "lhs - rhs wrapped into (-pi, pi]"

    def build(self, F):
        l, r = F.real("lhs"), F.real("rhs")
        F.assume(z3.And(R(l) <= TWO_PI, R(l) >= -TWO_PI, R(r) <= TWO_PI, R(r) >= -TWO_PI))
        return {"l": l, "r": r, "args": [l, r]}

    def post(self, F, inp, out):
        yield _no_exc(out)
        if out.exc is None:
            d = R(out.value)
            yield ("result in (-pi, pi]", z3.And(d > -PI, d <= PI))
            yield ("result == lhs - rhs (mod 2pi)", angle_eq(d, R(inp["l"]) - R(inp["r"]), 3))


# ------------------------------------------------------------------------------ AngleInterval


@register
class AngleIntervalInit(Contract):
    prop = "C16"
    target = U + "AngleInterval.__init__"
    describe = "valid angle intervals are accepted unchanged; start > end or length >= 2pi is rejected"

    def build(self, F):
        a, b = F.real("a"), F.real("b")
        F.assume(z3.And(R(a) >= -TWO_PI, R(a) <= TWO_PI, R(b) >= -TWO_PI, R(b) <= TWO_PI))
        return {"a": a, "b": b, "args": []}

    def invoke(self, F, inp):
        o = F.try_new(AngleInterval, inp["a"], inp["b"])
        if o.exc is not None:
            raise o.exc
        return o.value

    unroll = {U + "make_valid_orientation_interval": 2}

    def post(self, F, inp, out):
        a, b = R(inp["a"]), R(inp["b"])
        ok = z3.And(a <= b, b - a < TWO_PI)
        yield ("valid interval accepted", z3.Implies(ok, out.exc is None))
        yield ("invalid interval rejected with AssertionError", z3.Implies(z3.Not(ok), out.raised(AssertionError)))
        if out.exc is None:
            s, e = R(F.attr(out.value, "start")), R(F.attr(out.value, "end"))
            yield ("ends denote the same angles (common shift by a multiple of 2pi), within [-2pi, 2pi]",
                   z3.And(s >= -TWO_PI, e <= TWO_PI, z3.Or(*[z3.And(s == a + TWO_PI * k, e == b + TWO_PI * k) for k in range(-2, 3)])))


for _tx in "if":
    for _m in ("contains", "__contains__"):

        @register
        class AngleIntervalContainsNum(Contract):
            prop = "C16"
            target = U + "AngleInterval." + _m
            case = "th:%s" % _tx
            tx = NUM_TYPES[_tx]
            describe = "th in [a,b] iff th + 2pi*k in [a,b] for some integer k; never raises for length < 2pi, int or float"
            unroll = {U + "make_valid_orientation_interval": 2}

            def build(self, F):
                a, b, I = _angle_interval(F, float)
                th = F.num("th", self.tx)
                F.assume(z3.And(R(th) >= -TWO_PI, R(th) <= TWO_PI))
                return {"a": a, "b": b, "I": I, "th": th, "args": [I, th], "snap": F.snapshot(I)}

            def post(self, F, inp, out):
                yield _no_exc(out)
                if out.exc is None:
                    yield ("result == exists k: a <= th + 2pi*k <= b", B(out.value) == amem(inp["th"], inp["a"], inp["b"], 3))
                yield ("interval not modified", F.same(inp["snap"], inp["I"]))


@register
class AngleIntervalContainsInterval(Contract):
    prop = "C16"
    target = U + "AngleInterval.contains"
    case = "interval"
    describe = "containment of an angle interval = containment of all its angles (mod 2pi)"
    unroll = {U + "make_valid_orientation_interval": 2}

    def build(self, F):
        a, b, I = _angle_interval(F, float)
        c, d, J = _angle_interval(F, float, "o_")
        th = F.real("th")
        F.assume(z3.And(R(th) >= -TWO_PI, R(th) <= TWO_PI))
        return {"a": a, "b": b, "c": c, "d": d, "I": I, "J": J, "th": th, "args": [I, J]}

    def post(self, F, inp, out):
        a, b, c, d, th = (inp[k] for k in ("a", "b", "c", "d", "th"))
        yield _no_exc(out)
        if out.exc is None:
            r = B(out.value)
            yield ("True => every angle of other is in self", z3.Implies(r, z3.Implies(amem(th, c, d), amem(th, a, b))))
            # closed form of the set inclusion (lemma C16/lemma-angle-inclusion): with s0 = (c - a) wrapped into [0, 2pi)
            s0 = wrap0(R(c) - R(a))
            incl = s0 + (R(d) - R(c)) <= R(b) - R(a)
            yield ("result == closed form of set inclusion", r == incl)


@register
class AngleIntervalShift(Contract):
    prop = "C16"
    target = U + "Interval.__add__"
    case = "AngleInterval"
    describe = "shifting an angle interval gives the shifted set modulo 2pi"
    unroll = {U + "make_valid_orientation_interval": 3}

    def build(self, F):
        a, b, I = _angle_interval(F, float)
        k, th = F.real("k"), F.real("th")
        F.assume(z3.And(R(k) >= -TWO_PI, R(k) <= TWO_PI, R(th) >= -TWO_PI, R(th) <= TWO_PI))
        return {"a": a, "b": b, "I": I, "k": k, "th": th, "args": [I, k]}

    def post(self, F, inp, out):
        a, b, k, th = (inp[x] for x in ("a", "b", "k", "th"))
        yield _no_exc(out)
        if out.exc is None:
            yield ("result is an AngleInterval", F.type(out.value) is AngleInterval)
            s, e = R(F.attr(out.value, "start")), R(F.attr(out.value, "end"))
            yield ("ends in [-2pi, 2pi], start <= end", z3.And(s >= -TWO_PI, e <= TWO_PI, s <= e))
            yield ("th in result <=> th - k in self (mod 2pi)", amem(th, s, e, 3) == amem(R(th) - R(k), a, b, 4))


from pyvc.runner import summary_provider, summary_of  # noqa: E402


@summary_provider("make_valid_orientation")
def _mvo_summary():
    c = [x for x in __import__("pyvc.contract", fromlist=["REGISTRY"]).REGISTRY if isinstance(x, MakeValidOrientation)]
    return summary_of(c[0] if c else MakeValidOrientation())
