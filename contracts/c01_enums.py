"""C01 / C02 -- every enumeration member survives the file round trip.
Exhaustive by construction: each scenario below carries ALL members of some enumerations (all lanelet types on one lanelet,
one lanelet per line marking, one obstacle per obstacle type, a traffic light cycle with every state, one light per
direction, one traffic sign per country carrying every sign id of that country, ...).  Geometry is concrete here (the
symbolic-value contracts are in c01.py / c02.py); what is decided is the transport of the members through the real
writer and reader: by value string and country table (XML), by member name (protobuf)."""
import numpy as np
import z3

import commonroad.scenario.state as st
from commonroad.common.common_lanelet import LaneletType, LineMarking, RoadUser, StopLine
from commonroad.common.file_reader import CommonRoadFileReader
from commonroad.common.file_writer import CommonRoadFileWriter
from commonroad.common.util import FileFormat, Time
from commonroad.common.writer.file_writer_interface import OverwriteExistingFile
from commonroad.geometry.shape import Rectangle
from commonroad.planning.planning_problem import PlanningProblemSet
from commonroad.scenario.lanelet import Lanelet, LaneletNetwork
from commonroad.prediction.prediction import TrajectoryPrediction
from commonroad.scenario.obstacle import DynamicObstacle, ObstacleType, StaticObstacle
from commonroad.scenario.trajectory import Trajectory
from commonroad.scenario.scenario import Environment, GeoTransformation, Location, Scenario, ScenarioID, Tag, TimeOfDay, Underground, Weather
from commonroad.scenario.traffic_light import TrafficLight, TrafficLightCycle, TrafficLightCycleElement, TrafficLightDirection, TrafficLightState
from commonroad.scenario.traffic_sign import SupportedTrafficSignCountry, TrafficSign, TrafficSignElement, TrafficSignIDCountries
from commonroad.scenario_definition.protobuf_format.generated_scripts import (lanelet_pb2, location_pb2, obstacle_pb2, scenario_tags_pb2,
                                                                                    traffic_light_pb2, traffic_sign_pb2)
import contracts.c01  # noqa: F401  (float_to_str summary provider)
import contracts.c16  # noqa: F401  (make_valid_orientation summary provider)
from pyvc.contract import Contract, register
from spec.approx import approx_parts


def in_proto(pb_enum):
    names = set(pb_enum.keys())
    return lambda m: m.name in names


def lane(F, lid, y, **kw):
    return F.new(Lanelet, np.array([[0.0, y + 1.0], [10.0, y + 1.25]]), np.array([[0.0, y + 0.5], [10.0, y + 0.75]]), np.array([[0.0, y], [10.0, y + 0.25]]), lid, **kw)


def init_state(F, k=0):
    return F.new(st.InitialState, time_step=0, position=np.array([1.0 + k, 2.0]), orientation=0.25, velocity=3.0, acceleration=0.5, yaw_rate=0.125, slip_angle=0.0625)


def base_scenario(F, country="DEU", tags=None, env=None):
    loc = F.new(Location, 2867714, 48.25, 11.5, None, env)
    return F.new(Scenario, 0.1, F.new(ScenarioID, False, country, "Enum", 1, 1, "T", 1), "author", set(tags) if tags is not None else {Tag.URBAN}, "affiliation", "source", loc)


def build_group(F, group, pb, member_filter=None):
    """member_filter(enum class, role) -> members to use (default: all; protobuf: those the .proto defines)"""
    if member_filter is not None:
        keep = lambda enum, pbe, role=None: member_filter(enum, role)
    elif pb:
        keep = lambda enum, pbe, role=None: [m for m in enum if in_proto(pbe)(m)]
    else:
        keep = lambda enum, pbe, role=None: list(enum)
    if group.startswith("tags and environment"):
        k = int(group.split("#")[1])
        tod, wea, und = keep(TimeOfDay, location_pb2.TimeOfDayEnum.TimeOfDay), keep(Weather, location_pb2.WeatherEnum.Weather), keep(Underground, location_pb2.UndergroundEnum.Underground)
        env = F.new(Environment, Time(6 + k, 30), tod[k % len(tod)], wea[k % len(wea)], und[k % len(und)])
        return base_scenario(F, tags=keep(Tag, scenario_tags_pb2.TagEnum.Tag), env=env)
    sc = base_scenario(F)
    if group == "lanelet types, users, line markings":
        types, users, marks = keep(LaneletType, lanelet_pb2.LaneletTypeEnum.LaneletType), keep(RoadUser, lanelet_pb2.RoadUserEnum.RoadUser), keep(LineMarking, lanelet_pb2.LineMarkingEnum.LineMarking)
        objs = [lane(F, 1, 0.0, lanelet_type=set(types), user_one_way=set(users)), lane(F, 2, 3.0, lanelet_type={types[0]}, user_bidirectional=set(users))]
        for k, m in enumerate(marks):
            stop = F.new(StopLine, np.array([0.0, 10.0 + 3 * k]), np.array([0.0, 11.0 + 3 * k]), m)
            objs.append(lane(F, 10 + k, 10.0 + 3 * k, lanelet_type={types[k % len(types)]}, line_marking_left_vertices=m, line_marking_right_vertices=marks[-1 - k], stop_line=stop))
        F.method(sc, "add_objects", objs)
    elif group == "traffic light states and directions":
        F.method(sc, "add_objects", lane(F, 1, 0.0, lanelet_type={LaneletType.URBAN}, traffic_lights={100 + k for k in range(len(TrafficLightDirection))}))
        states = keep(TrafficLightState, traffic_light_pb2.TrafficLightStateEnum.TrafficLightState)
        for k, d in enumerate(keep(TrafficLightDirection, traffic_light_pb2.TrafficLightDirectionEnum.TrafficLightDirection)):
            cyc = F.new(TrafficLightCycle, [F.new(TrafficLightCycleElement, s, 3 + j) for j, s in enumerate(states[k % 2:] + states[:k % 2])], 2, True)
            F.method(sc, "add_objects", F.new(TrafficLight, 100 + k, np.array([1.0 + k, 2.0]), cyc, direction=d, active=True), {1})
    elif group == "obstacle types":
        obs = []
        for k, t in enumerate(keep(ObstacleType, obstacle_pb2.ObstacleTypeEnum.ObstacleType, "static")):
            obs.append(F.new(StaticObstacle, 100 + k, t, F.new(Rectangle, 4.0, 2.0), init_state(F, k)))
        for k, t in enumerate(keep(ObstacleType, obstacle_pb2.ObstacleTypeEnum.ObstacleType, "dynamic")):
            shape = F.new(Rectangle, 4.0, 2.0)
            traj = F.new(Trajectory, 1, [F.new(st.KSState, time_step=1, position=np.array([2.0 + k, 2.0]), orientation=0.25, velocity=3.0, steering_angle=0.0)])
            obs.append(F.new(DynamicObstacle, 200 + k, t, shape, init_state(F, k), F.new(TrajectoryPrediction, traj, shape)))
        F.method(sc, "add_objects", obs)
    elif group.startswith("traffic signs of "):
        c = SupportedTrafficSignCountry[group.split(" of ")[1]]
        sc = base_scenario(F, country=c.value)
        enum = TrafficSignIDCountries[c.value]
        members = list(enum)
        if member_filter is not None:
            members = member_filter(enum, None)
        elif pb:
            pbe = getattr(getattr(traffic_sign_pb2, enum.__name__ + "Enum"), enum.__name__)
            members = [m for m in members if in_proto(pbe)(m)]
        F.method(sc, "add_objects", lane(F, 1, 0.0, lanelet_type={LaneletType.URBAN}, traffic_signs={50, 51}))
        half = (len(members) + 1) // 2
        F.method(sc, "add_objects", F.new(TrafficSign, 50, [TrafficSignElement(m, ["%d" % (30 + i)] if i % 3 == 0 else []) for i, m in enumerate(members[:half])], {1}, np.array([1.0, 1.0])), {1})
        F.method(sc, "add_objects", F.new(TrafficSign, 51, [TrafficSignElement(m, []) for m in members[half:]] or [TrafficSignElement(members[0], [])], {1}, np.array([2.0, 1.0]), True), {1})
    else:
        raise KeyError(group)
    return sc


GROUPS = ["tags and environment #%d" % k for k in range(max(len(TimeOfDay), len(Weather), len(Underground)))] + [
    "lanelet types, users, line markings", "traffic light states and directions", "obstacle types"] + ["traffic signs of %s" % c.name for c in SupportedTrafficSignCountry]


class EnumRoundTrip(Contract):
    target = "commonroad.common.file_writer.CommonRoadFileWriter.write_to_file"
    budget_s = 900
    summaries = ("float_to_str", "make_valid_orientation")
    unroll = {"commonroad.common.util.make_valid_orientation": 3, "commonroad.common.util.make_valid_orientation_interval": 3}

    def __init__(self, prop, group):
        self.prop, self.group, self.pb = prop, group, prop == "C02"
        self.case = "every member: %s (%s)" % (group, "protobuf" if self.pb else "XML")
        self.describe = "exhaustive: every enumeration member of this group is written and read back as the same member"

    def build(self, F):
        import contracts.c01  # noqa: F401  (float_to_str summary provider)
        import contracts.c16  # noqa: F401

        return {"sc": build_group(F, self.group, self.pb), "pps": F.new(PlanningProblemSet), "args": []}

    def invoke(self, F, inp):
        import os

        from pyvc.contract import scratch_dir

        ext = ".pb" if self.pb else ".xml"
        path = os.path.join(scratch_dir("enum_"), "out" + ext) if F.native else "/nonexistent-dir/enum_%s%s" % (abs(hash(self.group)) % 10 ** 6, ext)
        kw = {"file_format": FileFormat.PROTOBUF} if self.pb else {"file_format": FileFormat.XML, "decimal_precision": 4}
        w = F.new(CommonRoadFileWriter, inp["sc"], inp["pps"], **kw)
        F.method(w, "write_to_file", path, OverwriteExistingFile.ALWAYS)
        return F.method(F.new(CommonRoadFileReader, path), "open")

    def post(self, F, inp, out):
        yield ("writing and reading raise nothing", out.exc is None)
        if out.exc is None:
            sc2, _ = F.items(out.value)
            tol = 0 if self.pb else z3.Q(1, 10 ** 4)
            ignore = ("_first_occurrence", "_color") if self.pb else ("_first_occurrence", "_color", "_virtual")
            yield ("lanelet network (types, users, markings, signs, lights) reproduced",) + approx_parts(
                F.attr(inp["sc"], "lanelet_network"), F.attr(sc2, "lanelet_network"), tol, F, ignore=ignore, path="lanelet_network")
            for role in ("static_obstacles", "dynamic_obstacles"):
                yield ("%s reproduced" % role,) + approx_parts(F.items(F.attr(inp["sc"], role)), F.items(F.attr(sc2, role)), tol, F, path=role)
            for k in ("tags", "location", "scenario_id"):
                yield ("scenario %s reproduced" % k,) + approx_parts(F.attr(inp["sc"], k), F.attr(sc2, k), tol, F, path=k)


for _prop in ("C01", "C02"):
    for _g in GROUPS:
        if _prop == "C02" and _g == "traffic signs of AUSTRALIA":
            continue  # the .proto files define no Australian sign enumeration (the property excludes members the format lacks)
        register(EnumRoundTrip(_prop, _g))
