"""C10 -- removing or cutting out network elements leaves no dangling references.
A lanelet network template (4 lanelets with predecessor/successor/adjacency relations, 2 signs, 2 lights, a stop line,
an intersection with one incoming and a crossing) is built with ALL ids symbolic (pairwise distinct); the id passed to the
removal is symbolic too, so one contract covers the removal of every element and of a non-existing id."""
import numpy as np
import z3

from commonroad.common.common_lanelet import LaneletType, LineMarking, StopLine
from commonroad.geometry.shape import Rectangle
from commonroad.scenario.intersection import Intersection, IntersectionIncomingElement
from commonroad.scenario.lanelet import Lanelet, LaneletNetwork
from commonroad.scenario.scenario import Scenario
from contracts.c09 import distinct, mk_light, mk_sign, same_members


def new_id(F, name):
    v = F.int(name)
    F.assume(T(v) >= 0)  # 0 is a valid lanelet id
    return v

from pyvc.contract import B, CACHE_ATTRS, Contract, R, T, conj, deep_eq, disj, register

LN = "commonroad.scenario.lanelet.LaneletNetwork."
UNROLL = {"commonroad.common.util.make_valid_orientation": 3, "commonroad.common.util.make_valid_orientation_interval": 3}


def lanelet(F, lid, y, **kw):
    return F.new(Lanelet, np.array([[0.0, y + 1], [1.0, y + 1]]), np.array([[0.0, y + 0.5], [1.0, y + 0.5]]), np.array([[0.0, y], [1.0, y]]), lid, **kw)


def template(F, crosswalk=False):
    """crosswalk=True: a fifth lanelet L5 without any lanelet relation that only the intersection refers to (as a crossing)"""
    names = ["L1", "L2", "L3", "L4", "S1", "S2", "T1", "T2", "T3", "I", "INC", "INC2"] + (["L5"] if crosswalk else [])
    ids = {n: new_id(F, n) for n in names}
    vals = list(ids.values())
    for i in range(len(vals)):
        for j in range(i + 1, len(vals)):
            F.assume(T(vals[i]) != T(vals[j]))
    i = ids
    stop = F.new(StopLine, np.array([0.0, 6.0]), np.array([0.0, 7.0]), LineMarking.SOLID, F.set([i["S1"]]), F.set([i["T1"]]))
    # stop lines with only a light reference / only a sign reference (the other one None, as the readers produce them)
    stop_light_only = F.new(StopLine, np.array([0.0, 0.0]), np.array([0.0, 1.0]), LineMarking.SOLID, None, F.set([i["T2"]]))
    stop_sign_only = F.new(StopLine, np.array([0.0, 2.0]), np.array([0.0, 3.0]), LineMarking.SOLID, F.set([i["S2"]]), None)
    la = {
        # L1 has a right neighbour driving in the OPPOSITE direction (flag False, not None)
        "L1": lanelet(F, i["L1"], 0.0, successor=[i["L2"]], stop_line=stop_light_only, traffic_signs=F.set([i["S1"]]), traffic_lights=F.set([i["T2"]]),
                      adjacent_right=i["L4"], adjacent_right_same_direction=False, lanelet_type={LaneletType.URBAN}),
        "L2": lanelet(F, i["L2"], 2.0, predecessor=[i["L1"]], adjacent_left=i["L3"], adjacent_left_same_direction=True, stop_line=stop_sign_only,
                      traffic_signs=F.set([i["S2"]]), traffic_lights=F.set([i["T2"]]), lanelet_type={LaneletType.URBAN}),
        "L3": lanelet(F, i["L3"], 4.0, adjacent_right=i["L2"], adjacent_right_same_direction=True, predecessor=[i["L1"], i["L4"]],
                      lanelet_type={LaneletType.BUS_LANE}),
        "L4": lanelet(F, i["L4"], 6.0, successor=[i["L3"]], stop_line=stop, traffic_signs=F.set([i["S1"]]), traffic_lights=F.set([i["T1"]]),
                      lanelet_type={LaneletType.HIGHWAY}),
    }
    inc = F.new(IntersectionIncomingElement, i["INC"], F.set([i["L1"]]), F.set([]), F.set([i["L2"]]), F.set([i["L3"]]))
    # a right-turn-only incoming (no straight, no left successor)
    inc2 = F.new(IntersectionIncomingElement, i["INC2"], F.set([i["L3"]]), F.set([i["L2"]]), F.set([]), F.set([]), i["INC"])
    if crosswalk:
        la["L5"] = lanelet(F, i["L5"], 8.0, lanelet_type={LaneletType.CROSSWALK})
    inter = F.new(Intersection, i["I"], [inc, inc2], F.set([i["L4"]] + ([i["L5"]] if crosswalk else [])))
    net = F.new(LaneletNetwork)
    for k in la:
        F.ok(lambda k=k: F.method(net, "add_lanelet", la[k]))
    for k in ("S1", "S2"):
        F.ok(lambda k=k: F.method(net, "add_traffic_sign", mk_sign(F, i[k]), set()))
    for k in ("T1", "T2", "T3"):  # T3 is referenced by no lanelet
        F.ok(lambda k=k: F.method(net, "add_traffic_light", mk_light(F, i[k]), set()))
    F.ok(lambda: F.method(net, "add_intersection", inter))
    return net, ids, la


def refs_of(F, net):
    """all id references held by the elements of the network: list of (kind, id)"""
    out = []
    for la in F.items(F.attr(net, "lanelets")):
        for p in F.items(F.attr(la, "predecessor")) + F.items(F.attr(la, "successor")):
            out.append(("lanelet", p))
        for a in (F.attr(la, "adj_left"), F.attr(la, "adj_right")):
            if a is not None:
                out.append(("lanelet", a))
        out += [("sign", s) for s in F.keys(F.attr(la, "traffic_signs"))]
        out += [("light", s) for s in F.keys(F.attr(la, "traffic_lights"))]
        sl = F.attr(la, "stop_line")
        if sl is not None:
            if F.attr(sl, "traffic_sign_ref") is not None:
                out += [("sign", s) for s in F.keys(F.attr(sl, "traffic_sign_ref"))]
            if F.attr(sl, "traffic_light_ref") is not None:
                out += [("light", s) for s in F.keys(F.attr(sl, "traffic_light_ref"))]
    for inter in F.items(F.attr(net, "intersections")):
        for inc in F.items(F.attr(inter, "incomings")):
            for attr in ("incoming_lanelets", "successors_right", "successors_straight", "successors_left"):
                out += [("lanelet", s) for s in F.keys(F.attr(inc, attr))]
        out += [("lanelet", s) for s in F.keys(F.attr(inter, "crossings"))]
    return out


def existing(F, net):
    return {
        "lanelet": [F.attr(x, "lanelet_id") for x in F.items(F.attr(net, "lanelets"))],
        "sign": [F.attr(x, "traffic_sign_id") for x in F.items(F.attr(net, "traffic_signs"))],
        "light": [F.attr(x, "traffic_light_id") for x in F.items(F.attr(net, "traffic_lights"))],
    }


def no_dangling(F, net):
    ex = existing(F, net)
    return conj(disj(T(r) == T(e) for e in ex[kind]) for kind, r in refs_of(F, net))


def relations(F, la):
    """the relation content of a lanelet as {name: list of ids}"""
    d = {"pred": F.items(F.attr(la, "predecessor")), "succ": F.items(F.attr(la, "successor")),
         "adj_left": [x for x in [F.attr(la, "adj_left")] if x is not None], "adj_right": [x for x in [F.attr(la, "adj_right")] if x is not None],
         "signs": F.keys(F.attr(la, "traffic_signs")), "lights": F.keys(F.attr(la, "traffic_lights"))}
    sl = F.attr(la, "stop_line")
    if sl is not None:
        d["stop_signs"] = F.keys(F.attr(sl, "traffic_sign_ref") or [])
        d["stop_lights"] = F.keys(F.attr(sl, "traffic_light_ref") or [])
    return d


def minus(old, removed):
    """z3: `new` == old minus the removed ids, as a constraint generator"""
    def cond(new):
        keep = conj(z3.Implies(conj(T(o) != T(r) for r in removed), disj(T(o) == T(n) for n in new)) for o in old)
        only = conj(z3.And(disj(T(n) == T(o) for o in old), conj(T(n) != T(r) for r in removed)) for n in new)
        return z3.And(keep, only)
    return cond


def frame(F, net, before, removed_lanelets, removed_signs, removed_lights, expect_present):
    """every remaining lanelet keeps its relations minus the removed ids; non-id content unchanged"""
    conds = []
    flags_before = before.get("__flags__", {}) if isinstance(before, dict) else {}
    before = {k: v for k, v in before.items() if k != "__flags__"}
    now = {id(la): la for la in F.items(F.attr(net, "lanelets"))}
    for key, (la_obj, rel_before, geo_before) in before.items():
        present = id(la_obj) in now
        conds.append(z3.BoolVal(present) == expect_present[key])
        if not present:
            continue
        rel_now = relations(F, la_obj)
        for name, old in rel_before.items():
            removed = removed_lanelets if name in ("pred", "succ", "adj_left", "adj_right") else (removed_signs if "sign" in name else removed_lights)
            conds.append(minus(old, removed)(rel_now.get(name, [])))
        conds.append(deep_eq(geo_before, F.attr(la_obj, "center_vertices"), F))
        # direction flags of adjacencies that remain are unchanged
        for side in ("left", "right"):
            adj_before = rel_before["adj_" + side]
            if adj_before:
                stays = conj(T(adj_before[0]) != T(r) for r in removed_lanelets)
                conds.append(z3.Implies(stays, z3.BoolVal(F.attr(la_obj, "adj_%s_same_direction" % side) == flags_before[key][side])))
    return conj(conds)


def snapshot_lanelets(F, la):
    d = {k: (v, relations(F, v), F.snapshot(F.attr(v, "center_vertices"))) for k, v in la.items()}
    d["__flags__"] = {k: {"left": F.attr(v, "adj_left_same_direction"), "right": F.attr(v, "adj_right_same_direction")} for k, v in la.items()}
    return d


class RemoveLanelet(Contract):
    prop = "C10"
    target = LN + "remove_lanelet"
    unroll = UNROLL
    describe = "after removing lanelet x (any id): no dangling reference; remaining lanelets keep all relations minus x; nothing else removed"

    def __init__(self, rtree):
        self.rtree = rtree
        self.case = "rtree=%s, network with a crossing-only lanelet" % rtree

    def build(self, F):
        net, ids, la = template(F, crosswalk=True)
        x = new_id(F, "x")
        return {"net": net, "ids": ids, "la": la, "x": x, "args": [net, x] + ([] if self.rtree else [False]), "before": snapshot_lanelets(F, la),
                "signs": existing(F, net)["sign"], "lights": existing(F, net)["light"]}

    def post(self, F, inp, out):
        yield ("raises nothing", out.exc is None)
        if out.exc is None:
            net, x = inp["net"], inp["x"]
            yield ("no remaining element refers to a removed id", no_dangling(F, net))
            expect = {k: T(inp["ids"][k]) != T(x) for k in inp["la"]}
            yield ("remaining lanelets: relations == old relations minus x, content unchanged; exactly x removed",
                   frame(F, net, inp["before"], [x], [], [], expect))
            ex = existing(F, net)
            yield ("signs, lights and the intersection are untouched", z3.And(same_members(ex["sign"], inp["signs"]), same_members(ex["light"], inp["lights"]),
                                                                               z3.BoolVal(len(F.items(F.attr(net, "intersections"))) == 1)))


register(RemoveLanelet(True))
register(RemoveLanelet(False))


@register
class RemoveTwoLanelets(Contract):
    prop = "C10"
    target = LN + "remove_lanelet"
    case = "two removals in sequence"
    unroll = UNROLL
    budget_s = 900
    describe = "after removing lanelets x and then y: no dangling reference; remaining lanelets keep all relations minus {x, y}"

    def build(self, F):
        net, ids, la = template(F, crosswalk=True)
        x, y = new_id(F, "x"), new_id(F, "y")
        return {"net": net, "ids": ids, "la": la, "x": x, "y": y, "args": [], "before": snapshot_lanelets(F, la)}

    def invoke(self, F, inp):
        F.method(inp["net"], "remove_lanelet", inp["x"])
        F.method(inp["net"], "remove_lanelet", inp["y"])

    def post(self, F, inp, out):
        yield ("raises nothing", out.exc is None)
        if out.exc is None:
            net, x, y = inp["net"], inp["x"], inp["y"]
            yield ("no remaining element refers to a removed id", no_dangling(F, net))
            expect = {k: z3.And(T(inp["ids"][k]) != T(x), T(inp["ids"][k]) != T(y)) for k in inp["la"]}
            yield ("remaining lanelets: relations == old relations minus {x, y}; exactly x and y removed", frame(F, net, inp["before"], [x, y], [], [], expect))


for _kind, _meth in (("sign", "remove_traffic_sign"), ("light", "remove_traffic_light")):

    @register
    class RemoveSignOrLight(Contract):
        prop = "C10"
        target = LN + _meth
        unroll = UNROLL
        kind, meth = _kind, _meth
        describe = "after removing sign/light x: no lanelet or stop line refers to it; all other references and all lanelets untouched"

        def build(self, F):
            net, ids, la = template(F)
            x = new_id(F, "x")
            return {"net": net, "ids": ids, "la": la, "x": x, "args": [net, x], "before": snapshot_lanelets(F, la)}

        def post(self, F, inp, out):
            yield ("raises nothing", out.exc is None)
            if out.exc is None:
                net, x = inp["net"], inp["x"]
                yield ("no remaining element refers to a removed id", no_dangling(F, net))
                expect = {k: z3.BoolVal(True) for k in inp["la"]}
                yield ("every lanelet still present; references == old references minus x",
                       frame(F, net, inp["before"], [], [x] if self.kind == "sign" else [], [x] if self.kind == "light" else [], expect))


@register
class RemoveIntersection(Contract):
    prop = "C10"
    target = LN + "remove_intersection"
    unroll = UNROLL
    describe = "removing an intersection leaves lanelets, signs, lights untouched"

    def build(self, F):
        net, ids, la = template(F)
        x = new_id(F, "x")
        return {"net": net, "ids": ids, "la": la, "x": x, "args": [net, x], "before": snapshot_lanelets(F, la)}

    def post(self, F, inp, out):
        yield ("raises nothing", out.exc is None)
        if out.exc is None:
            net = inp["net"]
            yield ("no dangling reference", no_dangling(F, net))
            yield ("intersection removed iff x is its id", z3.BoolVal(len(F.items(F.attr(net, "intersections"))) == 0) == (T(inp["x"]) == T(inp["ids"]["I"])))
            yield ("all lanelets and their relations untouched", frame(F, net, inp["before"], [], [], [], {k: z3.BoolVal(True) for k in inp["la"]}))


for _which in ("L1", "L2", "L4", "L1+L4"):

    @register
    class ScenarioRemoveLanelet(Contract):
        prop = "C10"
        target = "commonroad.scenario.scenario.Scenario.remove_lanelet"
        case = _which
        which = _which.split("+")
        unroll = UNROLL
        describe = "signs and lights disappear with a lanelet only if no remaining lanelet references them; no dangling references"

        def build(self, F):
            net, ids, la = template(F)
            sc = F.new(Scenario, 0.1)
            F.ok(lambda: F.method(sc, "add_objects", net))
            arg = [la[k] for k in self.which] if len(self.which) > 1 else la[self.which[0]]
            return {"sc": sc, "net": net, "ids": ids, "la": la, "args": [sc, arg], "before": snapshot_lanelets(F, la)}

        def post(self, F, inp, out):
            yield ("raises nothing", out.exc is None)
            if out.exc is None:
                net, ids = F.attr(inp["sc"], "lanelet_network"), inp["ids"]
                yield ("no remaining element refers to a removed id", no_dangling(F, net))
                # which signs / lights are referenced by a remaining lanelet in the template
                users = {"S1": {"L1", "L4"}, "S2": {"L2"}, "T1": {"L4"}, "T2": {"L1", "L2"}, "T3": set()}
                gone = set(self.which)
                # an element goes exactly when a removed lanelet referenced it and no remaining lanelet does; T3 (referenced by nobody) stays
                stays = lambda e: bool(users[e] - gone) or not (users[e] & gone)
                exp_signs = [ids[s] for s in ("S1", "S2") if stays(s)]
                exp_lights = [ids[s] for s in ("T1", "T2", "T3") if stays(s)]
                ex = existing(F, net)
                yield ("a sign is removed iff no remaining lanelet references it", same_members(ex["sign"], exp_signs))
                yield ("a light is removed iff no remaining lanelet references it", same_members(ex["light"], exp_lights))
                rs = [ids[s] for s in ("S1", "S2") if not stays(s)]
                rl = [ids[s] for s in ("T1", "T2", "T3") if not stays(s)]
                expect = {k: z3.BoolVal(k not in gone) for k in inp["la"]}
                yield ("remaining lanelets keep their relations minus the removed ids",
                       frame(F, net, inp["before"], [ids[k] for k in self.which], rs, rl, expect))


@register
class CutOutByLaneletList(Contract):
    prop = "C10"
    target = LN + "create_from_lanelet_list"
    unroll = UNROLL
    describe = "network from a sub-list of lanelets: no dangling lanelet references; kept lanelets are copies with relations restricted to the kept ids"

    def build(self, F):
        net, ids, la = template(F)
        return {"net": net, "ids": ids, "la": la, "args": [[la["L1"], la["L2"], la["L3"]]], "before": snapshot_lanelets(F, la)}

    def invoke(self, F, inp):
        return F.call_target(self.target, inp["args"], {})

    def post(self, F, inp, out):
        yield ("raises nothing", out.exc is None)
        if out.exc is None:
            new = out.value
            ids = inp["ids"]
            ex = existing(F, new)
            yield ("exactly the listed lanelets", same_members(ex["lanelet"], [ids["L1"], ids["L2"], ids["L3"]]))
            lan_refs = [r for kind, r in refs_of(F, new) if kind == "lanelet"]
            yield ("no lanelet reference to an excluded lanelet", conj(disj(T(r) == T(e) for e in ex["lanelet"]) for r in lan_refs))
            yield ("original network not modified", conj(conj(same_members(relations(F, v)[n], old) if old or relations(F, v)[n] else True
                                                              for n, old in rel.items()) for k, (v, rel, geo) in ((kk, vv) for kk, vv in inp["before"].items() if kk != "__flags__")))


@register
class CutOutByShapeAndTypes(Contract):
    prop = "C10"
    target = LN + "create_from_lanelet_network"
    unroll = UNROLL
    describe = "cut-out by shape and excluded lanelet types: kept set is exactly {types disjoint and intersecting}; no dangling references; intersections restricted"
    budget_s = 900

    def build(self, F):
        net, ids, la = template(F)
        shape = F.new(Rectangle, 3.0, 3.0, F.array([0.5, 1.0]), 0.0)
        return {"net": net, "ids": ids, "la": la, "shape": shape, "args": [net, shape, {LaneletType.HIGHWAY}]}

    def invoke(self, F, inp):
        return F.call_target(self.target, inp["args"], {})

    def post(self, F, inp, out):
        yield ("raises nothing", out.exc is None)
        if out.exc is None:
            new, ids = out.value, inp["ids"]
            ex = existing(F, new)
            yield ("no remaining element refers to a lanelet, sign or light that is not in the new network", no_dangling(F, new))
            yield ("the excluded type (L4, HIGHWAY) is never kept", conj(T(e) != T(ids["L4"]) for e in ex["lanelet"]))
            # kept lanelets are exactly those whose polygon intersects the shape (uninterpreted predicate, evaluated through the real objects)
            kept = {}
            for k in ("L1", "L2", "L3"):
                hit = F.method(F.attr(inp["shape"], "shapely_object"), "intersects", F.attr(F.attr(inp["la"][k], "polygon"), "shapely_object"))
                kept[k] = disj(T(e) == T(ids[k]) for e in ex["lanelet"])
                yield ("%s kept iff its polygon intersects the shape" % k, kept[k] == B(hit))
            kept["L4"] = z3.BoolVal(False)
            # intersections: an incoming is kept exactly when one of its incoming lanelets and one of its successors (of any kind) is kept
            spec = {"INC": (["L1"], {"successors_right": [], "successors_straight": ["L2"], "successors_left": ["L3"]}),
                    "INC2": (["L3"], {"successors_right": ["L2"], "successors_straight": [], "successors_left": []})}
            incs = [inc for inter in F.items(F.attr(new, "intersections")) for inc in F.items(F.attr(inter, "incomings"))]
            for name, (inl, succ) in spec.items():
                present = disj(T(F.attr(inc, "incoming_id")) == T(ids[name]) for inc in incs)
                should = z3.And(disj(kept[k] for k in inl), disj(kept[k] for ks in succ.values() for k in ks))
                yield ("incoming %s kept iff an incoming lanelet and a successor of it are kept" % name, present == should)
                for inc in incs:
                    same = T(F.attr(inc, "incoming_id")) == T(ids[name])
                    for attr, ks in succ.items():
                        got = F.keys(F.attr(inc, attr))
                        want = conj([z3.Implies(kept[k], disj(T(g) == T(ids[k]) for g in got)) for k in ks] +
                                    [disj(z3.And(T(g) == T(ids[k]), kept[k]) for k in ks) for g in got])
                        yield ("incoming %s: %s restricted to the kept lanelets" % (name, attr), z3.Implies(same, want))
