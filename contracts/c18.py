"""C18 -- read-only operations do not change scenarios or planning problems.
Every contract: build scenario + planning problems, take a structural snapshot of the observable view (declared caches
and derived geometry excluded), run the read-only operation on the real source, require view' == view."""
import ast

import numpy as np
import z3

import commonroad.scenario.state as st
import contracts.c16  # noqa: F401
from commonroad.common.file_writer import CommonRoadFileWriter
from commonroad.common.util import FileFormat, Interval
from commonroad.common.writer.file_writer_interface import OverwriteExistingFile
from commonroad.geometry.shape import Rectangle
from commonroad.prediction.prediction import TrajectoryPrediction
from commonroad.scenario.obstacle import DynamicObstacle, ObstacleType
from commonroad.scenario.trajectory import Trajectory
from contracts.c01 import RoundTrip, initial_state, mk_planning_problems, mk_scenario, pos, positive
from pyvc.contract import B, Contract, R, T, conj, register, scratch_dir

import pyvc.contract as _pc
import spec.approx as _sa

# frame comparisons: the vertices of a Polygon are constructor data, not a cache (see spec/approx.py)
_sa.POLYGON_VERTICES_PRIMARY = True
_pc.POLYGON_VERTICES_PRIMARY[0] = True


def custom_states_obstacle(F):
    """dynamic obstacle whose trajectory states have velocity / velocity_y but no orientation attribute"""
    states = [F.new(st.CustomState, time_step=t, position=pos(F, "cs%d_p" % t), velocity=F.real("cs%d_vx" % t), velocity_y=F.real("cs%d_vy" % t)) for t in (1, 2)]
    shape = F.new(Rectangle, positive(F, "cs_l"), positive(F, "cs_w"))
    return F.new(DynamicObstacle, 21, ObstacleType.CAR, shape, initial_state(F, "cs_i_"), F.new(TrajectoryPrediction, F.new(Trajectory, 1, states), shape))


def op_queries(F, sc, pps):
    for o in F.items(F.attr(sc, "obstacles")):
        for t in (0, 1, 5):
            F.method(o, "occupancy_at_time", t)
    F.method(sc, "occupancies_at_time_step", 1)
    F.method(sc, "obstacle_states_at_time_step", 1)


def op_network_queries(F, sc, pps):
    net = F.attr(sc, "lanelet_network")
    F.method(net, "find_lanelet_by_position", [F.array([F.real("qx"), F.real("qy")])])
    for light in F.items(F.attr(net, "traffic_lights")):
        F.method(light, "get_state_at_time_step", 7)
    for la in F.items(F.attr(net, "lanelets")):
        F.attr(la, "distance")
        F.attr(la, "polygon")
        # route queries walk through other lanelets (lanelet 4 -> 3 -> [2, 1]: the upstream reference lists are not ascending)
        F.method(la, "find_lanelet_predecessors_in_range", net, 500.0)
        F.method(la, "find_lanelet_successors_in_range", net, 500.0)


def op_goal(F, sc, pps):
    for pp in F.items(F.attr(pps, "planning_problem_dict").values()):
        pm = F.new(st.PMState, time_step=3, position=pos(F, "pm_p"), velocity=F.real("pm_vx"), velocity_y=F.real("pm_vy"))
        snap = F.snapshot(pm)
        F.method(F.attr(pp, "goal"), "is_reached", pm)
        F.assume(F.same(snap, pm)) if F.native else F.ctx.oblige("post", "the queried state is unchanged", F.same(snap, pm))


def op_eq_hash(F, sc, pps):
    it = F.interp if not F.native else None
    if F.native:
        sc == sc, hash(sc), pps == pps, hash(pps)
    else:
        from pyvc import libmodels

        it.compare(ast.Eq, sc, sc)
        libmodels._hash(it, [sc], {})
        it.compare(ast.Eq, pps, pps)
        libmodels._hash(it, [pps], {})


def op_copy(F, sc, pps):
    if F.native:
        import copy
        import pickle

        copy.deepcopy(sc), pickle.dumps(sc.lanelet_network)
    else:
        from pyvc import libmodels

        libmodels.deepcopy(F.interp, sc)
        F.method(F.attr(sc, "lanelet_network"), "__getstate__")


def op_write_xml(F, sc, pps):
    import os
    import tempfile

    path = os.path.join(scratch_dir("c18_"), "out.xml") if F.native else "/nonexistent-dir/c18.xml"
    w = F.new(CommonRoadFileWriter, sc, pps, decimal_precision=4, file_format=FileFormat.XML)
    F.method(w, "write_to_file", path, OverwriteExistingFile.ALWAYS)


def op_write_pb(F, sc, pps):
    import os

    path = os.path.join(scratch_dir("c18_"), "out.pb") if F.native else "/nonexistent-dir/c18.pb"
    w = F.new(CommonRoadFileWriter, sc, pps, file_format=FileFormat.PROTOBUF)
    F.method(w, "write_to_file", path, OverwriteExistingFile.ALWAYS)


def op_write_both(F, sc, pps):
    op_write_pb(F, sc, pps)
    op_write_xml(F, sc, pps)


ALL = ("network", "static", "dynamic", "setbased", "phantom", "environment")
OPS = {
    "occupancy and state queries": (op_queries, ("static", "dynamic", "setbased", "phantom", "environment"), True, False),
    "lanelet and traffic-light queries": (op_network_queries, ("network",), False, False),
    "goal checks": (op_goal, (), False, True),
    "equality and hashing": (op_eq_hash, ALL, False, True),
    "deepcopy and pickling state": (op_copy, ("network", "static", "dynamic"), False, False),
    "writing to XML": (op_write_xml, ALL, False, True),
    "writing to protobuf": (op_write_pb, ALL, False, True),
    "writing planning problems whose goal is given by lanelets (protobuf, then XML)": (op_write_both, ("mini_network", "goal_lanelets"), False, True),
}

for _name, (_op, _content, _custom, _pps) in OPS.items():

    @register
    class ReadOnly(RoundTrip):
        prop = "C18"
        target = "read-only operation: " + _name
        op = staticmethod(_op)
        content, custom, with_pps = _content, _custom, _pps
        budget_s = 1800  # up to ~190 s on an idle machine
        describe = "every observable attribute of the scenario, its obstacles and states, the lanelet network and the planning problems is unchanged"

        def build(self, F):
            if self.op is op_write_pb or self.op is op_write_both:
                from contracts.c02 import WEATHER, fits_int32

                sc = mk_scenario(F, self.content, weather=WEATHER)  # an enumeration member the .proto files define
            else:
                sc = mk_scenario(F, self.content)
            if "network" in self.content:
                # a lanelet built with the constructor's defaults (no lanelet type, no markings, no adjacencies)
                from commonroad.scenario.lanelet import Lanelet

                cv = lambda y: (np.array([[30.0, y + 1.0], [40.0, y + 1.25]]), np.array([[30.0, y + 0.5], [40.0, y + 0.75]]), np.array([[30.0, y], [40.0, y + 0.25]]))
                F.method(F.attr(sc, "lanelet_network"), "add_lanelet", F.new(Lanelet, *cv(7.0), 4, [3]))  # downstream of lanelet 3
            if self.custom:
                F.method(sc, "add_objects", custom_states_obstacle(F))
            from commonroad.planning.planning_problem import PlanningProblemSet

            if "goal_lanelets" in self.content:
                pps = mk_planning_problems(F, F.attr(sc, "lanelet_network"))
            else:
                pps = mk_planning_problems(F) if self.with_pps else F.new(PlanningProblemSet)
            if self.op is op_write_pb or self.op is op_write_both:
                fits_int32(F)
            return {"sc": sc, "pps": pps, "args": [], "snap_sc": F.snapshot(sc), "snap_pps": F.snapshot(pps)}

        def invoke(self, F, inp):
            self.op(F, inp["sc"], inp["pps"])

        def post(self, F, inp, out):
            from spec.approx import approx_parts

            yield ("raises nothing", out.exc is None)
            yield ("scenario unchanged",) + approx_parts(inp["snap_sc"], inp["sc"], 0, F, path="scenario")
            yield ("planning problems unchanged",) + approx_parts(inp["snap_pps"], inp["pps"], 0, F, path="planning_problem_set")


# ------------------------------------------------------------------------------ drawing the lanelet network
# MPRenderer.draw_lanelet_network works on numpy views of the lanelets' own vertex arrays (lanelet.left_vertices[:, :2], ...)
# and edits temporary copies of them in place (line-marking ends, centre line coloured by a traffic light, stop line).
# pyvc models basic-indexing results / asarray / reshape / transpose as views that write through to their base
# (pyvc/objects.py NDArr.parent), so an edit of a view instead of a copy changes the snapshot comparison below.

import commonroad.visualization.draw_params as dp  # noqa: E402
from commonroad.common.common_lanelet import LineMarking, StopLine  # noqa: E402
from commonroad.scenario.lanelet import Lanelet, LaneletNetwork  # noqa: E402
from commonroad.scenario.traffic_light import TrafficLight, TrafficLightCycle, TrafficLightCycleElement, TrafficLightDirection, TrafficLightState  # noqa: E402
from pyvc.runner import summary_provider  # noqa: E402


@summary_provider("c18_draw")
def _draw_summaries():
    """callees of draw_lanelet_network that are outside this contract: the colour map (never evaluated with unique_colors
    off), the symbol drawing of traffic lights (TrafficLight.draw -> draw_traffic_light_signs: image boxes), and the two
    Line2D / LineCollection subclasses of visualization/util.py, whose constructors only record"""
    from pyvc.core import Unsupported
    from pyvc.interp import ModelFn
    from pyvc.libmodels import MplObj

    def never(it, a, k):
        raise Unsupported("colour map evaluated (unique_colors is off in this contract)")

    def record(kind):
        def init(it, args, kwargs):
            it.setattr(args[0], "_recorded", MplObj(kind, list(args[1:]), dict(kwargs)))
            return None
        return init

    return {
        "commonroad.visualization.util.colormap_idx": lambda it, a, k: ModelFn(never, "colormap"),
        "commonroad.scenario.traffic_light.TrafficLight.draw": lambda it, a, k: None,
        "commonroad.visualization.util.LineDataUnits.__init__": record("LineDataUnits"),
        "commonroad.visualization.util.LineCollectionDataUnits.__init__": record("LineCollectionDataUnits"),
    }


DRAW_CASES = {
    "solid markings, centre line coloured by a traffic light, stop line": dict(labels=False, three_d=False),
    "3-D boundary polylines, solid markings": dict(labels=False, three_d=True),
    "3-D boundary polylines (x increasing by >= 1 per vertex), solid markings, labels": dict(labels=True, three_d=True),
}


class DrawReadOnly(Contract):
    prop = "C18"
    target = "commonroad.visualization.mp_renderer.MPRenderer.draw_lanelet_network"
    summaries = ("c18_draw",)
    budget_s = 1800
    unroll = {"commonroad.scenario.lanelet.Lanelet.interpolate_position": 3, "commonroad.common.util.make_valid_orientation": 3}  # 3 vertices; unwinding assertion on
    describe = "every observable attribute of the lanelet network (vertex arrays included) is unchanged by drawing it"

    def __init__(self, name):
        self.name = name
        self.case = "read-only operation: drawing the lanelet network (%s)" % name
        self.opts = DRAW_CASES[name]

    def build(self, F):
        from contracts.c19 import renderer_for

        three_d = self.opts["three_d"]
        net = F.new(LaneletNetwork)

        def sym_line(name, n=3):
            if three_d:
                return F.array([[F.real("%s%dx" % (name, i)), F.real("%s%dy" % (name, i)), F.real("%s%dz" % (name, i))] for i in range(n)])
            return F.array([[F.real("%s%dx" % (name, i)), F.real("%s%dy" % (name, i))] for i in range(n)])

        def line(y, x0=20.0):
            pts = [[x0, y], [x0 + 5.0, y], [x0 + 20.0, y + 0.5]]
            return F.array([p + [0.25] for p in pts] if three_d else pts)

        mean = lambda a, b: 0.5 * (a + b) if F.native else F.interp.binop(ast.Mult, 0.5, F.interp.binop(ast.Add, a, b))
        left, right = sym_line("d1l"), sym_line("d1r")
        if self.opts["labels"]:
            # the label position divides by the length of a centre-line segment: consecutive vertices are at least 1 m apart in x
            k = 3 if three_d else 2
            for arr in (left, right):
                e = F.elems(arr)
                for i in range(2):
                    F.assume(R(e[(i + 1) * k]) - R(e[i * k]) >= 1)
        stop = F.new(StopLine, F.array([1.0, 0.0]), F.array([1.5, 3.0]), LineMarking.SOLID, set(), {201})  # concrete: not degenerate
        l1 = F.new(Lanelet, left, mean(left, right), right, 1, [], [2], None, None, None, None, LineMarking.SOLID, LineMarking.BROAD_SOLID, stop, traffic_lights={201})
        l2l, l2r = line(3.0), line(0.0)
        l2 = F.new(Lanelet, l2l, mean(l2l, l2r), l2r, 2, [1], [], line_marking_left_vertices=LineMarking.SOLID, line_marking_right_vertices=LineMarking.NO_MARKING)
        for la in (l1, l2):
            F.method(net, "add_lanelet", la)
        cyc = F.new(TrafficLightCycle, [F.new(TrafficLightCycleElement, TrafficLightState.RED, 15), F.new(TrafficLightCycleElement, TrafficLightState.RED_YELLOW, 10)], 0, True)
        F.method(net, "add_traffic_light", F.new(TrafficLight, 201, pos(F, "dlight_p"), cyc, direction=TrafficLightDirection.ALL, active=True), set())
        params = F.new(dp.MPDrawParams)
        ln = F.attr(params, "lanelet_network")
        lp = F.attr(ln, "lanelet")
        for k, v in (("draw_line_markings", True), ("draw_stop_line", True), ("draw_start_and_direction", False), ("show_label", self.opts["labels"]),
                     ("draw_border_vertices", True), ("unique_colors", False), ("colormap_tangent", False)):
            F.setattr(lp, k, v)
        F.setattr(F.attr(ln, "traffic_light"), "draw_traffic_lights", True)
        F.setattr(F.attr(ln, "traffic_sign"), "draw_traffic_signs", False)
        F.setattr(F.attr(ln, "intersection"), "draw_intersections", False)
        return {"net": net, "params": params, "r": renderer_for(F, params), "args": [], "snap": F.snapshot(net)}

    def invoke(self, F, inp):
        F.method(inp["r"], "draw_lanelet_network", inp["net"], F.attr(inp["params"], "lanelet_network"))

    def post(self, F, inp, out):
        from spec.approx import approx_parts

        yield ("raises nothing", out.exc is None)
        yield ("lanelet network unchanged",) + approx_parts(inp["snap"], inp["net"], 0, F, path="lanelet_network")


import os  # noqa: E402

for _n in DRAW_CASES:
    if DRAW_CASES[_n]["labels"]:
        continue  # NOT registered: the label-angle paths (atan2, degrees) take 4-5 min and, with the thorough tier's longer solver
        #           budgets, stop at a division whose divisor the model cannot show non-zero (exit 2 = undecided); see DESIGN.md
    register(DrawReadOnly(_n))


# ------------------------------------------------------------------------------ drawing obstacles
# The C19 contract "patches drawn = occupancies reported" (contracts/c19.py Drawn) run once more as a frame condition:
# same builders, same call (obstacle.draw -> MPRenderer.draw_*_obstacle -> _draw_occupancy -> draw_rectangle / circle /
# polygon), postcondition: the scenario holding the obstacle is unchanged.

from contracts.c19 import Drawn as _Drawn  # noqa: E402


class DrawObstacleReadOnly(_Drawn):
    prop = "C18"

    def __init__(self, kind, wname, symbolic_t=False):
        super().__init__(kind, wname, symbolic_t)
        self.case = "read-only operation: drawing an obstacle (%s)" % self.case
        self.describe = "every observable attribute of the scenario and of the drawn obstacle is unchanged"

    def build(self, F):
        inp = super().build(F)
        inp["snap"] = F.snapshot(inp["sc"])
        return inp

    def post(self, F, inp, out):
        from spec.approx import approx_parts

        yield ("raises nothing", out.exc is None)
        yield ("scenario unchanged",) + approx_parts(inp["snap"], inp["sc"], 0, F, path="scenario")


for _kind in ("static rectangle", "static circle", "dynamic without prediction", "dynamic with trajectory", "environment"):
    register(DrawObstacleReadOnly(_kind, None, symbolic_t=True))
for _kind in ("dynamic with set-based prediction", "phantom"):
    register(DrawObstacleReadOnly(_kind, "window over everything"))
