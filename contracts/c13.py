"""C13 -- benchmark ids print and parse consistently.

The real ScenarioID.__init__ / __str__ / from_benchmark_id / __eq__ and Solution.benchmark_id /
CommonRoadSolutionReader._parse_benchmark_id / _parse_vehicle_id are interpreted on ids whose numbers are symbolic
integers and whose country / map name (and, for solutions, vehicle and cost ids) are opaque strings of a regular
class ("atoms").  Printed ids are token strings; conformance to the grammar and what the real pattern's groups are for
EVERY string of that form is decided by automata (pyvc.reglang: inclusion and group unambiguity), so the result holds
for names and numbers of any length.  Finite choices (cooperative flag, behaviour letter, how many prediction ids,
version, vehicle model x type, cost function) are enumerated exhaustively."""
import itertools
import re

import iso3166
import z3

from commonroad.common.solution import (CommonRoadSolutionReader, CostFunction, PlanningProblemSolution, Solution,
                                        VehicleModel, VehicleType)
from commonroad.common.util import FileFormat  # noqa: F401
from commonroad.scenario.scenario import ScenarioID
from commonroad import SUPPORTED_COMMONROAD_VERSIONS
from pyvc.contract import B, Contract, T, conj, register
from pyvc.runner import summary_provider

# the CommonRoad id grammar, from the property statement / scenario documentation (not from the code)
GRAMMAR = re.compile(r"(C-)?[A-Z]{3}_[a-zA-Z0-9]+-[1-9][0-9]*(_[1-9][0-9]*(_[STPI](-[1-9][0-9]*)+)?)?")
COUNTRIES = sorted(iso3166.countries_by_alpha3)
BEHAVIOURS = ["S", "T", "P", "I"]
VERSIONS = sorted(SUPPORTED_COMMONROAD_VERSIONS)
MAPNAME = "[a-zA-Z0-9]+"


def pos_int(F, name):
    v = F.int(name)
    F.assume(T(v) >= 1)
    return v


def str_eq(F, a, b):
    """equality of two printed strings as a condition: same literal text, the very same atoms, equal numbers"""
    if F.native:
        return a == b
    from pyvc.tokstr import TokStr, Atom

    pa = a.parts if isinstance(a, TokStr) else [a]
    pb = b.parts if isinstance(b, TokStr) else [b]
    if len(pa) != len(pb):
        return False
    conds = []
    for x, y in zip(pa, pb):
        if isinstance(x, str) or isinstance(y, str):
            if not (isinstance(x, str) and isinstance(y, str) and x == y):
                return False
        elif isinstance(x, Atom) or isinstance(y, Atom):
            if x is not y:
                return False
        else:
            if x.cls != "int" or y.cls != "int":
                return False
            conds.append(T(x.value) == T(y.value))
    return conj(conds) if conds else True


def val_eq(F, a, b):
    """equality of two field values (numbers, strings, atoms, lists, None)"""
    if F.native:
        return type(a) is type(b) and a == b if not isinstance(a, (int, bool)) else (isinstance(b, int) and a == b)
    from pyvc.core import Sym
    from pyvc.tokstr import Atom

    if isinstance(a, list) or isinstance(b, list):
        if not (isinstance(a, list) and isinstance(b, list) and len(a) == len(b)):
            return False
        cs = [val_eq(F, x, y) for x, y in zip(a, b)]
        if any(c is False for c in cs):
            return False
        cs = [c for c in cs if c is not True]
        return conj(cs) if cs else True
    if type(a) is Sym or type(b) is Sym:
        if a is None or b is None or isinstance(a, (str, list)) or isinstance(b, (str, list)):
            return False
        return T(a) == T(b)
    if isinstance(a, Atom) or isinstance(b, Atom):
        return a is b
    return type(a) is type(b) and a == b


class ScenarioIdRoundTrip(Contract):
    prop = "C13"
    target = "commonroad.scenario.scenario.ScenarioID.from_benchmark_id"
    budget_s = 600

    def __init__(self, coop, country, structure, version=None):
        self.coop, self.country, self.structure, self.version = coop, country, structure, version
        self.case = "%s,%s,%s%s" % ("C" if coop else "-", country, structure, ("," + version) if version else "")

    def build(self, F):
        country = F.atom("country", domain=COUNTRIES, sample="DEU") if self.country == "iso" else ("ZAM" if self.country == "ZAM" else None)
        name = F.atom("map_name", MAPNAME, sample="Lanker7x")
        map_id = pos_int(F, "map_id")
        st = self.structure
        cfg = beh = pred = None
        if st == "map":
            pass
        elif st == "cfg":
            cfg = pos_int(F, "configuration_id")
        else:
            kind, beh, form = st.split(":")
            cfg = pos_int(F, "configuration_id") if kind == "cfg" else None
            if form == "none":
                pred = None
            elif form == "int":
                pred = pos_int(F, "prediction_id")
            else:
                pred = [pos_int(F, "prediction_id%d" % i) for i in range(int(form))]
        kw = {}
        if self.version:
            kw["scenario_version"] = self.version
        sid = F.new(ScenarioID, self.coop, country, name, map_id, cfg, beh, pred, **kw)
        return {"sid": sid, "args": [], "given": (country, name, map_id, cfg, beh, pred)}

    def invoke(self, F, inp):
        sid = inp["sid"]
        printed = F.call(str, sid)
        inp["printed"] = printed
        inp["conforms"] = F.conforms(GRAMMAR, printed)
        if not inp["conforms"]:
            return None
        try:
            parsed = F.call(ScenarioID.from_benchmark_id, printed, F.attr(sid, "scenario_version"))
        except Exception as e:
            # the real pattern matches some ids of this form and not others: the unmatched one (a replay hint) is parsed
            # into the fall-back id, which is not the id that was printed
            if type(e).__name__ == "NonUniform" and e.kind == "unmatched":
                inp["unmatched"] = e.witness
                return None
            raise
        inp["reprinted"] = F.call(str, parsed)
        return parsed

    def post(self, F, inp, out):
        yield "printing and parsing raise no exception", out.returned
        if not out.returned:
            return
        yield "the printed id conforms to the CommonRoad id grammar", inp["conforms"]
        if not inp["conforms"]:
            return
        if inp.get("unmatched") is not None:
            yield "the parsed id equals the original (==)", False
            return
        sid, parsed = inp["sid"], out.value
        yield "the parsed id equals the original (==)", B(F.method(sid, "__eq__", parsed))
        yield "the original equals the parsed id (==, other direction)", B(F.method(parsed, "__eq__", sid))
        yield "the parsed id prints identically", str_eq(F, inp["printed"], inp["reprinted"])
        for f in ("cooperative", "country_id", "map_name", "map_id", "configuration_id", "obstacle_behavior", "scenario_version"):
            yield "field %s survives" % f, val_eq(F, F.attr(sid, f), F.attr(parsed, f))
        a, b = F.attr(sid, "prediction_id"), F.attr(parsed, "prediction_id")
        la = a if isinstance(a, list) else [a]
        lb = b if isinstance(b, list) else [b]
        yield "the prediction ids survive (as a sequence)", val_eq(F, la, lb)
        # the constructor's defaults: a scenario (not a map) id always has a configuration; with a behaviour, a prediction id
        country, name, map_id, cfg, beh, pred = inp["given"]
        if self.structure != "map":
            yield "a non-map id carries a configuration id", not F.is_none(F.attr(sid, "configuration_id"))
        if beh is not None:
            yield "an id with obstacle behaviour carries a prediction id", not F.is_none(F.attr(sid, "prediction_id"))
        yield "country defaults to ZAM only when none is given", val_eq(F, F.attr(sid, "country_id"), country if country is not None else "ZAM")
        yield "the map name is stored unchanged", val_eq(F, F.attr(sid, "map_name"), name)


import os as _os

THOROUGH = _os.environ.get("VERIF_TIER") == "thorough"
STRUCTURES = ["map", "cfg"]
for _b in BEHAVIOURS:
    STRUCTURES += ["cfg:%s:%s" % (_b, f) for f in (("none", "int", "1", "2", "3") + (("4", "5", "8") if THOROUGH else ()))]
    STRUCTURES += ["nocfg:%s:%s" % (_b, f) for f in ("none", "int", "2")]

for _coop, _country, _st in itertools.product([False, True], ["iso", "ZAM"], STRUCTURES):
    register(ScenarioIdRoundTrip(_coop, _country, _st))
for _v in VERSIONS:
    register(ScenarioIdRoundTrip(True, None, "cfg:T:2", _v))
    register(ScenarioIdRoundTrip(False, "iso", "map", _v))


@register
class CountryTable(Contract):
    """lemma: every key of the ISO-3166 alpha-3 table (and ZAM) is three capital letters -- exhaustive over the table"""
    prop = "C13"
    target = "commonroad.scenario.scenario.ScenarioID.country_id"
    case = "table"
    kind = "lemma"

    def build(self, F):
        return {"args": []}

    def invoke(self, F, inp):
        return None

    def post(self, F, inp, out):
        yield "every alpha-3 key of the shipped table matches [A-Z]{3} (%d keys)" % len(COUNTRIES), all(re.fullmatch("[A-Z]{3}", c) for c in COUNTRIES + ["ZAM"])
        yield "the table is not empty", len(COUNTRIES) > 100


# ------------------------------------------------------------------------------ solutions

VEHICLE_IDS = sorted(m.name + str(t.value) for m in VehicleModel for t in VehicleType)
COST_IDS = sorted(c.name for c in CostFunction)


class VehicleId(Contract):
    """vehicle id of one (model, type) pair parses back to that pair -- one contract per pair, all pairs"""
    prop = "C13"
    target = "commonroad.common.solution.CommonRoadSolutionReader._parse_vehicle_id"

    def __init__(self, model, vtype):
        self.model, self.vtype = model, vtype
        self.case = "%s,%s" % (model.name, vtype.name)

    def build(self, F):
        pps = F.raw(PlanningProblemSolution, _vehicle_model=self.model, vehicle_type=self.vtype)
        return {"pps": pps, "args": []}

    def invoke(self, F, inp):
        vid = F.attr(inp["pps"], "vehicle_id")
        inp["vid"] = vid
        return F.call(CommonRoadSolutionReader._parse_vehicle_id, vid)

    def post(self, F, inp, out):
        yield "parsing the vehicle id raises no exception", out.returned
        if out.returned:
            yield "the vehicle id is one of the ids the framing contract assumes", inp["vid"] in VEHICLE_IDS
            yield "vehicle model and type come back", out.value[0] is self.model and out.value[1] is self.vtype


for _m, _t in itertools.product(VehicleModel, VehicleType):
    register(VehicleId(_m, _t))


class CostId(Contract):
    prop = "C13"
    target = "commonroad.common.solution.PlanningProblemSolution.cost_id"

    def __init__(self, cf):
        self.cf = cf
        self.case = cf.name

    def build(self, F):
        return {"pps": F.raw(PlanningProblemSolution, _cost_function=self.cf), "args": []}

    def invoke(self, F, inp):
        return F.attr(inp["pps"], "cost_id")

    def post(self, F, inp, out):
        yield "cost id is computed", out.returned
        if out.returned:
            yield "the cost id is one of the ids the framing contract assumes", out.value in COST_IDS
            yield "the reader's lookup CostFunction[cost id] gives the cost function back", CostFunction[out.value] is self.cf


for _c in CostFunction:
    register(CostId(_c))


@summary_provider("c13_ids")
def _ids_summary():
    """callee contracts of PlanningProblemSolution.vehicle_id / cost_id: 'returns one of the ids proved above' -- the
    framing contract gets an atom over exactly that finite set (stored on the object by the contract's builder)"""

    def vid(interp, args, kwargs):
        interp.ctx.used_models.add("callee contract used instead of body: C13 VehicleId (result is one of %d vehicle ids)" % len(VEHICLE_IDS))
        return args[0].attrs["__vid__"]

    def cid(interp, args, kwargs):
        interp.ctx.used_models.add("callee contract used instead of body: C13 CostId (result is one of %d cost ids)" % len(COST_IDS))
        return args[0].attrs["__cid__"]

    return {"commonroad.common.solution.PlanningProblemSolution.vehicle_id": vid,
            "commonroad.common.solution.PlanningProblemSolution.cost_id": cid}


class SolutionBenchmarkId(Contract):
    """'vehicles:costs:scenario:version' for k planning-problem solutions parses back"""
    prop = "C13"
    target = "commonroad.common.solution.CommonRoadSolutionReader._parse_benchmark_id"
    summaries = ("c13_ids",)
    budget_s = 600

    def __init__(self, k, coop, structure, version=None):
        self.k, self.coop, self.structure, self.version = k, coop, structure, version
        self.case = "k=%d,%s,%s%s" % (k, "C" if coop else "-", structure, ("," + version) if version else "")

    def build(self, F):
        sidc = ScenarioIdRoundTrip(self.coop, "iso", self.structure, self.version)
        sid = sidc.build(F)["sid"]
        ppss = {}
        vids, cids = [], []
        for i in range(self.k):
            v = F.atom("vehicle_id%d" % i, domain=VEHICLE_IDS, sample=VEHICLE_IDS[(7 * i + 3) % len(VEHICLE_IDS)])
            c = F.atom("cost_id%d" % i, domain=COST_IDS, sample=COST_IDS[(5 * i + 2) % len(COST_IDS)])
            vids.append(v)
            cids.append(c)
            pid = (30, 10, 20, 5, 40, 15)[i]  # deliberately not ascending: the order of the solutions is the order they were given in
            if F.native:
                ppss[pid] = _NativePPS(v, c, pid)
            else:
                ppss[pid] = F.raw(PlanningProblemSolution, __vid__=v, __cid__=c, _planning_problem_id=pid)
        sol = F.raw(Solution, scenario_id=sid, _planning_problem_solutions=ppss) if not F.native else _native_solution(sid, ppss)
        return {"sol": sol, "sid": sid, "vids": vids, "cids": cids, "args": []}

    def invoke(self, F, inp):
        bid = F.attr(inp["sol"], "benchmark_id")
        inp["bid"] = bid
        try:
            return F.call(CommonRoadSolutionReader._parse_benchmark_id, bid)
        except Exception as e:
            if type(e).__name__ == "NonUniform" and e.kind == "unmatched":
                inp["unmatched"] = e.witness
                return None
            raise

    def post(self, F, inp, out):
        yield "printing and parsing the benchmark id raises no exception", out.returned
        if not out.returned:
            return
        if inp.get("unmatched") is not None:
            yield "the scenario id comes back equal", False
            return
        v, c, sid = out.value
        yield "the vehicle ids come back in order", val_eq(F, list(v), inp["vids"])
        yield "the cost function ids come back in order", val_eq(F, list(c), inp["cids"])
        yield "the scenario id comes back equal", B(F.method(inp["sid"], "__eq__", sid))
        yield "the scenario version comes back", val_eq(F, F.attr(sid, "scenario_version"), F.attr(inp["sid"], "scenario_version"))
        yield "the parsed scenario id prints identically", str_eq(F, F.call(str, sid), F.call(str, inp["sid"]))


class _NativePPS:
    def __init__(self, v, c, pid):
        self.vehicle_id, self.cost_id, self.planning_problem_id = v, c, pid


def _native_solution(sid, ppss):
    s = Solution.__new__(Solution)
    s.scenario_id = sid
    s._planning_problem_solutions = ppss
    return s


for _k, _coop, _st in itertools.product([1, 2, 3] + ([4, 6] if THOROUGH else []), [False, True], ["map", "cfg", "cfg:T:int", "cfg:I:2", "nocfg:S:none"]):
    register(SolutionBenchmarkId(_k, _coop, _st))
for _v in VERSIONS:
    register(SolutionBenchmarkId(2, True, "cfg:P:2", _v))


class SolutionBenchmarkIdConcrete(SolutionBenchmarkId):
    """the same framing with concrete vehicle / cost ids, in particular EQUAL ids for several planning problems"""

    def __init__(self, vids, cids, coop, structure):
        self.vids_c, self.cids_c = list(vids), list(cids)
        SolutionBenchmarkId.__init__(self, len(vids), coop, structure)
        self.case = "vehicles %s, costs %s, %s, %s" % (",".join(vids), ",".join(cids), "C" if coop else "-", structure)

    def build(self, F):
        sidc = ScenarioIdRoundTrip(self.coop, "iso", self.structure, self.version)
        sid = sidc.build(F)["sid"]
        ppss = {}
        for i, (v, c) in enumerate(zip(self.vids_c, self.cids_c)):
            pid = (30, 10, 20, 5, 40, 15)[i]
            ppss[pid] = _NativePPS(v, c, pid) if F.native else F.raw(PlanningProblemSolution, __vid__=v, __cid__=c, _planning_problem_id=pid)
        sol = F.raw(Solution, scenario_id=sid, _planning_problem_solutions=ppss) if not F.native else _native_solution(sid, ppss)
        return {"sol": sol, "sid": sid, "vids": self.vids_c, "cids": self.cids_c, "args": []}


for _v, _c in ((("KS2", "KS3"), ("SM1", "SM1")), (("KS2", "KS2"), ("SM1", "JB1")), (("PM1", "PM1", "PM1"), ("JB1", "JB1", "JB1")), (("KST4", "MB1"), ("SA1", "SA1"))):
    for _coop in (False, True):
        register(SolutionBenchmarkIdConcrete(_v, _c, _coop, "cfg:T:int"))
