"""C20 -- lanelet arc-length geometry and successor-route enumeration are sound."""
import itertools
import os

import numpy as np
import z3

from commonroad.scenario.lanelet import Lanelet, LaneletNetwork
from contracts.c05 import polyline
from pyvc.contract import B, Contract, R, T, conj, disj, register
from pyvc.ops import SQRT

LQ = "commonroad.scenario.lanelet.Lanelet."
UNROLL = {LQ + "interpolate_position": 3, "commonroad.common.util.make_valid_orientation": 3}


def seg_len_sq(p, q):
    return (R(q[0]) - R(p[0])) ** 2 + (R(q[1]) - R(p[1])) ** 2


def mk_lanelet(F, n, p="", lid=1, int_vertices=False, positive=False, **kw):
    if int_vertices:
        pl = [[(F.int("%s%s%dx" % (p, k, i)), F.int("%s%s%dy" % (p, k, i))) for i in range(n)] for k in "lcr"]
        arrs = [F.array([[x, y] for x, y in pts]) for pts in pl]
        pts = pl
    else:
        (lp, la), (cp, ca), (rp, ra) = polyline(F, n, p + "l"), polyline(F, n, p + "c"), polyline(F, n, p + "r")
        pts, arrs = [lp, cp, rp], [la, ca, ra]
    # the property's quantifier: consecutive vertices are distinct (positive segment lengths)
    if positive:
        for a, b in zip(pts[1][:-1], pts[1][1:]):  # centre line: positive segment lengths
            F.assume(seg_len_sq(a, b) > 0)
    la = F.new(Lanelet, arrs[0], arrs[1], arrs[2], lid, **kw)
    return la, pts


for _n, _int in ((2, False), (3, False), (4, False), (3, True)):

    @register
    class Distance(Contract):
        prop = "C20"
        target = LQ + "distance"
        case = "n=%d%s" % (_n, ",int vertices" if _int else "")
        n, iv = _n, _int
        describe = "cumulative centre-line distance: starts at 0, d[i] = d[i-1] + |c[i]-c[i-1]|, non-decreasing, ends at the centre-line length"

        def build(self, F):
            la, pts = mk_lanelet(F, self.n, int_vertices=self.iv)
            return {"la": la, "c": pts[1], "args": []}

        def invoke(self, F, inp):
            return F.attr(inp["la"], "distance")

        def post(self, F, inp, out):
            yield ("raises nothing", out.exc is None)
            if out.exc is None:
                d = F.elems(out.value)
                c = inp["c"]
                yield ("one entry per vertex, d[0] == 0", z3.And(len(d) == self.n, R(d[0]) == 0))
                conds = []
                for i in range(1, self.n):
                    step = R(d[i]) - R(d[i - 1])
                    conds.append(z3.And(step >= 0, step * step == seg_len_sq(c[i - 1], c[i])))
                yield ("d[i] - d[i-1] is the length of segment i (so the sequence is non-decreasing and ends at the centre-line length)", conj(conds))


for _n in ((2, 3) if os.environ.get("VERIF_TIER") == "thorough" else (2,)):

    @register
    class Interpolate(Contract):
        prop = "C20"
        target = LQ + "interpolate_position"
        case = "n=%d" % _n
        n = _n
        unroll = UNROLL
        describe = "for 0 <= s <= length: the centre-line point at arc length s and the points at the same segment parameter on both boundaries"

        def build(self, F):
            la, pts = mk_lanelet(F, self.n, positive=True)
            s = F.real("s")
            return {"la": la, "pts": pts, "s": s, "args": [la, s]}

        def post(self, F, inp, out):
            la, s = inp["la"], R(inp["s"])
            d = [R(x) for x in F.elems(F.attr(la, "distance"))]
            admissible = z3.And(s >= 0, s <= d[-1])
            yield ("admissible arc length accepted, others rejected with AssertionError",
                   z3.And(z3.Implies(admissible, out.exc is None), z3.Implies(z3.Not(admissible), out.raised(AssertionError))))
            if out.exc is None:
                pc, pr, pl, idx = F.items(out.value)
                k = int(idx)
                yield ("segment index in range", 0 <= k <= self.n - 2)
                if 0 <= k <= self.n - 2:
                    yield ("d[idx] <= s <= d[idx+1]", z3.And(d[k] <= s, s <= d[k + 1]))
                    r = (s - d[k]) / (d[k + 1] - d[k])
                    yield ("segment parameter in [0, 1]", z3.And(r >= 0, r <= 1))
                    lp, cp, rp = inp["pts"]
                    conds = []
                    for got, poly in ((pc, cp), (pr, rp), (pl, lp)):
                        g = F.elems(got)
                        for j in (0, 1):
                            conds.append(R(g[j]) == (1 - r) * R(poly[k][j]) + r * R(poly[k + 1][j]))
                    yield ("centre, right and left points are the convex combinations with the same parameter", conj(conds))
                    yield ("at s == d[j] the centre point is vertex j", conj(z3.Implies(s == d[j], z3.And(R(F.elems(pc)[0]) == R(cp[j][0]), R(F.elems(pc)[1]) == R(cp[j][1])))
                                                                              for j in range(self.n)))


for _link in ("both lists", "only successor's predecessor list", "only predecessor's successor list", "arguments swapped"):

    @register
    class Merge(Contract):
        prop = "C20"
        target = LQ + "merge_lanelets"
        case = _link
        link = _link
        describe = "successor starting where the predecessor ends: boundaries are the concatenation with the joint vertex once; length is the sum"

        def build(self, F):
            a_id, b_id = 3001, 3002
            kw_a = {"successor": [int(str(b_id))]} if self.link != "only successor's predecessor list" else {}
            kw_b = {"predecessor": [int(str(a_id))]} if self.link != "only predecessor's successor list" else {}
            a, pa = mk_lanelet(F, 2, "a_", a_id, **kw_a)
            b, pb = mk_lanelet(F, 2, "b_", b_id, **kw_b)
            # b starts where a ends (all three polylines)
            for k in range(3):
                F.assume(z3.And(R(pb[k][0][0]) == R(pa[k][1][0]), R(pb[k][0][1]) == R(pa[k][1][1])))
            args = [a, b] if self.link != "arguments swapped" else [b, a]
            return {"a": a, "b": b, "pa": pa, "pb": pb, "args": args}

        def invoke(self, F, inp):
            return F.call_target(self.target, inp["args"], {})

        def post(self, F, inp, out):
            yield ("raises nothing", out.exc is None)
            if out.exc is None:
                m = out.value
                pa, pb = inp["pa"], inp["pb"]
                conds = []
                for k, name in enumerate(("left_vertices", "center_vertices", "right_vertices")):
                    v = F.elems(F.attr(m, name))
                    exp = [pa[k][0], pa[k][1], pb[k][1]]
                    conds.append(z3.BoolVal(len(v) == 6))
                    if len(v) == 6:
                        conds += [z3.And(R(v[2 * i]) == R(e[0]), R(v[2 * i + 1]) == R(e[1])) for i, e in enumerate(exp)]
                yield ("boundaries and centre line are the concatenation, joint vertex kept once", conj(conds))
                dm = [R(x) for x in F.elems(F.attr(m, "distance"))]
                da = [R(x) for x in F.elems(F.attr(inp["a"], "distance"))]
                db = [R(x) for x in F.elems(F.attr(inp["b"], "distance"))]
                yield ("length of the merged lanelet is the sum of the parts", dm[-1] == da[-1] + db[-1])


# ------------------------------------------------------------------------------ routes


def graphs(n):
    nodes = list(range(n))
    edges = [(i, j) for i in nodes for j in nodes if i != j]
    for mask in range(1 << len(edges)):
        yield [e for b, e in enumerate(edges) if mask >> b & 1]


def canonical_graphs(n):
    """graphs on n nodes up to relabelling of the non-start nodes (node 0 is the start lanelet)"""
    seen = set()
    for g in graphs(n):
        best = None
        for perm in itertools.permutations(range(1, n)):
            m = {0: 0}
            m.update({old: new for old, new in zip(range(1, n), perm)})
            key = tuple(sorted((m[a], m[b]) for a, b in g))
            if best is None or key < best:
                best = key
        if best not in seen:
            seen.add(best)
            yield list(best)


EXTRA_4 = [
    [(0, 1), (1, 2), (2, 3), (3, 0)],             # 4-cycle through the start
    [(0, 1), (0, 2), (1, 3), (2, 3)],             # diamond (branch + merge)
    [(0, 1), (1, 2), (2, 1), (2, 3)],             # inner cycle
    [(0, 1), (1, 2), (1, 3), (3, 1), (2, 3)],     # branching with back edge
    [(0, 1), (0, 2), (0, 3), (1, 0), (2, 0)],     # star with returns to the start
    [(0, 1), (1, 2), (2, 3), (3, 1)],             # tail into a cycle not containing the start
]


def all_graphs():
    out = [(3, g) for g in canonical_graphs(3)]
    out += [(2, g) for g in canonical_graphs(2)]
    out += [(4, g) for g in EXTRA_4]
    if os.environ.get("VERIF_TIER") == "thorough":
        out += [(4, g) for g in canonical_graphs(4)][:400]
    return out


for _dir in ("successors", "predecessors"):
    for _gi, (_n, _g) in enumerate(all_graphs()):

        @register
        class Routes(Contract):
            prop = "C20"
            target = LQ + "find_lanelet_%s_in_range" % _dir
            case = "graph %d on %d lanelets: %s" % (_gi, _n, _g)
            n, g, direction = _n, _g, _dir
            describe = "terminates; paths are loop-free chains of links starting at a direct neighbour, avoiding the start, covering every direct neighbour, extended only while the accumulated length is below the range"

            def build(self, F):
                ids = [3001 + i for i in range(self.n)]
                lens = [F.real("len%d" % i) for i in range(self.n)]
                for x in lens:
                    F.assume(R(x) > 0)
                mx = F.real("max_length")
                net = F.new(LaneletNetwork)
                g = self.g if self.direction == "successors" else [(b, a) for a, b in self.g]
                for i in range(self.n):
                    succ = [int(str(ids[b])) for a, b in g if a == i]  # fresh int objects, as ids parsed from a file
                    y = float(2 * i)
                    kw = {"successor": succ} if self.direction == "successors" else {"predecessor": succ}
                    la = F.new(Lanelet, np.array([[0.0, y + 1], [1.0, y + 1]]), np.array([[0.0, y + 0.5], [1.0, y + 0.5]]), np.array([[0.0, y], [1.0, y]]),
                               int(str(ids[i])), **kw)
                    F.setattr(la, "distance", F.array([0.0, lens[i]]))  # lanelet length as a free symbol
                    F.method(net, "add_lanelet", la)
                start = F.method(net, "find_lanelet_by_id", ids[0])
                return {"ids": ids, "lens": lens, "mx": mx, "g": g, "args": [start, net, mx]}

            def post(self, F, inp, out):
                yield ("terminates without an exception", out.exc is None)
                if out.exc is None:
                    ids, lens, mx, g = inp["ids"], inp["lens"], R(inp["mx"]), inp["g"]
                    idx = {v: i for i, v in enumerate(ids)}
                    paths = [[idx[int(x)] for x in p] for p in F.items(out.value)]
                    direct = [b for a, b in g if a == 0]
                    ok_links = all((p[i], p[i + 1]) in g for p in paths for i in range(len(p) - 1))
                    yield ("every path is a chain of links", ok_links)
                    yield ("loop-free and never through the start lanelet", all(len(set(p)) == len(p) and 0 not in p for p in paths))
                    yield ("every path starts at a direct neighbour; every direct neighbour starts a path", all(p[0] in direct for p in paths) and all(any(p[0] == d for p in paths) for d in direct if d != 0))
                    conds = []
                    for p in paths:
                        acc = z3.RealVal(0)
                        for i in range(len(p) - 1):
                            acc = acc + R(lens[p[i]])
                            conds.append(acc < mx)
                    yield ("a path is extended only while its accumulated length is below the range", conj(conds))
