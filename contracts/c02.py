"""C02 -- protobuf write -> read is lossless.
The real ProtobufFileWriter (all XxxMessage.create_message builders) and ProtobufFileReader (all XxxFactory.create_from_message)
are executed symbolically back to back on descriptor-driven message trees (pyvc.pbmodel); the content groups and the symbolic
scenario builders are those of C01, the comparison is the same structural equality with tolerance 0 (doubles are stored
as 64-bit values, so every real must come back as the same real)."""
import z3

from commonroad.common.file_reader import CommonRoadFileReader
from commonroad.common.file_writer import CommonRoadFileWriter
from commonroad.common.util import FileFormat
from commonroad.common.writer.file_writer_interface import OverwriteExistingFile
from commonroad.planning.planning_problem import PlanningProblemSet
from pyvc.contract import B, Contract, R, T, conj, register
from spec.approx import approx_parts
from commonroad.scenario.scenario import Weather
from commonroad.scenario_definition.protobuf_format.generated_scripts import location_pb2
from contracts.c01 import CONTENTS, mk_planning_problems, mk_scenario

# the property is restricted to enumeration members the shipped .proto files define (HEAVY_RAIN, MID_RAIN, CLEAR, CLOUDY are not)
WEATHER = [w for w in Weather if w.name in location_pb2.WeatherEnum.Weather.keys()][-1]


class PbRoundTrip(Contract):
    prop = "C02"
    unroll = {"commonroad.common.util.make_valid_orientation": 3, "commonroad.common.util.make_valid_orientation_interval": 3}
    summaries = ("make_valid_orientation",)
    budget_s = 600


for _cname in CONTENTS:

    @register
    class WholeFile(PbRoundTrip):
        target = "commonroad.common.file_writer.CommonRoadFileWriter.write_to_file"
        case = "protobuf, %s" % _cname
        content = CONTENTS[_cname]
        describe = "write_to_file(PROTOBUF) then CommonRoadFileReader.open: same content as C01, reals identical"

        def build(self, F):
            sc = mk_scenario(F, self.content, weather=WEATHER)
            pps = mk_planning_problems(F) if not self.content else F.new(PlanningProblemSet)
            return {"sc": sc, "pps": pps, "args": []}

        def invoke(self, F, inp):
            if F.native:
                import os
                from pyvc.contract import scratch_dir

                path = os.path.join(scratch_dir("c02_"), "out.pb")
            else:
                path = "/nonexistent-dir/verif_c02_%d.pb" % len(self.content)
            w = F.new(CommonRoadFileWriter, inp["sc"], inp["pps"], file_format=FileFormat.PROTOBUF)
            F.method(w, "write_to_file", path, OverwriteExistingFile.ALWAYS)
            r = F.new(CommonRoadFileReader, path)
            return F.method(r, "open")

        def post(self, F, inp, out):
            yield ("writing and reading raise nothing", out.exc is None)
            if out.exc is None:
                sc2, pps2 = F.items(out.value)
                tol = 0
                yield ("planning problems reproduced",) + approx_parts(inp["pps"], pps2, tol, F, path="planning_problem_set")
                net1, net2 = F.attr(inp["sc"], "lanelet_network"), F.attr(sc2, "lanelet_network")
                # the colour list of a light is re-derived from its cycle by the reader; first occurrences are a separate obligation
                yield ("lanelet network reproduced",) + approx_parts(net1, net2, tol, F, ignore=("_first_occurrence", "_color"), path="lanelet_network")
                signs1, signs2 = F.items(F.attr(net1, "traffic_signs")), F.items(F.attr(net2, "traffic_signs"))
                if signs1:
                    yield ("traffic sign first occurrences reproduced", len(signs1) == len(signs2) and all(
                        F.attr(a, "first_occurrence") == F.attr(b, "first_occurrence") for a, b in zip(signs1, signs2)))
                for role in ("static_obstacles", "dynamic_obstacles", "phantom_obstacle", "environment_obstacle"):
                    yield ("%s reproduced" % role,) + approx_parts(F.items(F.attr(inp["sc"], role)), F.items(F.attr(sc2, role)), tol, F, path=role)
                for k in ("dt", "scenario_id", "author", "tags", "affiliation", "source", "location"):
                    yield ("scenario %s reproduced" % k,) + approx_parts(F.attr(inp["sc"], k), F.attr(sc2, k), tol, F, path=k)
