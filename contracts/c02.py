"""C02 -- protobuf write -> read is lossless.
The real ProtobufFileWriter (all XxxMessage.create_message builders) and ProtobufFileReader (all XxxFactory.create_from_message)
are executed symbolically back to back on descriptor-driven message trees (pyvc.pbmodel); the content groups and the symbolic
scenario builders are those of C01, the comparison is the same structural equality with tolerance 0 (doubles are stored
as 64-bit values, so every real must come back as the same real)."""
import z3

from commonroad.common.file_reader import CommonRoadFileReader
from commonroad.common.file_writer import CommonRoadFileWriter
from commonroad.common.util import FileFormat
from commonroad.common.writer.file_writer_interface import OverwriteExistingFile
from commonroad.planning.planning_problem import PlanningProblemSet
from pyvc.contract import B, Contract, R, T, conj, register
from spec.approx import approx_parts
from commonroad.scenario.scenario import Weather
from commonroad.scenario_definition.protobuf_format.generated_scripts import location_pb2
from contracts.c01 import CONTENTS, mk_planning_problems, mk_scenario

# the property is restricted to enumeration members the shipped .proto files define (HEAVY_RAIN, MID_RAIN, CLEAR, CLOUDY are not)
WEATHER = [w for w in Weather if w.name in location_pb2.WeatherEnum.Weather.keys()][-1]


def fits_int32(F):
    """precondition: every integer of the scenario fits the format's 32-bit fields"""
    if F.native:
        return
    import numpy as np

    for name, (c, ty) in list(F.ctx.inputs.items()):
        if ty is int or ty is np.int64:
            F.assume(z3.And(c >= 0, c <= 2 ** 31 - 1))


def mk_defaults(F, zero="lanelet"):
    """every object through its public constructor with default arguments; the id 0 is used once (ids are unique per scenario):
    by a lanelet that is a neighbour / predecessor / successor (zero='lanelet') or by an intersection incoming that another
    incoming's left_of refers to (zero='incoming')"""
    z = 0 if zero == "lanelet" else 4
    import numpy as np

    import commonroad.scenario.state as st
    from commonroad.common.util import Interval
    from commonroad.geometry.shape import Circle, Rectangle
    from commonroad.planning.goal import GoalRegion
    from commonroad.planning.planning_problem import PlanningProblem
    from commonroad.scenario.lanelet import Lanelet
    from commonroad.scenario.obstacle import DynamicObstacle, EnvironmentObstacle, ObstacleType, PhantomObstacle, StaticObstacle
    from commonroad.scenario.scenario import Location, Scenario, ScenarioID
    from commonroad.scenario.traffic_light import TrafficLight
    from commonroad.scenario.traffic_sign import TrafficSign, TrafficSignElement, TrafficSignIDZamunda
    from contracts.c01 import ang, poly2, pos, positive

    sc = F.new(Scenario, positive(F, "dt"), F.new(ScenarioID), "author", set(), "affiliation", "source", F.new(Location))
    left, right = poly2(F, "dl"), poly2(F, "dr")
    center = 0.5 * (left + right) if F.native else F.interp.binop(__import__("ast").Mult, 0.5, F.interp.binop(__import__("ast").Add, left, right))
    F.method(sc, "add_objects", F.new(Lanelet, left, center, right, 1))
    # the id 0 is a valid id: a neighbour / successor with id 0 is a neighbour, not 'no neighbour'
    cv = lambda y: (np.array([[10.0, y + 1.0], [20.0, y + 1.25]]), np.array([[10.0, y + 0.5], [20.0, y + 0.75]]), np.array([[10.0, y], [20.0, y + 0.25]]))
    F.method(sc, "add_objects", F.new(Lanelet, *cv(3.0), z, [], [], 7, True, None, None))
    F.method(sc, "add_objects", F.new(Lanelet, *cv(5.0), 7, [z], [z], z, False, z, True))
    F.method(sc, "add_objects", F.new(TrafficSign, 5, [TrafficSignElement(TrafficSignIDZamunda.MAX_SPEED, ["10"])], set(), pos(F, "dsign_p")), set())
    # an intersection whose incoming 0 is referred to by left_of (0 is an id, not 'none')
    from commonroad.scenario.intersection import Intersection, IntersectionIncomingElement

    i0 = 0 if zero == "incoming" else 3
    inc0 = F.new(IntersectionIncomingElement, i0, {1}, {7}, set(), set(), None)
    inc8 = F.new(IntersectionIncomingElement, 8, {7}, set(), set(), {1}, i0)
    F.method(sc, "add_objects", F.new(Intersection, 9, [inc0, inc8], set()))
    light = F.new(TrafficLight, 6, pos(F, "dlight_p"))
    F.setattr(light, "active", True)  # a light without cycle switched on through the public setter
    F.method(sc, "add_objects", light, set())
    mini = lambda p: F.new(st.InitialState, time_step=0, position=pos(F, p + "p"), orientation=ang(F, p + "o"), velocity=F.real(p + "v"))
    F.method(sc, "add_objects", [
        F.new(StaticObstacle, 10, ObstacleType.PARKED_VEHICLE, F.new(Rectangle, positive(F, "ds_l"), positive(F, "ds_w")), mini("ds_i_")),
        F.new(DynamicObstacle, 11, ObstacleType.CAR, F.new(Circle, positive(F, "dd_r")), mini("dd_i_")),
        F.new(PhantomObstacle, 12),
        F.new(EnvironmentObstacle, 13, ObstacleType.BUILDING, F.new(Rectangle, positive(F, "de_l"), positive(F, "de_w"))),
    ])
    t0, t1 = F.int("dg_t0"), F.int("dg_t1")
    F.assume(z3.And(T(t0) >= 0, T(t0) <= T(t1)))
    goal = F.new(GoalRegion, [F.new(st.CustomState, time_step=F.new(Interval, t0, t1))])
    ppi = F.new(st.InitialState, time_step=0, position=pos(F, "dpp_p"), orientation=ang(F, "dpp_o"), velocity=F.real("dpp_v"), yaw_rate=F.real("dpp_yaw"), slip_angle=F.real("dpp_slip"))
    pps = F.new(PlanningProblemSet, [F.new(PlanningProblem, 500, ppi, goal)])
    return sc, pps


class PbRoundTrip(Contract):
    prop = "C02"
    unroll = {"commonroad.common.util.make_valid_orientation": 3, "commonroad.common.util.make_valid_orientation_interval": 3}
    summaries = ("make_valid_orientation",)
    budget_s = 1800


for _cname in list(CONTENTS) + ["objects built with default arguments", "objects built with default arguments, incoming with id 0"]:

    @register
    class WholeFile(PbRoundTrip):
        target = "commonroad.common.file_writer.CommonRoadFileWriter.write_to_file"
        case = "protobuf, %s" % _cname
        content = CONTENTS.get(_cname)
        describe = "write_to_file(PROTOBUF) then CommonRoadFileReader.open: same content as C01, reals identical"

        def build(self, F):
            if self.content is None:
                sc, pps = mk_defaults(F, "incoming" if "incoming with id 0" in self.case else "lanelet")
            else:
                sc = mk_scenario(F, self.content, weather=WEATHER)
                if "goal_lanelets" in self.content:
                    pps = mk_planning_problems(F, F.attr(sc, "lanelet_network"))
                else:
                    pps = mk_planning_problems(F) if not self.content else F.new(PlanningProblemSet)
            fits_int32(F)
            return {"sc": sc, "pps": pps, "args": []}

        def invoke(self, F, inp):
            if F.native:
                import os
                from pyvc.contract import scratch_dir

                path = os.path.join(scratch_dir("c02_"), "out.pb")
            else:
                path = "/nonexistent-dir/verif_c02_%d.pb" % len(self.content or "d")
            w = F.new(CommonRoadFileWriter, inp["sc"], inp["pps"], file_format=FileFormat.PROTOBUF)
            F.method(w, "write_to_file", path, OverwriteExistingFile.ALWAYS)
            r = F.new(CommonRoadFileReader, path)
            return F.method(r, "open")

        def post(self, F, inp, out):
            yield ("writing and reading raise nothing", out.exc is None)
            if out.exc is None:
                sc2, pps2 = F.items(out.value)
                tol = 0
                yield ("planning problems reproduced",) + approx_parts(inp["pps"], pps2, tol, F, path="planning_problem_set")
                net1, net2 = F.attr(inp["sc"], "lanelet_network"), F.attr(sc2, "lanelet_network")
                # the colour list of a light is re-derived from its cycle by the reader; first occurrences are a separate obligation
                yield ("lanelet network reproduced",) + approx_parts(net1, net2, tol, F, ignore=("_first_occurrence", "_color"), path="lanelet_network")
                signs1, signs2 = F.items(F.attr(net1, "traffic_signs")), F.items(F.attr(net2, "traffic_signs"))
                if signs1:
                    yield ("traffic sign first occurrences reproduced", len(signs1) == len(signs2) and all(
                        F.attr(a, "first_occurrence") == F.attr(b, "first_occurrence") for a, b in zip(signs1, signs2)))
                for role in ("static_obstacles", "dynamic_obstacles", "phantom_obstacle", "environment_obstacle"):
                    yield ("%s reproduced" % role,) + approx_parts(F.items(F.attr(inp["sc"], role)), F.items(F.attr(sc2, role)), tol, F, path=role)
                for k in ("dt", "scenario_id", "author", "tags", "affiliation", "source", "location"):
                    yield ("scenario %s reproduced" % k,) + approx_parts(F.attr(inp["sc"], k), F.attr(sc2, k), tol, F, path=k)


from contracts.c01 import mk_trajectory_scenario, state_classes as _state_classes  # noqa: E402


for _cls in _state_classes():

    @register
    class TrajectoryStates(PbRoundTrip):
        target = "commonroad.common.file_writer.CommonRoadFileWriter.write_to_file"
        case = "protobuf, trajectory of %s" % _cls.__name__
        cls = _cls
        describe = "dynamic obstacle whose trajectory states are of this class: the reader picks the same class and every value is identical"

        def build(self, F):
            sc = mk_trajectory_scenario(F, self.cls)
            fits_int32(F)
            return {"sc": sc, "pps": F.new(PlanningProblemSet), "args": []}

        content = ("dynamic",)
        invoke = WholeFile.invoke
        post = WholeFile.post


@register
class ShapeGroupObstaclePb(PbRoundTrip):
    target = "commonroad.common.file_writer.CommonRoadFileWriter.write_to_file"
    case = "protobuf, obstacle with a shape group (rectangle + circle)"
    content = ("dynamic",)
    describe = "a ShapeGroup obstacle shape is written member by member and read back as the same group"

    def build(self, F):
        import commonroad.scenario.state as st

        sc = mk_trajectory_scenario(F, st.KSState, "group")
        fits_int32(F)
        return {"sc": sc, "pps": F.new(PlanningProblemSet), "args": []}

    invoke = WholeFile.invoke
    post = WholeFile.post


@register
class IntervalStatesPb(PbRoundTrip):
    target = "commonroad.common.file_writer.CommonRoadFileWriter.write_to_file"
    case = "protobuf, trajectory states with interval-valued and region-valued attributes"
    content = ("dynamic",)
    describe = "exact / interval / region valued attributes of trajectory states keep their kind and their values"

    def build(self, F):
        from contracts.c01 import IntervalStatesXml

        inp = IntervalStatesXml.build(self, F)
        fits_int32(F)
        return inp

    invoke = WholeFile.invoke
    post = WholeFile.post


for _fmt in ("PROTOBUF", "XML"):

    @register
    class WriterArguments(PbRoundTrip):
        prop = "C02" if _fmt == "PROTOBUF" else "C01"
        target = "commonroad.common.file_writer.CommonRoadFileWriter.__init__"
        case = "%s: author, affiliation, source, tags and location given to the writer" % _fmt
        fmt = _fmt
        summaries = ("make_valid_orientation", "float_to_str")
        describe = "meta data passed to the writer (not the scenario's own) is what the file carries"

        def build(self, F):
            from commonroad.scenario.scenario import GeoTransformation, Location, Scenario, ScenarioID, Tag
            from contracts.c01 import positive

            sc = F.new(Scenario, positive(F, "dt"), F.new(ScenarioID), "scenario author", {Tag.URBAN}, "scenario affiliation", "scenario source", F.new(Location))
            bare = F.new(Scenario, positive(F, "dt2"))
            loc = F.new(Location, 123, F.real("lat"), F.real("lon"))
            return {"sc": sc, "bare": bare, "loc": loc, "pps": F.new(PlanningProblemSet), "args": []}

        def invoke(self, F, inp):
            import os

            from commonroad.scenario.scenario import Tag
            from pyvc.contract import scratch_dir

            fmt = FileFormat[self.fmt]
            out = []
            for k, sc in enumerate((inp["sc"], inp["bare"])):
                path = os.path.join(scratch_dir("c02w_"), "w%d%s" % (k, fmt.value)) if F.native else "/nonexistent-dir/c02_writer_args_%d%s" % (k, fmt.value)
                w = F.new(CommonRoadFileWriter, sc, inp["pps"], "writer author", "writer affiliation", "writer source", {Tag.HIGHWAY, Tag.COMFORT}, inp["loc"], file_format=fmt)
                F.method(w, "write_to_file", path, OverwriteExistingFile.ALWAYS)
                out.append(F.items(F.method(F.new(CommonRoadFileReader, path), "open"))[0])
            return out

        def post(self, F, inp, out):
            from commonroad.scenario.scenario import Tag

            yield ("writing and reading raise nothing (also for a scenario that has no meta data of its own)", out.exc is None)
            if out.exc is None:
                tol = 0 if self.fmt == "PROTOBUF" else z3.Q(1, 10 ** 4)
                for k, sc2 in enumerate(out.value):
                    yield ("file %d carries the writer's author, affiliation and source" % k, (F.attr(sc2, "author"), F.attr(sc2, "affiliation"), F.attr(sc2, "source")) ==
                           ("writer author", "writer affiliation", "writer source"))
                    yield ("file %d carries the writer's tags" % k, set(F.keys(F.attr(sc2, "tags"))) == {Tag.HIGHWAY, Tag.COMFORT})
                    yield ("file %d carries the writer's location" % k,) + approx_parts(inp["loc"], F.attr(sc2, "location"), tol, F, path="location")
