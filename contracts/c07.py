"""C07 -- obstacle-lanelet assignment is geometrically correct and invertible.
The geometric predicates (point in lanelet polygon, shape intersects lanelet polygon) are the abstract shapely
predicates of the model; their geometric truth is property C06.  Geometry fact assumed: a lanelet containing the
centre of a shape is intersected by the shape."""
import numpy as np
import z3

import commonroad.scenario.state as st
import contracts.c16  # noqa: F401
from commonroad.geometry.shape import Circle, Rectangle
from commonroad.prediction.prediction import TrajectoryPrediction
from commonroad.scenario.lanelet import Lanelet, LaneletNetwork
from commonroad.scenario.obstacle import DynamicObstacle, ObstacleType, StaticObstacle
from commonroad.scenario.scenario import Scenario
from commonroad.scenario.trajectory import Trajectory
import contracts.c01  # noqa: F401  (float_to_str summary provider)
from contracts.c05 import MVO
from contracts.c05b import local_rect, mk_initial_state, mk_ks_state
from pyvc.contract import B, Contract, R, T, conj, disj, register

SQ = "commonroad.scenario.scenario.Scenario."
LIDS = (1, 2)


def lanelet(F, lid, y):
    return F.new(Lanelet, np.array([[0.0, y + 1], [10.0, y + 1]]), np.array([[0.0, y + 0.5], [10.0, y + 0.5]]), np.array([[0.0, y], [10.0, y]]), lid)


def base_scenario(F, lids=LIDS):
    sc = F.new(Scenario, 0.1)
    net = F.new(LaneletNetwork)
    las = {lid: lanelet(F, lid, float(lid - 1)) for lid in lids}
    for la in las.values():
        F.method(net, "add_lanelet", la)
    F.method(sc, "add_objects", net)
    return sc, net, las


def center_in(F, la, pos):
    import shapely.geometry

    poly = F.attr(F.attr(la, "polygon"), "shapely_object")
    if F.native:
        return poly.intersects(shapely.geometry.Point(pos))
    from pyvc.shapely_model import make_point

    return B(F.method(poly, "intersects", make_point(F.interp, [pos], {})))


def hits(F, la, shape):
    poly = F.attr(F.attr(la, "polygon"), "shapely_object")
    return B(F.method(poly, "intersects", F.attr(shape, "shapely_object")))


def members(F, s):
    return set() if s is None else set(F.keys(s))


class AssignContract(Contract):
    prop = "C07"
    unroll = MVO
    summaries = ("make_valid_orientation",)


for _shape in ("Rectangle", "Circle"):

    @register
    class AssignStatic(AssignContract):
        target = SQ + "assign_obstacles_to_lanelets"
        case = "static obstacle, %s" % _shape
        shape_kind = _shape
        describe = "centre set == lanelets containing the centre; shape set == lanelets the occupancy intersects; lanelet registry is the inverse of the shape assignment; removal never fails"

        def build(self, F):
            sc, net, las = base_scenario(F)
            sh = local_rect(F, "sh_") if self.shape_kind == "Rectangle" else F.new(Circle, F.real("radius"))
            if self.shape_kind == "Circle":
                F.assume(R(F.attr(sh, "radius")) > 0)
            init = mk_initial_state(F, "init_", 0)
            obs = F.new(StaticObstacle, 10, ObstacleType.PARKED_VEHICLE, sh, init)
            F.method(sc, "add_objects", obs)
            return {"sc": sc, "las": las, "obs": obs, "init": init, "args": [sc]}

        def invoke(self, F, inp):
            F.method(inp["sc"], "assign_obstacles_to_lanelets")
            inp["center"] = members(F, F.attr(inp["obs"], "initial_center_lanelet_ids"))
            inp["shape"] = members(F, F.attr(inp["obs"], "initial_shape_lanelet_ids"))
            inp["registry"] = {lid: 10 in members(F, F.attr(la, "static_obstacles_on_lanelet")) for lid, la in inp["las"].items()}
            rem = F.attempt(lambda: F.method(inp["sc"], "remove_obstacle", inp["obs"]))
            inp["registry_after"] = {lid: 10 in members(F, F.attr(la, "static_obstacles_on_lanelet")) for lid, la in inp["las"].items()}
            return rem

        def post(self, F, inp, out):
            yield ("assignment raises nothing", out.exc is None)
            if out.exc is None:
                occ = F.method(inp["obs"], "occupancy_at_time", 0)
                pos = F.attr(inp["init"], "position")
                for lid, la in inp["las"].items():
                    c, h = center_in(F, la, pos), hits(F, la, F.attr(occ, "shape"))
                    F.assume(z3.Implies(c, h))  # geometry: a lanelet containing the centre is intersected by the shape
                    yield ("lanelet %d in the centre set <=> it contains the centre" % lid, z3.BoolVal(lid in inp["center"]) == c)
                    yield ("lanelet %d in the shape set <=> the occupancy intersects it" % lid, z3.BoolVal(lid in inp["shape"]) == h)
                    yield ("lanelet %d registers the obstacle <=> it is in the shape set" % lid, inp["registry"][lid] == (lid in inp["shape"]))
                yield ("removing the obstacle never fails", out.value.exc is None)
                yield ("after removal no lanelet registers the obstacle", not any(inp["registry_after"].values()))


@register
class AssignDynamic(AssignContract):
    target = SQ + "assign_obstacles_to_lanelets"
    case = "dynamic obstacle with a 1-state trajectory prediction"
    describe = "for every time step of the horizon: centre / shape sets are the geometric truth, per-time-step registry is the inverse of the shape assignment; removal never fails"
    budget_s = 1200

    def build(self, F):
        import os

        # quick tier: one lanelet (every predicate valuation over two time steps); thorough tier: two lanelets
        sc, net, las = base_scenario(F, LIDS if os.environ.get("VERIF_TIER") == "thorough" else (1,))
        sh = local_rect(F, "sh_")
        init = mk_initial_state(F, "init_", 0)
        states = [mk_ks_state(F, "s%d_" % i, i + 1) for i in range(1)]
        pred = F.new(TrajectoryPrediction, F.new(Trajectory, 1, states), sh)
        obs = F.new(DynamicObstacle, 11, ObstacleType.CAR, sh, init, pred)
        F.method(sc, "add_objects", obs)
        # geometry: a lanelet that contains the centre of the occupancy is intersected by it (prunes impossible combinations)
        for t, s in enumerate([init] + states):
            occ = F.method(obs, "occupancy_at_time", t)
            for la in las.values():
                F.assume(z3.Implies(center_in(F, la, F.attr(s, "position")), hits(F, la, F.attr(occ, "shape"))))
        return {"sc": sc, "las": las, "obs": obs, "states": [init] + states, "args": [sc]}

    def invoke(self, F, inp):
        F.method(inp["sc"], "assign_obstacles_to_lanelets")
        pred = F.attr(inp["obs"], "prediction")
        inp["center"] = {t: members(F, F.attr(pred, "center_lanelet_assignment").get(t)) for t in (0, 1)}
        inp["shape"] = {t: members(F, F.attr(pred, "shape_lanelet_assignment").get(t)) for t in (0, 1)}
        inp["init_center"] = members(F, F.attr(inp["obs"], "initial_center_lanelet_ids"))
        inp["init_shape"] = members(F, F.attr(inp["obs"], "initial_shape_lanelet_ids"))
        inp["registry"] = {(lid, t): 11 in members(F, F.attr(la, "dynamic_obstacles_on_lanelet").get(t)) for lid, la in inp["las"].items() for t in (0, 1)}
        rem = F.attempt(lambda: F.method(inp["sc"], "remove_obstacle", inp["obs"]))
        inp["registry_after"] = {(lid, t): 11 in members(F, F.attr(la, "dynamic_obstacles_on_lanelet").get(t)) for lid, la in inp["las"].items() for t in (0, 1)}
        return rem

    def post(self, F, inp, out):
        yield ("assignment raises nothing", out.exc is None)
        if out.exc is None:
            for t, s in enumerate(inp["states"]):
                occ = F.method(inp["obs"], "occupancy_at_time", t) if not F.native or out.value.exc is None else None
                for lid, la in inp["las"].items():
                    c = center_in(F, la, F.attr(s, "position"))
                    yield ("t=%d: lanelet %d in the centre set <=> it contains the centre" % (t, lid), z3.BoolVal(lid in inp["center"][t]) == c)
                    if occ is not None:
                        h = hits(F, la, F.attr(occ, "shape"))
                        yield ("t=%d: lanelet %d in the shape set <=> the occupancy intersects it" % (t, lid), z3.BoolVal(lid in inp["shape"][t]) == h)
                    yield ("t=%d: lanelet %d registers the obstacle <=> it is in the shape set" % (t, lid), inp["registry"][(lid, t)] == (lid in inp["shape"][t]))
            yield ("initial ids are those of the initial time step", inp["init_center"] == inp["center"][0] and inp["init_shape"] == inp["shape"][0])
            yield ("removing the obstacle never fails", out.value.exc is None)
            yield ("after removal no lanelet registers the obstacle at any time step", not any(inp["registry_after"].values()))


@register
class AssignDynamicNoPrediction(AssignContract):
    target = SQ + "assign_obstacles_to_lanelets"
    case = "dynamic obstacle without prediction"
    describe = "initial time step only: sets are the geometric truth, registry is the inverse, removal clears the registry"

    def build(self, F):
        sc, net, las = base_scenario(F)
        sh = local_rect(F, "sh_")
        init = mk_initial_state(F, "init_", 3)
        obs = F.new(DynamicObstacle, 11, ObstacleType.CAR, sh, init)
        F.method(sc, "add_objects", obs)
        occ = F.method(obs, "occupancy_at_time", 3)
        for la in las.values():
            F.assume(z3.Implies(center_in(F, la, F.attr(init, "position")), hits(F, la, F.attr(occ, "shape"))))
        return {"sc": sc, "las": las, "obs": obs, "init": init, "args": [sc]}

    def invoke(self, F, inp):
        F.method(inp["sc"], "assign_obstacles_to_lanelets")
        inp["center"] = members(F, F.attr(inp["obs"], "initial_center_lanelet_ids"))
        inp["shape"] = members(F, F.attr(inp["obs"], "initial_shape_lanelet_ids"))
        inp["registry"] = {lid: 11 in members(F, F.attr(la, "dynamic_obstacles_on_lanelet").get(3)) for lid, la in inp["las"].items()}
        rem = F.attempt(lambda: F.method(inp["sc"], "remove_obstacle", inp["obs"]))
        inp["registry_after"] = {lid: 11 in members(F, F.attr(la, "dynamic_obstacles_on_lanelet").get(3)) for lid, la in inp["las"].items()}
        return rem

    def post(self, F, inp, out):
        yield ("assignment raises nothing", out.exc is None)
        if out.exc is None:
            for lid, la in inp["las"].items():
                yield ("lanelet %d in the centre set <=> it contains the centre" % lid, z3.BoolVal(lid in inp["center"]) == center_in(F, la, F.attr(inp["init"], "position")))
                yield ("lanelet %d registers the obstacle <=> it is in the shape set" % lid, inp["registry"][lid] == (lid in inp["shape"]))
            yield ("removing the obstacle never fails", out.value.exc is None)
            yield ("after removal no lanelet registers the obstacle", not any(inp["registry_after"].values()))


@register
class ReAddAfterRemove(AssignContract):
    target = SQ + "add_objects"
    case = "dynamic obstacle: add, remove, add again next to another obstacle on the same lanelets"
    describe = "registries after add / remove / re-add are exactly the inverse of the carried shape assignment, also when the lanelet already holds entries for the time step"

    def build(self, F):
        sc, net, las = base_scenario(F)
        sh = local_rect(F, "sh_")
        def mk(oid, p):
            pred = F.new(TrajectoryPrediction, F.new(Trajectory, 1, [mk_ks_state(F, p + "s0_", 1), mk_ks_state(F, p + "s1_", 2)]), sh, {1: {2}, 2: {2}}, {1: {1, 2}, 2: {2}})
            return F.new(DynamicObstacle, oid, ObstacleType.CAR, sh, mk_initial_state(F, p + "init_", 0), pred, {1}, {1})
        a, b = mk(11, "a_"), mk(12, "b_")
        return {"sc": sc, "las": las, "a": a, "b": b, "args": []}

    def registry(self, F, inp, oid):
        return {(lid, t): oid in members(F, F.attr(la, "dynamic_obstacles_on_lanelet").get(t)) for lid, la in inp["las"].items() for t in (0, 1, 2)}

    def invoke(self, F, inp):
        sc = inp["sc"]
        F.method(sc, "add_objects", inp["b"])
        F.method(sc, "add_objects", inp["a"])
        r1 = self.registry(F, inp, 11)
        F.method(sc, "remove_obstacle", inp["a"])
        r2 = self.registry(F, inp, 11)
        F.method(sc, "add_objects", inp["a"])
        r3 = self.registry(F, inp, 11)
        return r1, r2, r3, self.registry(F, inp, 12)

    def post(self, F, inp, out):
        yield ("raises nothing", out.exc is None)
        if out.exc is None:
            exp = {(1, 0): True, (2, 0): False, (1, 1): True, (2, 1): True, (1, 2): False, (2, 2): True}
            r1, r2, r3, rb = out.value
            yield ("after add: registered per time step on exactly the shape lanelets", r1 == exp)
            yield ("after remove: not registered anywhere", not any(r2.values()))
            yield ("after adding again: registered exactly as before", r3 == exp)
            yield ("the other obstacle's registration is untouched", rb == exp)


for _role in ("static", "dynamic"):

    @register
    class AddRemoveWithGivenAssignment(AssignContract):
        target = SQ + "add_objects"
        case = "%s obstacle carrying lanelet assignments" % _role
        role = _role
        describe = "adding an obstacle that carries shape-lanelet ids registers it on exactly those lanelets; removing it unregisters it and never fails"

        def build(self, F):
            sc, net, las = base_scenario(F)
            sh = local_rect(F, "sh_")
            init = mk_initial_state(F, "init_", 0)
            if self.role == "static":
                obs = F.new(StaticObstacle, 10, ObstacleType.PARKED_VEHICLE, sh, init, {1}, {1, 2})
            else:
                pred = F.new(TrajectoryPrediction, F.new(Trajectory, 1, [mk_ks_state(F, "s0_", 1)]), sh, {1: {2}}, {1: {1, 2}})
                obs = F.new(DynamicObstacle, 11, ObstacleType.CAR, sh, init, pred, {1}, {1})
            return {"sc": sc, "las": las, "obs": obs, "args": [sc, obs]}

        def invoke(self, F, inp):
            F.method(inp["sc"], "add_objects", inp["obs"])
            oid = 10 if self.role == "static" else 11
            if self.role == "static":
                reg = {lid: oid in members(F, F.attr(la, "static_obstacles_on_lanelet")) for lid, la in inp["las"].items()}
            else:
                reg = {(lid, t): oid in members(F, F.attr(la, "dynamic_obstacles_on_lanelet").get(t)) for lid, la in inp["las"].items() for t in (0, 1)}
            rem = F.attempt(lambda: F.method(inp["sc"], "remove_obstacle", inp["obs"]))
            if self.role == "static":
                reg2 = {lid: oid in members(F, F.attr(la, "static_obstacles_on_lanelet")) for lid, la in inp["las"].items()}
            else:
                reg2 = {(lid, t): oid in members(F, F.attr(la, "dynamic_obstacles_on_lanelet").get(t)) for lid, la in inp["las"].items() for t in (0, 1)}
            return reg, rem, reg2

        def post(self, F, inp, out):
            yield ("raises nothing", out.exc is None)
            if out.exc is None:
                reg, rem, reg2 = out.value
                if self.role == "static":
                    yield ("registered on exactly the shape lanelets", reg == {1: True, 2: True})
                else:
                    yield ("registered per time step on exactly the shape lanelets", reg == {(1, 0): True, (2, 0): False, (1, 1): True, (2, 1): True})
                yield ("removal never fails", rem.exc is None)
                yield ("after removal nothing is registered", not any(reg2.values()))


# ------------------------------------------------------------------------------ assignment by the file readers (lanelet_assignment=True)

for _fmt, _kind in (("PROTOBUF", "static"), ("PROTOBUF", "dynamic"), ("XML", "static"), ("XML", "dynamic")):

    @register
    class ReaderAssign(AssignContract):
        target = "commonroad.common.file_reader.CommonRoadFileReader.open"
        case = "%s reader with lanelet_assignment=True, %s obstacle" % (_fmt, _kind)
        fmt, kind = _fmt, _kind
        summaries = ("make_valid_orientation", "float_to_str")
        budget_s = 1500  # 2-190 s on an idle machine
        describe = "the scenario read from a file with lanelet assignment enabled records, for the obstacle it read, exactly the lanelets that contain its centre / that its occupancy intersects, and the lanelet registries are the inverse"

        def build(self, F):
            import contracts.c01  # noqa: F401  (float_to_str summary provider)

            sc, net, las = base_scenario(F, (1,))
            sh = local_rect(F, "sh_")
            init = mk_initial_state(F, "init_", 0)
            if self.kind == "static":
                obs = F.new(StaticObstacle, 10, ObstacleType.PARKED_VEHICLE, sh, init)
            else:
                pred = F.new(TrajectoryPrediction, F.new(Trajectory, 1, [mk_ks_state(F, "s0_", 1)]), sh)
                obs = F.new(DynamicObstacle, 11, ObstacleType.CAR, sh, init, pred)
            F.method(sc, "add_objects", obs)
            return {"sc": sc, "args": []}

        def invoke(self, F, inp):
            import os

            from commonroad.common.file_reader import CommonRoadFileReader
            from commonroad.common.file_writer import CommonRoadFileWriter
            from commonroad.common.util import FileFormat
            from commonroad.common.writer.file_writer_interface import OverwriteExistingFile
            from commonroad.planning.planning_problem import PlanningProblemSet
            from commonroad.scenario.scenario import Location
            from pyvc.contract import scratch_dir

            fmt = FileFormat[self.fmt]
            path = os.path.join(scratch_dir("c07_"), "out" + fmt.value) if F.native else "/nonexistent-dir/c07_%s_%s%s" % (self.fmt, self.kind, fmt.value)
            w = F.new(CommonRoadFileWriter, inp["sc"], F.new(PlanningProblemSet), "author", "affiliation", "source", set(), F.new(Location), file_format=fmt)
            F.method(w, "write_to_file", path, OverwriteExistingFile.ALWAYS)
            sc2, _ = F.items(F.method(F.new(CommonRoadFileReader, path), "open", True))
            return sc2

        def post(self, F, inp, out):
            yield ("writing and reading with lanelet assignment raise nothing", out.exc is None)
            if out.exc is not None:
                return
            sc2 = out.value
            las = {F.attr(la, "lanelet_id"): la for la in F.items(F.attr(F.attr(sc2, "lanelet_network"), "lanelets"))}
            obs = F.items(F.attr(sc2, "obstacles"))
            yield ("one obstacle and one lanelet were read", len(obs) == 1 and len(las) == 1)
            if len(obs) != 1:
                return
            ob = obs[0]
            init = F.attr(ob, "initial_state")
            if self.kind == "static":
                occ = F.method(ob, "occupancy_at_time", 0)
                center, shape = members(F, F.attr(ob, "initial_center_lanelet_ids")), members(F, F.attr(ob, "initial_shape_lanelet_ids"))
                for lid, la in las.items():
                    c, h = center_in(F, la, F.attr(init, "position")), hits(F, la, F.attr(occ, "shape"))
                    F.assume(z3.Implies(c, h))
                    yield ("lanelet %d in the centre set <=> it contains the centre" % lid, z3.BoolVal(lid in center) == c)
                    yield ("lanelet %d in the shape set <=> the occupancy intersects it" % lid, z3.BoolVal(lid in shape) == h)
                    yield ("lanelet %d registers the obstacle <=> it is in the shape set" % lid,
                           (F.attr(ob, "obstacle_id") in members(F, F.attr(la, "static_obstacles_on_lanelet"))) == (lid in shape))
                return
            pred = F.attr(ob, "prediction")
            states = [init] + list(F.items(F.attr(F.attr(pred, "trajectory"), "state_list")))
            for t, s in enumerate(states):
                occ = F.method(ob, "occupancy_at_time", t)
                cset = members(F, F.attr(pred, "center_lanelet_assignment").get(t)) if t else members(F, F.attr(ob, "initial_center_lanelet_ids"))
                sset = members(F, F.attr(pred, "shape_lanelet_assignment").get(t)) if t else members(F, F.attr(ob, "initial_shape_lanelet_ids"))
                for lid, la in las.items():
                    c, h = center_in(F, la, F.attr(s, "position")), hits(F, la, F.attr(occ, "shape"))
                    F.assume(z3.Implies(c, h))
                    yield ("t=%d: lanelet %d in the centre set <=> it contains the centre" % (t, lid), z3.BoolVal(lid in cset) == c)
                    yield ("t=%d: lanelet %d in the shape set <=> the occupancy intersects it" % (t, lid), z3.BoolVal(lid in sset) == h)
                    yield ("t=%d: lanelet %d registers the obstacle <=> it is in the shape set" % (t, lid),
                           (F.attr(ob, "obstacle_id") in members(F, F.attr(la, "dynamic_obstacles_on_lanelet").get(t))) == (lid in sset))
