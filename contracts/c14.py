"""C14 -- solution files round-trip exactly and follow the solution schema.
The real solution writer and reader (common/solution.py) are executed symbolically back to back on abstract XML
documents; str(np.float64(x)) denotes exactly x, so state values must come back bit-identical (tolerance 0)."""
import os
import datetime
import itertools

import numpy as np
import z3

import commonroad.scenario.state as st
from commonroad.common.solution import (CommonRoadSolutionReader, CommonRoadSolutionWriter, CostFunction, PlanningProblemSolution, Solution,
                                        StateFields, StateType, SupportedCostFunctions, TrajectoryType, VehicleModel, VehicleType, XMLStateFields)
from commonroad.scenario.scenario import ScenarioID
from commonroad.scenario.trajectory import Trajectory
from pyvc.contract import B, Contract, R, T, conj, register
from spec.approx import approx_parts
from spec.sets import TWO_PI

SOLUTION_XSD = os.path.join(os.path.dirname(__import__("commonroad").__file__), "scenario_definition/xml_definition_files/CommonRoadSolution_schema.xsd")
STATE_CLASS = {"PM": st.PMState, "ST": st.STState, "KS": st.KSState, "KST": st.KSTState, "MB": st.MBState, "Input": st.InputState, "PMInput": st.PMInputState}
KINDS = [("PM", "PM"), ("ST", "ST"), ("KS", "KS"), ("KST", "KST"), ("MB", "MB"), ("KS", "Input"), ("ST", "Input"), ("MB", "Input"), ("PM", "PMInput")]


def mk_state(F, kind, t, p, ints=False):
    kw = {}
    for name in StateFields[kind].value:
        if name == "time_step":
            kw[name] = t
        elif name == "position":
            kw[name] = F.array([F.real(p + "x"), F.real(p + "y")])
        elif name in ("orientation",):
            v = F.real(p + name)
            F.assume(z3.And(R(v) >= -TWO_PI, R(v) <= TWO_PI))
            kw[name] = v
        else:
            kw[name] = F.int(p + name) if ints else F.real(p + name)
    return F.new(STATE_CLASS[kind], **kw)


def mk_pps(F, model, kind, pp_id, p, ints=False, reverse=False):
    steps = [5, 6] if not reverse else [5, 6]
    states = [mk_state(F, kind, t, "%ss%d_" % (p, i), ints) for i, t in enumerate(steps)]
    cost = SupportedCostFunctions[model].value[0]
    return F.new(PlanningProblemSolution, pp_id, VehicleModel[model], VehicleType.BMW_320i, cost, F.new(Trajectory, 5, states))


class SolutionRoundTrip(Contract):
    prop = "C14"
    target = "commonroad.common.solution.CommonRoadSolutionWriter.dump"
    budget_s = 900

    def solution(self, F):
        raise NotImplementedError

    def build(self, F):
        return {"sol": self.solution(F), "args": []}

    def invoke(self, F, inp):
        w = F.new(CommonRoadSolutionWriter, inp["sol"])
        doc = F.method(w, "dump", False)
        root = None
        if not F.native:
            root = doc.root
        sol2 = F.call_target("commonroad.common.solution.CommonRoadSolutionReader.fromstring", [doc], {})
        return sol2, root, (doc if F.native else None)

    def post(self, F, inp, out):
        yield ("writing and reading raise nothing", out.exc is None)
        if out.exc is None:
            sol2, root, text = out.value
            a, b = inp["sol"], sol2
            yield ("same benchmark id", F.attr(a, "benchmark_id") == F.attr(b, "benchmark_id"))
            pa, pb = F.items(F.attr(a, "planning_problem_solutions")), F.items(F.attr(b, "planning_problem_solutions"))
            yield ("same number of planning problem solutions", len(pa) == len(pb))
            for i, (x, y) in enumerate(zip(pa, pb)):
                yield ("solution %d: planning problem id, vehicle model / type, cost function, trajectory type" % i,
                       all(F.attr(x, k) == F.attr(y, k) for k in ("planning_problem_id", "vehicle_model", "vehicle_type", "cost_function", "trajectory_type")))
                yield ("solution %d: time steps ascending and state values bit-identical" % i,) + approx_parts(F.attr(x, "trajectory"), F.attr(y, "trajectory"), 0, F, path="trajectory")
            ca, cb = F.attr(a, "computation_time"), F.attr(b, "computation_time")
            yield ("computation time, processor name and date (to the second) reproduced",
                   z3.And(z3.BoolVal((ca is None) == (cb is None)), R(ca) == R(cb) if ca is not None and cb is not None else True,
                          z3.BoolVal(F.attr(a, "processor_name") == F.attr(b, "processor_name")),
                          z3.BoolVal(F.attr(a, "date").replace(microsecond=0) == F.attr(b, "date"))))
            # schema conformance of the written document
            if F.native:
                from lxml import etree

                schema = etree.XMLSchema(etree.parse(SOLUTION_XSD))
                ok = schema.validate(etree.fromstring(text if isinstance(text, bytes) else text.encode()))
                yield ("document conforms to the solution schema", ok or not self.in_schema)
            else:
                from pyvc.xsd import Schema, Validator

                v = Validator(Schema(SOLUTION_XSD))
                v.validate_root(root)
                probs = v.problems + v.lexical
                yield ("document conforms to the solution schema (for the trajectory types it defines)", (not probs) or not self.in_schema, [(p, False) for p in probs[:6]])


for _model, _kind in KINDS:
    for _ints in (False, True):

        @register
        class Single(SolutionRoundTrip):
            case = "vehicle model %s, %s trajectory, %s values" % (_model, _kind, "int" if _ints else "float")
            model, kind, ints = _model, _kind, _ints
            in_schema = _kind != "KST"  # the shipped solution schema does not define kstTrajectory
            describe = "write then read: same ids, types, ascending time steps, bit-identical values, metadata; document follows the solution schema"

            def solution(self, F):
                ct = F.real("computation_time")
                F.assume(R(ct) >= 0)
                return F.new(Solution, ScenarioID(False, "DEU", "Muc", 2, 1, "T", 1), [mk_pps(F, self.model, self.kind, 7, "a_", self.ints)],
                             datetime.datetime(2024, 5, 6, 7, 8, 9, 123456), ct, "Intel(R) Xeon(TM) CPU @ 2.10GHz")


@register
class Cooperative(SolutionRoundTrip):
    case = "cooperative solution: PM + KS trajectories (schema order), no optional metadata"
    in_schema = True
    describe = "several planning problems: listed in order; optional metadata absent stays absent"

    def solution(self, F):
        return F.new(Solution, ScenarioID(True, "DEU", "Muc", 2, 1, "T", [1, 2]), [mk_pps(F, "PM", "PM", 8, "a_"), mk_pps(F, "KS", "KS", 7, "b_")],  # ids not ascending
                     datetime.datetime(2024, 5, 6, 7, 8, 9), None, None)


@register
class FieldTables(Contract):
    prop = "C14"
    target = "commonroad.common.solution.StateType.xml_fields"
    kind = "exhaustive"
    describe = "for every state type: field table and XML-name table are index-aligned, names pairwise distinct; the reader knows every trajectory type the writer can emit"

    def build(self, F):
        return {"args": []}

    def invoke(self, F, inp):
        return None

    def post(self, F, inp, out):
        for stt in StateType:
            f, x = StateFields[stt.name].value, XMLStateFields[stt.name].value
            flat = [n for e in x for n in (e if isinstance(e, tuple) else (e,))]
            yield ("%s: tables index-aligned and XML names distinct" % stt.name, len(f) == len(x) and len(set(flat)) == len(flat) and len(set(f)) == len(f))
            yield ("%s: position maps to (x, y), time_step to time" % stt.name,
                   all((isinstance(e, tuple)) == (n == "position") for e, n in zip(x, f)) and all((e == "time") == (n == "time_step") for e, n in zip(x, f) if not isinstance(e, tuple)))


# ------------------------------------------------------------------------------ every (vehicle model, vehicle type, supported cost function)

for _model in ("PM", "ST", "KS", "MB", "KST"):

    @register
    class EveryTypeAndCost(SolutionRoundTrip):
        case = "exhaustive: vehicle model %s x every vehicle type x every supported cost function" % _model
        model = _model
        in_schema = _model != "KST"
        describe = "a cooperative solution with one planning-problem solution per (vehicle type, cost function) pair of this model: every pair comes back, in order"

        def solution(self, F):
            pairs = [(t, c) for t in VehicleType for c in SupportedCostFunctions[self.model].value]
            ppss = []
            for i, (t, c) in enumerate(pairs):
                states = [mk_state(F, self.model, step, "s%d_" % step) for step in (5, 6)] if i == 0 else [
                    STATE_CLASS[self.model](**{n: (step if n == "time_step" else np.array([1.0 * i, 2.0]) if n == "position" else 0.25 * (k + 1))
                                               for k, n in enumerate(StateFields[self.model].value)}) for step in (5, 6)]
                ppss.append(F.new(PlanningProblemSolution, 1000 - i, VehicleModel[self.model], t, c, F.new(Trajectory, 5, states)))
            return F.new(Solution, ScenarioID(True, "DEU", "Muc", 2, 1, "T", [1, 2]), ppss, datetime.datetime(2024, 5, 6, 7, 8, 9), None, None)


@register
class NumpyIntegerTimeSteps(SolutionRoundTrip):
    case = "trajectory whose time steps are numpy integers (e.g. taken from np.arange)"
    in_schema = True
    describe = "numpy integer time steps are written as integers (xs:int), read back as the same steps"

    def solution(self, F):
        states = []
        for step in np.arange(5, 7):
            s = mk_state(F, "KS", 0, "s%d_" % int(step))
            F.setattr(s, "time_step", step)  # numpy.int64
            states.append(s)
        pps = F.new(PlanningProblemSolution, 7, VehicleModel.KS, VehicleType.BMW_320i, SupportedCostFunctions.KS.value[0], F.new(Trajectory, 5, states))
        return F.new(Solution, ScenarioID(False, "DEU", "Muc", 2, 1, "T", 1), [pps], datetime.datetime(2024, 5, 6, 7, 8, 9), None, None)
