"""C03 -- every written XML scenario file is valid against the 2020a schema.
The document the real writer produces (abstract tree) is validated against content models parsed from the shipped XSD:
element order / occurrence, required attributes, enumeration values, lexical class of every number (plain decimal vs
Python repr), numeric ranges and the id / idref key constraints (the latter as z3 conditions over symbolic ids/values)."""
import os

import z3

import contracts.c16  # noqa: F401
from commonroad.common.file_reader import CommonRoadFileReader
from commonroad.common.file_writer import CommonRoadFileWriter
from commonroad.common.util import FileFormat
from commonroad.common.writer.file_writer_interface import OverwriteExistingFile
from commonroad.planning.planning_problem import PlanningProblemSet
from contracts.c01 import CONTENTS, RoundTrip, mk_planning_problems, mk_scenario
from pyvc.contract import B, Contract, R, T, conj, register, scratch_dir

XSD = os.path.join(os.path.dirname(__import__("commonroad").__file__), "scenario_definition/xml_definition_files/XML_commonRoad_XSD.xsd")


for _cname in CONTENTS:

    @register
    class SchemaValid(RoundTrip):
        prop = "C03"
        target = "commonroad.common.writer.file_writer_xml.XMLFileWriter.write_to_file"
        case = _cname
        content = CONTENTS[_cname]
        describe = "the written document matches the XSD content models; numbers are in plain decimal notation; ranges and key constraints hold"

        def build(self, F):
            import numpy as np

            import commonroad.scenario.state as st
            from commonroad.common.util import Interval
            from commonroad.planning.goal import GoalRegion
            from commonroad.planning.planning_problem import PlanningProblem
            from commonroad.scenario.lanelet import Lanelet

            sc = mk_scenario(F, self.content)
            if "network" not in self.content:  # the schema requires at least one lanelet
                F.method(sc, "add_objects", F.new(Lanelet, np.array([[0.0, 1.0], [5.0, 1.0]]), np.array([[0.0, 0.5], [5.0, 0.5]]), np.array([[0.0, 0.0], [5.0, 0.0]]), 900))
            if not self.content:
                pps = mk_planning_problems(F)
            else:  # ... and at least one planning problem
                init = st.InitialState(time_step=0, position=np.array([0.0, 0.0]), orientation=0.0, velocity=0.0, yaw_rate=0.0, slip_angle=0.0)
                pps = F.new(PlanningProblemSet, [F.new(PlanningProblem, 901, init, GoalRegion([st.CustomState(time_step=Interval(0, 10))]))])
            return {"sc": sc, "pps": pps, "args": []}

        def invoke(self, F, inp):
            if F.native:
                import tempfile

                path = os.path.join(scratch_dir("c03_"), "out.xml")
            else:
                path = "/nonexistent-dir/c03.xml"
            w = F.new(CommonRoadFileWriter, inp["sc"], inp["pps"], decimal_precision=4, file_format=FileFormat.XML)
            F.method(w, "write_to_file", path, OverwriteExistingFile.ALWAYS)
            if F.native:
                from lxml import etree

                schema = etree.XMLSchema(etree.parse(XSD))
                doc = etree.parse(path)
                ok = schema.validate(doc)
                self._native_doc = doc
                return ("native", ok, [str(e.message)[:160] for e in schema.error_log][:5])
            return ("tree", F.ctx.options["__fs__"][path][1], None)

        def post(self, F, inp, out):
            yield ("writing raises nothing", out.exc is None)
            if out.exc is None:
                kind, doc, errs = out.value
                if kind == "native":
                    atomic = [e for e in errs if "atomic type" in e]
                    yield ("element order, occurrence, required attributes and enumeration values follow the schema", doc or len(atomic) == len(errs))
                    yield ("every number is written in plain decimal notation (lexical space of the XSD type)", doc or not atomic)
                    return
                from pyvc.xsd import Schema, Validator

                v = Validator(Schema(XSD))
                v.validate_root(doc)
                yield ("element order, occurrence, required attributes and enumeration values follow the schema", not v.problems, [(p, False) for p in v.problems[:6]])
                yield ("every number is written in plain decimal notation (lexical space of the XSD type)",
                       conj([z3.BoolVal(not v.lexical)] + [c for _, c in v.lexical_conds]), [(p, False) for p in v.lexical[:8]] + v.lexical_conds)
                ranges = [(d, c) for d, c in v.conds if not d.startswith("key")]
                keys = [(d, c) for d, c in v.conds if d.startswith("key")]
                yield ("numeric ranges of the schema hold", conj(c for _, c in ranges), ranges)
                yield ("id / reference key constraints hold", conj(c for _, c in keys), keys[:200])


# ------------------------------------------------------------------------------ every enumeration member the schema lists


def _xsd_enums():
    from lxml import etree

    t = etree.parse(XSD)
    ns = {"xs": "http://www.w3.org/2001/XMLSchema"}
    out = {}
    for stp in t.xpath("//xs:simpleType[@name]", namespaces=ns):
        vals = {e.get("value") for e in stp.xpath(".//xs:enumeration", namespaces=ns)}
        if vals:
            out[stp.get("name")] = vals
    return out


def _schema_members(enum, role):
    """the members of a Python enumeration the schema can express (the property quantifies over schema-expressible scenarios)"""
    xs = _XSD_ENUMS
    name = enum.__name__
    if name == "LaneletType":
        ok = xs["laneletType"]
    elif name == "LineMarking":
        ok = xs["lineMarking"]
    elif name == "RoadUser":
        ok = xs["vehicleType"]
    elif name == "ObstacleType":
        ok = xs["obstacleTypeStatic"] if role == "static" else xs["obstacleTypeDynamic"]
    elif name == "TrafficLightState":
        ok = xs["trafficLightColor"]
    elif name == "TimeOfDay":
        ok = xs["timeOfDay"]
    elif name == "Weather":
        ok = xs["weather"]
    elif name == "Underground":
        ok = xs["underground"]
    elif name.startswith("TrafficSignID"):
        ok = xs["trafficSignID"]
    else:
        return list(enum)
    return [m for m in enum if m.value in ok]


_XSD_ENUMS = _xsd_enums()

from contracts.c01_enums import GROUPS as _ENUM_GROUPS, build_group as _build_group  # noqa: E402

def _expressible(group):
    if not group.startswith("traffic signs of "):
        return True
    from commonroad.scenario.traffic_sign import SupportedTrafficSignCountry, TrafficSignIDCountries

    return bool(_schema_members(TrafficSignIDCountries[SupportedTrafficSignCountry[group.split(" of ")[1]].value], None))


for _g in [g for g in _ENUM_GROUPS if _expressible(g)]:

    @register
    class SchemaValidEnums(SchemaValid):
        case = "every schema-listed member: " + _g
        group = _g
        describe = "exhaustive over the members the schema lists: the written value is one of the schema's enumeration values, in a valid document"

        def build(self, F):
            import numpy as np

            import commonroad.scenario.state as st
            from commonroad.common.util import Interval
            from commonroad.planning.goal import GoalRegion
            from commonroad.planning.planning_problem import PlanningProblem
            from commonroad.scenario.lanelet import Lanelet

            sc = _build_group(F, self.group, False, _schema_members)
            if not F.items(F.attr(F.attr(sc, "lanelet_network"), "lanelets")):
                from commonroad.common.common_lanelet import LaneletType

                F.method(sc, "add_objects", F.new(Lanelet, np.array([[0.0, 1.0], [5.0, 1.0]]), np.array([[0.0, 0.5], [5.0, 0.5]]), np.array([[0.0, 0.0], [5.0, 0.0]]), 900,
                                                  lanelet_type={LaneletType.URBAN}))
            init = st.InitialState(time_step=0, position=np.array([0.0, 0.0]), orientation=0.0, velocity=0.0, yaw_rate=0.0, slip_angle=0.0)
            pps = F.new(PlanningProblemSet, [F.new(PlanningProblem, 901, init, GoalRegion([st.CustomState(time_step=Interval(0, 10))]))])
            return {"sc": sc, "pps": pps, "args": []}


@register
class SchemaValid3D(SchemaValid):
    case = "lanelet with 3-D boundaries, some vertices at height exactly 0"
    describe = "every point of a 3-D polyline carries x, y and z (also where z is 0); the document follows the schema"

    def build(self, F):
        import numpy as np

        import commonroad.scenario.state as st
        from commonroad.common.common_lanelet import LaneletType
        from commonroad.common.util import Interval
        from commonroad.planning.goal import GoalRegion
        from commonroad.planning.planning_problem import PlanningProblem
        from commonroad.scenario.lanelet import Lanelet
        from commonroad.scenario.scenario import Location, Scenario, ScenarioID, Tag

        sc = F.new(Scenario, 0.1, F.new(ScenarioID), "author", {Tag.URBAN}, "affiliation", "source", F.new(Location, 2867714, 48.25, 11.5))
        z = [0.0, 0.0, 1.25, 2.5]
        mk = lambda y: np.array([[10.0 * i, y, z[i]] for i in range(4)])
        F.method(sc, "add_objects", F.new(Lanelet, mk(1.0), mk(0.5), mk(0.0), 900, lanelet_type={LaneletType.URBAN}))
        init = st.InitialState(time_step=0, position=np.array([0.0, 0.0]), orientation=0.0, velocity=0.0, yaw_rate=0.0, slip_angle=0.0)
        pps = F.new(PlanningProblemSet, [F.new(PlanningProblem, 901, init, GoalRegion([st.CustomState(time_step=Interval(0, 10))]))])
        return {"sc": sc, "pps": pps, "args": []}

    def post(self, F, inp, out):
        yield from SchemaValid.post(self, F, inp, out)
        if out.exc is None:
            if out.value[0] == "tree":
                doc = out.value[1]
                pts = [p for la in doc.children if la.tag == "lanelet" for b in la.children if b.tag in ("leftBound", "rightBound") for p in b.children if p.tag == "point"]
                tags = [[c.tag for c in p.children] for p in pts]
            else:
                root = self._native_doc.getroot()
                tags = [[c.tag for c in p] for la in root.findall("lanelet") for b in la if b.tag in ("leftBound", "rightBound") for p in b.findall("point")]
            yield ("every boundary point of the 3-D lanelet has a z coordinate (8 points)", len(tags) == 8 and all(t == ["x", "y", "z"] for t in tags))
