"""C04 -- obstacle occupancy is the shape placed at the state, for every time step."""
import numpy as np
import z3

import commonroad.scenario.state as st
import contracts.c16  # noqa: F401
from commonroad.common.util import Interval
from commonroad.geometry.shape import Circle, Polygon, Rectangle, ShapeGroup
from commonroad.prediction.prediction import Occupancy, SetBasedPrediction, TrajectoryPrediction
from commonroad.scenario.obstacle import DynamicObstacle, EnvironmentObstacle, ObstacleRole, ObstacleType, PhantomObstacle, StaticObstacle
from commonroad.scenario.scenario import Scenario
from commonroad.scenario.trajectory import Trajectory
from contracts.c05 import MVO, SHAPES, mk_circle, mk_rectangle
from contracts.c05b import local_rect, mk_environment, mk_initial_state, mk_ks_state, mk_occupancy, pos_array
from pyvc.contract import B, Contract, R, T, conj, deep_eq, disj, register
from pyvc.ops import ATAN2
from pyvc.core import PI
from spec.rigid import placed, xy
from spec.sets import TWO_PI

GS = "commonroad.geometry.shape."
OB = "commonroad.scenario.obstacle."
LOCAL_SHAPES = {"Rectangle": mk_rectangle, "Circle": mk_circle, "ShapeGroup": SHAPES["ShapeGroup"]}


def heading_of(F, state):
    if F.type(state) is st.PMState:
        vx, vy = R(F.attr(state, "velocity")), R(F.attr(state, "velocity_y"))
        return ATAN2(z3.simplify(vy), z3.simplify(vx))
    return R(F.attr(state, "orientation"))


def shape_at_state(F, occ_shape, local, state):
    return placed(F, occ_shape, local, xy(F, F.attr(state, "position")), heading_of(F, state))


for _k in LOCAL_SHAPES:

    @register
    class RotateTranslateLocal(Contract):
        prop = "C04"
        target = GS + _k + ".rotate_translate_local"
        shape_kind = _k
        unroll = MVO
        describe = "shape rotated by theta about its own reference point and moved by p; self unchanged"

        def build(self, F):
            sh = LOCAL_SHAPES[self.shape_kind](F, "sh_")
            px, py, th = F.real("px"), F.real("py"), F.real("theta")
            F.assume(z3.And(R(th) >= -TWO_PI, R(th) <= TWO_PI))
            return {"sh": sh, "p": (px, py), "th": th, "args": [sh, F.array([px, py]), th], "snap": F.snapshot(sh)}

        def post(self, F, inp, out):
            yield ("raises nothing", out.exc is None)
            if out.exc is None:
                yield ("result is the shape placed at (p, theta)", placed(F, out.value, inp["snap"], inp["p"], inp["th"]))
            if not F.native:
                yield ("self not modified", F.same(inp["snap"], inp["sh"]))


def mk_pm_state(F, p, t):
    return F.new(st.PMState, time_step=t, position=pos_array(F, p + "p"), velocity=F.real(p + "vx"), velocity_y=F.real(p + "vy"))


STATE_MAKERS = {"KSState": mk_ks_state, "PMState": mk_pm_state, "InitialState": lambda F, p, t: mk_initial_state(F, p, t)}

for _k in LOCAL_SHAPES:
    for _s in STATE_MAKERS:

        @register
        class OccupancyShapeFromState(Contract):
            prop = "C04"
            target = GS + "occupancy_shape_from_state"
            case = "%s,%s" % (_k, _s)
            shape_kind, state_kind = _k, _s
            unroll = MVO
            describe = "exact state: the shape rotated by the heading (atan2(vy,vx) for point-mass states) and moved to the position"

            def build(self, F):
                sh = LOCAL_SHAPES[self.shape_kind](F, "sh_")
                s = STATE_MAKERS[self.state_kind](F, "s_", F.int("t"))
                return {"sh": sh, "s": s, "args": [sh, s], "snap": F.snapshot(sh), "snap_s": F.snapshot(s)}

            def post(self, F, inp, out):
                yield ("raises nothing", out.exc is None)
                if out.exc is None:
                    yield ("occupied region is the shape placed at the state", shape_at_state(F, out.value, inp["snap"], inp["snap_s"]))
                if not F.native:
                    yield ("state not modified", F.same(inp["snap_s"], inp["s"]))


# ------------------------------------------------------------------------------ obstacles over time


def mk_traj_states(F, p, t_first, n, maker=mk_ks_state):
    states = []
    for i in range(n):
        ti = F.int("%st%d" % (p, i))
        F.assume(T(ti) == T(t_first) + i)  # the constructor's documented assumption: consecutive time steps
        states.append(maker(F, "%ss%d_" % (p, i), ti))
    return states


class ObstacleOverTime(Contract):
    prop = "C04"
    unroll = MVO
    summaries = ("make_valid_orientation",)  # callee contract (proved under C16) instead of re-inlining the loops

    def invoke(self, F, inp):
        o, t = inp["obs"], inp["t"]
        occ = F.method(o, "occupancy_at_time", t)
        stt = F.method(o, "state_at_time", t) if inp.get("has_state", True) else None
        return (occ, stt)


@register
class StaticOverTime(ObstacleOverTime):
    target = OB + "StaticObstacle.occupancy_at_time"
    describe = "static obstacle: the same region (shape placed at the initial state) at all times"

    def build(self, F):
        sh = local_rect(F, "sh_")
        init = mk_initial_state(F, "init_", F.int("t_init"))
        obs = F.new(StaticObstacle, 10, ObstacleType.PARKED_VEHICLE, sh, init)
        return {"obs": obs, "t": F.int("t"), "sh": sh, "init": init, "args": []}

    def post(self, F, inp, out):
        yield ("raises nothing", out.exc is None)
        if out.exc is None:
            occ, stt = out.value
            yield ("occupancy exists at every time step", occ is not None)
            if occ is not None:
                yield ("occupancy time step is t", R(F.attr(occ, "time_step")) == R(inp["t"]))
                yield ("region is the shape placed at the initial state", shape_at_state(F, F.attr(occ, "shape"), inp["sh"], inp["init"]))
            yield ("state is the initial state", stt is inp["init"])


for _n, _sk, _mk in ((2, "KSState", mk_ks_state), (3, "KSState", mk_ks_state), (2, "PMState", mk_pm_state)):

    @register
    class DynamicTrajectoryOverTime(ObstacleOverTime):
        target = OB + "DynamicObstacle.occupancy_at_time"
        case = "trajectory prediction, %d %s" % (_n, _sk)
        n, maker = _n, staticmethod(_mk)
        describe = "initial state at the initial time step, trajectory state afterwards, None outside the horizon; state_at_time(t).time_step == t"

        def build(self, F):
            sh = local_rect(F, "sh_")
            t_init, t_first = F.int("t_init"), F.int("t_first")
            F.assume(z3.And(T(t_init) >= 0, T(t_first) > T(t_init)))
            init = mk_initial_state(F, "init_", t_init)
            states = mk_traj_states(F, "tr_", t_first, self.n, self.maker)
            pred = F.new(TrajectoryPrediction, F.new(Trajectory, t_first, states), sh)
            obs = F.new(DynamicObstacle, 11, ObstacleType.CAR, sh, init, pred)
            t = F.int("t")
            return {"obs": obs, "t": t, "sh": sh, "init": init, "states": states, "t_init": t_init, "t_first": t_first, "args": []}

        def post(self, F, inp, out):
            yield ("raises nothing", out.exc is None)
            if out.exc is None:
                occ, stt = out.value
                t, ti, tf = T(inp["t"]), T(inp["t_init"]), T(inp["t_first"])
                inside = [t == tf + i for i in range(self.n)]
                exists = z3.Or(t == ti, *inside)
                yield ("occupancy is None exactly outside the time horizon", (occ is None) == z3.Not(exists) if isinstance(exists, bool) else B(occ is None) == z3.Not(exists))
                yield ("state is None exactly outside the time horizon", B(stt is None) == z3.Not(exists))
                if occ is not None:
                    yield ("occupancy time step is t", R(F.attr(occ, "time_step")) == R(inp["t"]))
                    conds = [z3.Implies(t == ti, shape_at_state(F, F.attr(occ, "shape"), inp["sh"], inp["init"]))]
                    for i, s in enumerate(inp["states"]):
                        conds.append(z3.Implies(inside[i], shape_at_state(F, F.attr(occ, "shape"), inp["sh"], s)))
                    yield ("region is the shape placed at the state of time step t", z3.And(*conds))
                if stt is not None:
                    yield ("the returned state is the one whose time step is t", R(F.attr(stt, "time_step")) == R(inp["t"]))
                    yield ("it is the initial state or the trajectory state of that step",
                           z3.And(z3.Implies(t == ti, stt is inp["init"]), *[z3.Implies(inside[i], stt is s) for i, s in enumerate(inp["states"])]))


@register
class DynamicSetBasedOverTime(ObstacleOverTime):
    target = OB + "DynamicObstacle.occupancy_at_time"
    case = "set-based prediction"
    describe = "set-based prediction: the stored occupancy for t (time step or interval), initial occupancy at the initial step, None elsewhere"

    def build(self, F):
        sh = local_rect(F, "sh_")
        t_init = F.int("t_init")
        F.assume(T(t_init) >= 0)
        init = mk_initial_state(F, "init_", t_init)
        t1, t2a, t2b = F.int("t1"), F.int("t2a"), F.int("t2b")
        F.assume(z3.And(T(t1) > T(t_init), T(t2a) > T(t1), T(t2b) >= T(t2a)))
        o1 = F.new(Occupancy, t1, mk_rectangle(F, "o1_"))
        o2 = F.new(Occupancy, F.new(Interval, t2a, t2b), mk_circle(F, "o2_"))
        pred = F.new(SetBasedPrediction, t1, [o1, o2])
        obs = F.new(DynamicObstacle, 11, ObstacleType.CAR, sh, init, pred)
        return {"obs": obs, "t": F.int("t"), "sh": sh, "init": init, "o1": o1, "o2": o2, "ts": (t_init, t1, t2a, t2b), "args": []}

    def post(self, F, inp, out):
        yield ("raises nothing", out.exc is None)
        if out.exc is None:
            occ, stt = out.value
            t = T(inp["t"])
            ti, t1, t2a, t2b = (T(x) for x in inp["ts"])
            in2 = z3.And(t2a <= t, t <= t2b)
            exists = z3.Or(t == ti, t == t1, in2)
            yield ("occupancy is None exactly outside the stored time steps", B(occ is None) == z3.Not(exists))
            if occ is not None:
                yield ("stored occupancy returned for its time step / interval",
                       z3.And(z3.Implies(t == t1, occ is inp["o1"]), z3.Implies(in2, occ is inp["o2"])))
                if occ is not inp["o1"] and occ is not inp["o2"]:
                    yield ("at the initial step: the shape placed at the initial state", z3.And(t == ti, shape_at_state(F, F.attr(occ, "shape"), inp["sh"], inp["init"])))
            yield ("state only at the initial time step", z3.And(B(stt is None) == (t != ti), z3.BoolVal(stt is None or stt is inp["init"])))


@register
class DynamicNoPrediction(ObstacleOverTime):
    target = OB + "DynamicObstacle.occupancy_at_time"
    case = "no prediction"
    describe = "no prediction: occupancy and state only at the initial time step"

    def build(self, F):
        sh = local_rect(F, "sh_")
        t_init = F.int("t_init")
        F.assume(T(t_init) >= 0)
        init = mk_initial_state(F, "init_", t_init)
        obs = F.new(DynamicObstacle, 11, ObstacleType.CAR, sh, init)
        return {"obs": obs, "t": F.int("t"), "sh": sh, "init": init, "t_init": t_init, "args": []}

    def post(self, F, inp, out):
        yield ("raises nothing", out.exc is None)
        if out.exc is None:
            occ, stt = out.value
            same = T(inp["t"]) == T(inp["t_init"])
            yield ("occupancy exists exactly at the initial time step", B(occ is None) == z3.Not(same))
            yield ("state exists exactly at the initial time step", B(stt is None) == z3.Not(same))
            if occ is not None:
                yield ("region is the shape placed at the initial state", shape_at_state(F, F.attr(occ, "shape"), inp["sh"], inp["init"]))


@register
class PhantomOverTime(ObstacleOverTime):
    target = OB + "PhantomObstacle.occupancy_at_time"
    describe = "phantom obstacle: the stored occupancy for t, None elsewhere"

    def build(self, F):
        t1, t2 = F.int("t1"), F.int("t2")
        F.assume(z3.And(T(t1) >= 0, T(t2) > T(t1)))
        o1 = F.new(Occupancy, t1, mk_rectangle(F, "o1_"))
        o2 = F.new(Occupancy, t2, mk_circle(F, "o2_"))
        obs = F.new(PhantomObstacle, 12, F.new(SetBasedPrediction, t1, [o1, o2]))
        return {"obs": obs, "t": F.int("t"), "o1": o1, "o2": o2, "ts": (t1, t2), "has_state": False, "args": []}

    def post(self, F, inp, out):
        yield ("raises nothing", out.exc is None)
        if out.exc is None:
            occ, _ = out.value
            t, t1, t2 = T(inp["t"]), T(inp["ts"][0]), T(inp["ts"][1])
            yield ("None exactly outside the stored steps", B(occ is None) == z3.Not(z3.Or(t == t1, t == t2)))
            yield ("stored occupancy for its step", z3.And(z3.Implies(t == t1, occ is inp["o1"]), z3.Implies(t == t2, occ is inp["o2"])))


@register
class EnvironmentOverTime(ObstacleOverTime):
    target = OB + "EnvironmentObstacle.occupancy_at_time"
    describe = "environment obstacle: its shape at all times"

    def build(self, F):
        obs = mk_environment(F, "env_")
        return {"obs": obs, "t": F.int("t"), "has_state": False, "args": []}

    def post(self, F, inp, out):
        yield ("raises nothing", out.exc is None)
        if out.exc is None:
            occ, _ = out.value
            yield ("occupancy exists", occ is not None)
            if occ is not None:
                yield ("time step t, shape of the obstacle", z3.And(R(F.attr(occ, "time_step")) == R(inp["t"]), F.attr(occ, "shape") is F.attr(inp["obs"], "obstacle_shape")))


# ------------------------------------------------------------------------------ scenario-level queries


def mk_mixed_scenario(F):
    sc = F.new(Scenario, 0.1)
    sh = local_rect(F, "sh_")
    t_init = F.int("t_init")
    F.assume(z3.And(T(t_init) >= 0, T(t_init) <= 1))
    st_obs = F.new(StaticObstacle, 10, ObstacleType.PARKED_VEHICLE, sh, mk_initial_state(F, "so_init_", 0))
    states = mk_traj_states(F, "tr_", F.int("t_first"), 2)
    F.assume(T(F.attr(states[0], "time_step")) == T(t_init) + 1)
    dyn = F.new(DynamicObstacle, 11, ObstacleType.CAR, sh, mk_initial_state(F, "do_init_", t_init),
                F.new(TrajectoryPrediction, F.new(Trajectory, F.attr(states[0], "time_step"), states), sh))
    dyn2 = F.new(DynamicObstacle, 14, ObstacleType.TRUCK, sh, mk_initial_state(F, "d2_init_", 0))
    tp = F.int("t_ph")
    F.assume(z3.And(T(tp) >= 0, T(tp) <= 3))
    ph = F.new(PhantomObstacle, 12, F.new(SetBasedPrediction, tp, [F.new(Occupancy, tp, mk_circle(F, "ph_"))]))
    env = mk_environment(F, "env_")
    obstacles = [st_obs, dyn, dyn2, ph, env]
    F.method(sc, "add_objects", obstacles)
    return sc, obstacles


ROLES = [None, ObstacleRole.STATIC, ObstacleRole.DYNAMIC, ObstacleRole.Phantom, ObstacleRole.ENVIRONMENT]

for _role in ROLES:

    @register
    class OccupanciesAtTimeStep(Contract):
        prop = "C04"
        target = "commonroad.scenario.scenario.Scenario.occupancies_at_time_step"
        case = "role=%s" % (_role.name if _role else None)
        role = _role
        unroll = MVO
        summaries = ("make_valid_orientation",)
        describe = "exactly the occupancies the per-obstacle answers imply (every role, or the selected role)"

        def build(self, F):
            sc, obstacles = mk_mixed_scenario(F)
            t = F.int("t")
            F.assume(z3.And(T(t) >= 0, T(t) <= 4))
            return {"sc": sc, "obstacles": obstacles, "t": t, "args": [sc, t, self.role]}

        def post(self, F, inp, out):
            yield ("raises nothing", out.exc is None)
            if out.exc is None:
                got = F.items(out.value)
                # expected: per-obstacle answers, in the scenario's obstacle order
                exp = []
                order = F.items(F.attr(inp["sc"], "obstacles"))
                for o in order:
                    if self.role is None or F.attr(o, "obstacle_role") is self.role:
                        occ = F.method(o, "occupancy_at_time", inp["t"])
                        if occ is not None:
                            exp.append(occ)
                yield ("same number of occupancies as obstacles that have one", len(got) == len(exp))
                if len(got) == len(exp):
                    yield ("each is the occupancy its obstacle reports", conj(deep_eq(g, e, F) for g, e in zip(got, exp)))
                yield ("every obstacle of the scenario is considered", set(id(o) for o in order) == set(id(o) for o in inp["obstacles"]))


@register
class ObstacleStatesAtTimeStep(Contract):
    prop = "C04"
    target = "commonroad.scenario.scenario.Scenario.obstacle_states_at_time_step"
    unroll = MVO
    summaries = ("make_valid_orientation",)
    describe = "maps each static / dynamic obstacle id to the state its obstacle reports, omitting those without one"

    def build(self, F):
        sc, obstacles = mk_mixed_scenario(F)
        t = F.int("t")
        F.assume(z3.And(T(t) >= 0, T(t) <= 4))
        return {"sc": sc, "obstacles": obstacles, "t": t, "args": [sc, t]}

    def post(self, F, inp, out):
        yield ("raises nothing", out.exc is None)
        if out.exc is None:
            got = out.value
            exp = {}
            for o in inp["obstacles"][:3]:
                s = F.method(o, "state_at_time", inp["t"])
                if s is not None:
                    exp[F.attr(o, "obstacle_id")] = s
            yield ("same ids", set(got.keys()) == set(exp.keys()))
            yield ("same state objects", all(got.get(k) is v for k, v in exp.items()))


for _role, _type in ((None, None), (ObstacleRole.DYNAMIC, None), (None, ObstacleType.CAR), (ObstacleRole.DYNAMIC, ObstacleType.TRUCK), (ObstacleRole.ENVIRONMENT, ObstacleType.BUILDING)):

    @register
    class ObstaclesByRoleAndType(Contract):
        prop = "C04"
        target = "commonroad.scenario.scenario.Scenario.obstacles_by_role_and_type"
        case = "role=%s,type=%s" % (_role.name if _role else None, _type.name if _type else None)
        role, otype = _role, _type
        unroll = MVO
        summaries = ("make_valid_orientation",)
        describe = "exactly the obstacles with the selected role and type"

        def build(self, F):
            sc, obstacles = mk_mixed_scenario(F)
            return {"sc": sc, "obstacles": obstacles, "args": [sc, self.role, self.otype]}

        def post(self, F, inp, out):
            yield ("raises nothing", out.exc is None)
            if out.exc is None:
                got = F.items(out.value)
                exp = [o for o in inp["obstacles"] if (self.role is None or F.attr(o, "obstacle_role") is self.role)
                       and (self.otype is None or (F.has(o, "obstacle_type") and F.attr(o, "obstacle_type") is self.otype))]
                yield ("exactly the matching obstacles", set(id(o) for o in got) == set(id(o) for o in exp) and len(got) == len(exp))


ROLE_SETS = [(ObstacleRole.DYNAMIC, ObstacleRole.STATIC), (ObstacleRole.DYNAMIC, ObstacleRole.Phantom), (ObstacleRole.Phantom,),
             (ObstacleRole.STATIC, ObstacleRole.ENVIRONMENT), (ObstacleRole.ENVIRONMENT, ObstacleRole.Phantom)]  # pairs: every two roles meet once

for _roles in ROLE_SETS:

    @register
    class ObstaclesByPositionIntervals(Contract):
        prop = "C04"
        target = "commonroad.scenario.scenario.Scenario.obstacles_by_position_intervals"
        case = "roles=" + "+".join(r.name for r in _roles)
        roles = _roles
        unroll = MVO
        summaries = ("make_valid_orientation",)
        describe = "for every requested role: static / environment by their position, dynamic / phantom by the centre of the occupancy at the time step"

        def build(self, F):
            sc, obstacles = mk_mixed_scenario(F)
            x0, x1, y0, y1 = F.real("x0"), F.real("x1"), F.real("y0"), F.real("y1")
            F.assume(z3.And(R(x0) <= R(x1), R(y0) <= R(y1)))
            t = F.int("t")
            F.assume(z3.And(T(t) >= 0, T(t) <= 4))
            iv = [F.new(Interval, x0, x1), F.new(Interval, y0, y1)]
            return {"sc": sc, "obstacles": obstacles, "box": (x0, x1, y0, y1), "t": t, "args": [sc, iv, self.roles, t]}

        def post(self, F, inp, out):
            from spec.sets import mem

            yield ("raises nothing", out.exc is None)
            if out.exc is None:
                got = set(id(o) for o in F.items(out.value))
                x0, x1, y0, y1 = inp["box"]
                conds = []
                wanted = []
                for o in inp["obstacles"]:
                    if F.attr(o, "obstacle_role") not in self.roles:
                        continue
                    wanted.append(o)
                    cls = F.type(o)
                    if cls is StaticObstacle:
                        c = xy(F, F.attr(F.attr(o, "initial_state"), "position"))
                        inside = z3.And(mem(c[0], x0, x1), mem(c[1], y0, y1))
                    elif cls is EnvironmentObstacle:
                        shp = F.attr(o, "obstacle_shape")
                        if F.has(shp, "center"):
                            c = xy(F, F.attr(shp, "center"))
                            inside = z3.And(mem(c[0], x0, x1), mem(c[1], y0, y1))
                        else:
                            inside = z3.BoolVal(True)
                    else:
                        occ = F.method(o, "occupancy_at_time", inp["t"])
                        if occ is None:
                            inside = z3.BoolVal(False)
                        elif not F.has(F.attr(occ, "shape"), "center"):
                            inside = z3.BoolVal(True)
                        else:
                            c = xy(F, F.attr(F.attr(occ, "shape"), "center"))
                            inside = z3.And(mem(c[0], x0, x1), mem(c[1], y0, y1))
                    conds.append(z3.BoolVal(id(o) in got) == inside)
                yield ("an obstacle of a requested role is returned iff its centre at the time step lies in the box", z3.And(*conds))
                yield ("only obstacles of the requested roles", got <= set(id(o) for o in wanted))


# ------------------------------------------------------------------------------ enclosure, position uncertainty only (deductive part)


# NOT registered: with uninterpreted sin / cos (unit circle, parity, addition theorem instances) z3 answers 'incomplete' /
# runs out of time on these degree-3 obligations even for concrete sizes; an undecided obligation on the unchanged tree would make
# the check exit 2, so the clause stays with the bounded check of pyvc/bounded.py.  Kept as the record of the attempt (DESIGN.md 9).
class EnclosurePositionRegion(Contract):
    """occupancy_shape_from_state for a rectangular obstacle, an exact orientation psi and a position given as a rotated
    rectangle region: every corner of the shape placed at every admissible position lies in the returned rectangle.
    (The orientation-interval part of the enclosure needs monotonicity of l*cos d + w*sin d and stays bounded: pyvc/bounded.py.)"""
    prop = "C04"
    target = "commonroad.geometry.shape.occupancy_shape_from_state"
    sizes = (4.0, 2.0, 1.0, 0.5)
    case = "rectangle shape 4x2, exact orientation, position region = rotated rectangle 1x0.5"
    options = {"trig_addition": True}
    unroll = MVO
    summaries = ("make_valid_orientation",)
    budget_s = 600
    describe = "for every admissible position in the region and every corner of the shape: the placed corner lies inside the returned enclosure"

    def build(self, F):
        from contracts.c01 import ang, pos, positive

        lv, wv, ls, ws = self.sizes
        shape = F.new(Rectangle, lv, wv)
        region = F.new(Rectangle, ls, ws, pos(F, "c"), ang(F, "theta"))
        psi = ang(F, "psi")
        # sin / cos are uninterpreted without periodicity: keep theta - psi inside the range where make_valid_orientation is the identity
        F.assume(z3.And(R(F.attr(region, "orientation")) - R(psi) <= TWO_PI, R(F.attr(region, "orientation")) - R(psi) >= -TWO_PI))
        state = F.new(st.CustomState, time_step=0, position=region, orientation=psi)
        ax, ay = F.real("a_x"), F.real("a_y")  # admissible position = c + R(theta)(a_x, a_y), |a_x| <= l_s/2, |a_y| <= w_s/2
        F.assume(z3.And(2 * R(ax) <= R(F.attr(region, "length")), -2 * R(ax) <= R(F.attr(region, "length")),
                        2 * R(ay) <= R(F.attr(region, "width")), -2 * R(ay) <= R(F.attr(region, "width"))))
        return {"shape": shape, "region": region, "psi": psi, "state": state, "a": (ax, ay), "args": [shape, state]}

    def post(self, F, inp, out):
        yield ("raises nothing", out.exc is None)
        if out.exc is not None:
            return
        enc = out.value
        yield ("the enclosure is a rectangle", (enc.cls if not F.native else type(enc)) is Rectangle)
        from pyvc import ops

        ctx = F.ctx if not F.native else None
        theta, psi = F.attr(inp["region"], "orientation"), inp["psi"]
        if F.native:
            import math

            ct, st_, cp, sp = math.cos(theta), math.sin(theta), math.cos(psi), math.sin(psi)
            ce, se = math.cos(enc.orientation), math.sin(enc.orientation)
            tol = 1e-9
        else:
            ct, st_, cp, sp = R(ops.mcos(ctx, theta)), R(ops.msin(ctx, theta)), R(ops.mcos(ctx, psi)), R(ops.msin(ctx, psi))
            # instantiate the addition theorem for theta - psi (the code takes sin / cos of make_valid_orientation(theta - psi), which
            # the callee contract identifies with theta - psi in this range)
            import ast as _ast

            diff = F.interp.binop(_ast.Sub, theta, psi)
            ops.mcos(ctx, diff), ops.msin(ctx, diff)
            eo = F.attr(enc, "orientation")
            ce, se = R(ops.mcos(ctx, eo)), R(ops.msin(ctx, eo))
            tol = 0
        c = F.elems(F.attr(inp["region"], "center"))
        ec = F.elems(F.attr(enc, "center"))
        ax, ay = (R(v) if not F.native else v for v in inp["a"])
        cx, cy, ecx, ecy = (R(v) if not F.native else float(v) for v in (c[0], c[1], ec[0], ec[1]))
        lv, wv = (R(F.attr(inp["shape"], k)) if not F.native else float(F.attr(inp["shape"], k)) for k in ("length", "width"))
        L, W = (R(F.attr(enc, k)) if not F.native else float(F.attr(enc, k)) for k in ("length", "width"))
        px, py = cx + ct * ax - st_ * ay, cy + st_ * ax + ct * ay  # the admissible position
        conds = []
        for sx, sy in ((1, 1), (1, -1), (-1, 1), (-1, -1)):
            vx, vy = sx * lv / 2, sy * wv / 2
            wxp, wyp = px + cp * vx - sp * vy, py + sp * vx + cp * vy  # the placed corner, world frame
            dx, dy = wxp - ecx, wyp - ecy
            lx, ly = ce * dx + se * dy, -se * dx + ce * dy  # in the enclosure's frame
            if F.native:
                conds.append(abs(lx) <= L / 2 + tol and abs(ly) <= W / 2 + tol)
            else:
                conds.append(z3.And(2 * lx <= L, -2 * lx <= L, 2 * ly <= W, -2 * ly <= W))
        for k, cnd in enumerate(conds):
            yield ("corner %d of the shape at the admissible position lies in the enclosure" % k, cnd)
