"""C01 -- XML write -> read reproduces scenario and planning problems.
The real writer (file_writer_xml.py) and the real reader (file_reader_xml.py) are executed symbolically, back to back,
on abstract XML trees: scenario objects are built with symbolic coordinates / values, written through the public
CommonRoadFileWriter, read back through CommonRoadFileReader, and compared: discrete content identical, reals within
10^-d.  float_to_str enters through its contract (checked separately, bounded, on real floats)."""
import os

import numpy as np
import z3

import commonroad.scenario.state as st
import contracts.c16  # noqa: F401
from commonroad.common.common_lanelet import LaneletType, LineMarking, RoadUser, StopLine
from commonroad.common.file_reader import CommonRoadFileReader
from commonroad.common.file_writer import CommonRoadFileWriter
from commonroad.common.util import AngleInterval, FileFormat, Interval, Time
from commonroad.common.writer.file_writer_interface import DecimalPrecision, OverwriteExistingFile
from commonroad.geometry.shape import Circle, Polygon, Rectangle, ShapeGroup
from commonroad.planning.goal import GoalRegion
from commonroad.planning.planning_problem import PlanningProblem, PlanningProblemSet
from commonroad.prediction.prediction import Occupancy, SetBasedPrediction, TrajectoryPrediction
from commonroad.scenario.intersection import Intersection, IntersectionIncomingElement
from commonroad.scenario.lanelet import Lanelet, LaneletNetwork
from commonroad.scenario.obstacle import DynamicObstacle, EnvironmentObstacle, ObstacleType, PhantomObstacle, SignalState, StaticObstacle
from commonroad.scenario.scenario import Environment, GeoTransformation, Location, Scenario, ScenarioID, Tag, TimeOfDay, Underground, Weather
from commonroad.scenario.traffic_light import TrafficLight, TrafficLightCycle, TrafficLightCycleElement, TrafficLightDirection, TrafficLightState
from commonroad.scenario.traffic_sign import TrafficSign, TrafficSignElement, TrafficSignIDGermany
from commonroad.scenario.trajectory import Trajectory
from pyvc.contract import B, Contract, R, T, conj, register
from pyvc.runner import summary_provider
from spec.approx import approx_eq, approx_parts
from spec.sets import TWO_PI

W = "commonroad.common.writer.file_writer_xml."
PRECISIONS = (1, 4, 12) if os.environ.get("VERIF_TIER") != "thorough" else tuple(range(1, 13))


@summary_provider("float_to_str")
def _float_to_str_summary():
    """contract of float_to_str(f): a plain-decimal text whose value is within 10^-d of f, d = precision.decimals
    (the body slices Python's str(float); the contract is discharged on that body by contracts/c01_f2s.py over a text model
    of str(float), and evaluated on real floats by the bounded layer)"""
    from pyvc.xmlmodel import NumText

    F2S = z3.Function("float_to_str_value", z3.RealSort(), z3.IntSort(), z3.RealSort())

    def summ(interp, args, kwargs):
        f = args[0]
        d = interp.getattr(DecimalPrecision, "decimals")
        if type(f).__name__ == "NumText":
            f = f.value
        from pyvc.core import Sym

        if type(f) is not Sym:
            return NumText(f, "plain", f)
        ctx = interp.ctx
        ft = z3.simplify(R(f))
        r = F2S(ft, z3.IntVal(int(d)))
        tol = z3.Q(1, 10 ** int(d))
        ctx.solver.add(r - ft < tol, ft - r < tol)
        # outside the exponent-notation range the text is a truncation of str(f): same sign, magnitude not larger -- for the NUMBER THE
        # READER OBTAINS, float(text): text <= dec(str(f)) and float(dec(str(f))) == f, float() is monotone
        small = z3.Q(1, 10000)
        ctx.solver.add(z3.Implies(ft >= small, z3.And(r >= 0, r <= ft)), z3.Implies(ft <= -small, z3.And(r <= 0, r >= ft)))
        seen = ctx.options.setdefault("__f2s__", [])
        for (f2, d2, r2) in seen:
            if d2 == int(d):
                ctx.lazy_axioms.append(z3.And(z3.Implies(ft <= f2, r <= r2), z3.Implies(f2 <= ft, r2 <= r)))
        seen.append((ft, int(d), r))
        ctx.used_models.add("callee contract used instead of body: float_to_str -- plain decimal text, a monotone function of the value, within 10^-d of it, a truncation towards zero outside the exponent range (each clause DISCHARGED on the real body per decimal precision by contracts/c01_f2s.py, relative to the text model T1-T3 of str(float) / format(); T1-T3 and the contract are also evaluated on real floats by the bounded layer)")
        return NumText(Sym(r, float), "plain", f)

    return {W + "float_to_str": summ}


def ang(F, name):
    v = F.real(name)
    F.assume(z3.And(R(v) >= -TWO_PI, R(v) <= TWO_PI))
    return v


def pos(F, name):
    return F.array([F.real(name + "x"), F.real(name + "y")])


def poly2(F, name, n=2):
    return F.array([[F.real("%s%dx" % (name, i)), F.real("%s%dy" % (name, i))] for i in range(n)])


def nat(F, name):
    v = F.int(name)
    F.assume(T(v) >= 0)
    return v


def positive(F, name):
    v = F.real(name)
    F.assume(R(v) > 0)
    return v


def interval(F, name, integer=False):
    a, b = (F.int(name + "0"), F.int(name + "1")) if integer else (F.real(name + "0"), F.real(name + "1"))
    F.assume(R(a) <= R(b))
    if integer:
        F.assume(z3.And(T(a) >= 0, T(b) >= 1))  # time intervals of the schema end at a positive step
    return F.new(Interval, a, b)


def angle_interval(F, name):
    a, b = ang(F, name + "0"), ang(F, name + "1")
    # intervals within 2*10^-d of the full circle can become >= 2pi by the truncation of their ends (d >= 1: margin 0.25)
    F.assume(z3.And(R(a) <= R(b), R(b) - R(a) < TWO_PI - z3.Q(1, 4)))
    return F.new(AngleInterval, a, b)


def initial_state(F, p, t=0, full=True):
    kw = dict(time_step=t, position=pos(F, p + "p"), orientation=ang(F, p + "o"), velocity=F.real(p + "v"), yaw_rate=F.real(p + "yaw"), slip_angle=F.real(p + "slip"))
    if full:
        kw["acceleration"] = F.real(p + "acc")
    return F.new(st.InitialState, **kw)


def ks_state(F, p, t):
    return F.new(st.KSState, time_step=t, position=pos(F, p + "p"), orientation=ang(F, p + "o"), velocity=F.real(p + "v"), steering_angle=F.real(p + "d"))


def signal(F, p, t):
    return F.new(SignalState, time_step=t, horn=True, indicator_left=True, indicator_right=False, braking_lights=False,
                 hazard_warning_lights=False, flashing_blue_lights=True)


def mk_network(F):
    net = F.new(LaneletNetwork)
    # the stop line also refers to a light (202) that its own lanelet does not list
    stop = F.new(StopLine, pos(F, "stop_s"), pos(F, "stop_e"), LineMarking.SOLID, {101}, {201, 202})
    left, right = poly2(F, "l1l"), poly2(F, "l1r")
    # the format stores the two boundaries; the centre line is their mean
    center = 0.5 * (left + right) if F.native else F.interp.binop(__import__("ast").Mult, 0.5, F.interp.binop(__import__("ast").Add, left, right))
    l1 = F.new(Lanelet, left, center, right, 1, [], [2], 3, True, None, None, LineMarking.DASHED, LineMarking.SOLID, stop,
               {LaneletType.URBAN, LaneletType.MAIN_CARRIAGE_WAY}, {RoadUser.CAR, RoadUser.BUS}, {RoadUser.BICYCLE}, {101}, {201})
    cv = lambda y: (np.array([[10.0, y + 1.0], [20.0, y + 1.25]]), np.array([[10.0, y + 0.5], [20.0, y + 0.75]]), np.array([[10.0, y], [20.0, y + 0.25]]))
    l2 = F.new(Lanelet, *cv(0.0), 2, [1], [], None, None, None, None, lanelet_type={LaneletType.URBAN}, traffic_lights={202})  # the schema requires a lanelet type
    l3 = F.new(Lanelet, *cv(3.0), 3, [2, 1], [], None, None, 1, True, lanelet_type={LaneletType.BUS_LANE})  # predecessor list deliberately not ascending
    for la in (l1, l2, l3):
        F.method(net, "add_lanelet", la)
    sign = F.new(TrafficSign, 101, [TrafficSignElement(TrafficSignIDGermany.MAX_SPEED, ["13.9"]), TrafficSignElement(TrafficSignIDGermany.PRIORITY, [])], {1}, pos(F, "sign_p"), True)
    cyc = F.new(TrafficLightCycle, [F.new(TrafficLightCycleElement, TrafficLightState.RED, 15), F.new(TrafficLightCycleElement, TrafficLightState.GREEN, 10)], 3, True)
    light = F.new(TrafficLight, 201, pos(F, "light_p"), cyc, direction=TrafficLightDirection.LEFT_STRAIGHT, active=True)
    cyc2 = F.new(TrafficLightCycle, [F.new(TrafficLightCycleElement, TrafficLightState.GREEN, 7), F.new(TrafficLightCycleElement, TrafficLightState.YELLOW, 2)], 0, True)
    light2 = F.new(TrafficLight, 202, pos(F, "light2_p"), cyc2, direction=TrafficLightDirection.RIGHT, active=True)
    F.method(net, "add_traffic_sign", sign, set())
    F.method(net, "add_traffic_light", light, set())
    F.method(net, "add_traffic_light", light2, set())
    # one incoming per successor kind alone (straight only / left only / right only): a guard copied from a neighbouring block shows
    inc = F.new(IntersectionIncomingElement, 302, {1}, set(), {2}, set(), None)
    inc_l = F.new(IntersectionIncomingElement, 303, {2}, set(), set(), {3}, 302)
    inc_r = F.new(IntersectionIncomingElement, 304, {3}, {1}, set(), set(), None)
    F.method(net, "add_intersection", F.new(Intersection, 301, [inc, inc_l, inc_r], {3}))
    return net


def mk_obstacles(F, content):
    rect = lambda p: F.new(Rectangle, positive(F, p + "l"), positive(F, p + "w"))
    out = []
    if "static" in content:
        out.append(_static(F, rect))
    if "dynamic" in content:
        out.append(_dynamic(F, rect))
    if "setbased" in content:
        out.append(_setbased(F, rect))
    if "phantom" in content:
        out.append(F.new(PhantomObstacle, 13, F.new(SetBasedPrediction, 1, [F.new(Occupancy, 1, F.new(Polygon, poly2(F, "ph_v", 3)))])))
    if "environment" in content:
        out.append(F.new(EnvironmentObstacle, 14, ObstacleType.BUILDING, F.new(Polygon, poly2(F, "env_v", 3))))
    return out


def _static(F, rect):
    return F.new(StaticObstacle, 10, ObstacleType.PARKED_VEHICLE, rect("so_"), initial_state(F, "so_i_"))  # the 2020a schema has no signal states for static obstacles


def _dynamic(F, rect):
    traj = F.new(Trajectory, 1, [ks_state(F, "do_s1_", 1), ks_state(F, "do_s2_", 2)])
    shape = rect("do_")  # the format stores one shape per obstacle: the prediction uses the obstacle's shape
    return F.new(DynamicObstacle, 11, ObstacleType.CAR, shape, initial_state(F, "do_i_"), F.new(TrajectoryPrediction, traj, shape), None, None,
                 signal(F, "do_sig_", 0), [signal(F, "do_ser_", 1)])


def _setbased(F, rect):
    occs = [F.new(Occupancy, 1, F.new(Rectangle, positive(F, "sb_o1l"), positive(F, "sb_o1w"), pos(F, "sb_o1c"), ang(F, "sb_o1o"))),
            F.new(Occupancy, 2, F.new(Circle, positive(F, "sb_o2r"), pos(F, "sb_o2c")))]
    return F.new(DynamicObstacle, 12, ObstacleType.PEDESTRIAN, F.new(Circle, positive(F, "d2_r")), initial_state(F, "d2_i_", full=False), F.new(SetBasedPrediction, 1, occs))


def _unused(F):
    rect = None
    static = F.new(StaticObstacle, 10, ObstacleType.PARKED_VEHICLE, rect("so_"), initial_state(F, "so_i_"))  # the 2020a schema has no signal states for static obstacles
    traj = F.new(Trajectory, 1, [ks_state(F, "do_s1_", 1), ks_state(F, "do_s2_", 2)])
    dyn = F.new(DynamicObstacle, 11, ObstacleType.CAR, rect("do_"), initial_state(F, "do_i_"), F.new(TrajectoryPrediction, traj, shape), None, None,
                signal(F, "do_sig_", 0), [signal(F, "do_ser_", 1)])
    occs = [F.new(Occupancy, 1, F.new(Rectangle, positive(F, "sb_o1l"), positive(F, "sb_o1w"), pos(F, "sb_o1c"), ang(F, "sb_o1o"))),
            F.new(Occupancy, 2, F.new(Circle, positive(F, "sb_o2r"), pos(F, "sb_o2c")))]
    dyn2 = F.new(DynamicObstacle, 12, ObstacleType.PEDESTRIAN, F.new(Circle, positive(F, "d2_r")), initial_state(F, "d2_i_", full=False), F.new(SetBasedPrediction, 1, occs))
    ph = F.new(PhantomObstacle, 13, F.new(SetBasedPrediction, 1, [F.new(Occupancy, 1, F.new(Polygon, poly2(F, "ph_v", 3)))]))
    env = F.new(EnvironmentObstacle, 14, ObstacleType.BUILDING, F.new(Polygon, poly2(F, "env_v", 3)))
    return [static, dyn, dyn2, ph, env]


def mk_scenario(F, content=("network", "static", "dynamic", "setbased", "phantom", "environment"), weather=Weather.HEAVY_RAIN):
    loc = F.new(Location, 2867714, F.real("lat"), F.real("lon"), F.new(GeoTransformation, "+proj=utm", F.real("gx"), F.real("gy"), F.real("gz"), positive(F, "gs")),
                F.new(Environment, Time(12, 15), TimeOfDay.NIGHT, weather, Underground.WET))
    sc = F.new(Scenario, positive(F, "dt"), F.new(ScenarioID, False, "DEU", "Muc", 2, 1, "T", [3, 1]), "author", {Tag.URBAN, Tag.INTERSECTION}, "affiliation", "source", loc)
    objs = []
    if "network" in content:
        objs.append(mk_network(F))
    if "mini_network" in content:  # two lanelets with concrete geometry (goal positions given by lanelets refer to them)
        net = F.new(LaneletNetwork)
        cv = lambda y: (np.array([[10.0, y + 1.0], [20.0, y + 1.25]]), np.array([[10.0, y + 0.5], [20.0, y + 0.75]]), np.array([[10.0, y], [20.0, y + 0.25]]))
        F.method(net, "add_lanelet", F.new(Lanelet, *cv(0.0), 2, [], [3], lanelet_type={LaneletType.URBAN}))
        F.method(net, "add_lanelet", F.new(Lanelet, *cv(3.0), 3, [2], [], lanelet_type={LaneletType.BUS_LANE}))
        objs.append(net)
    obstacles = mk_obstacles(F, content)
    F.method(sc, "add_objects", objs + obstacles)
    return sc


def mk_planning_problems(F, net=None):
    """net given: a second planning problem whose goal has a state WITHOUT position first and then a state whose position is given by
    lanelets (the reader rebuilds it as the group of their polygons) -- the goal-lanelet map is keyed by the index of the goal state"""
    g1 = F.new(st.CustomState, time_step=interval(F, "g1_t", True), position=F.new(Rectangle, positive(F, "g1_l"), positive(F, "g1_w"), pos(F, "g1_c"), ang(F, "g1_o")),
               orientation=angle_interval(F, "g1_or"), velocity=interval(F, "g1_v"))
    g2 = F.new(st.CustomState, time_step=interval(F, "g2_t", True), position=F.new(Circle, positive(F, "g2_r"), pos(F, "g2_c")))
    goal = F.new(GoalRegion, [g1, g2])
    pp = F.new(PlanningProblem, 500, initial_state(F, "pp_i_", 0), goal)
    pps = [pp]
    if net is not None:
        lanes = [F.method(net, "find_lanelet_by_id", i) for i in (2, 3)]
        g_time = F.new(st.CustomState, time_step=interval(F, "g3_t", True), velocity=interval(F, "g3_v"))
        g_lane = F.new(st.CustomState, time_step=interval(F, "g4_t", True), position=F.new(ShapeGroup, [F.attr(la, "polygon") for la in lanes]))
        goal2 = F.new(GoalRegion, [g_time, g_lane], {1: [2, 3]})
        pps.append(F.new(PlanningProblem, 501, initial_state(F, "pp2_i_", 0), goal2))
    return F.new(PlanningProblemSet, pps)


def state_of(F, cls, t, p):
    import dataclasses

    import commonroad.scenario.state as st
    kw = {}
    for f in dataclasses.fields(cls):
        if f.name == "time_step":
            kw[f.name] = t
        elif f.name == "position":
            kw[f.name] = pos(F, p + "p")
        elif f.name == "orientation":
            kw[f.name] = ang(F, p + "o")
        elif f.name == "hitch_angle":
            kw[f.name] = ang(F, p + "h")
        else:
            kw[f.name] = F.real(p + f.name)
    return F.new(cls, **kw)


def state_classes():
    import dataclasses

    import commonroad.scenario.state as st

    out = []
    for cls in st.SpecificStateClasses:
        names = {f.name for f in dataclasses.fields(cls)}
        if cls is not st.InitialState and {"position", "time_step"} <= names:
            out.append(cls)
    return out


def mk_trajectory_scenario(F, cls, shape_kind="rectangle"):
    """one dynamic obstacle whose two trajectory states are of class `cls`, every attribute symbolic"""
    from commonroad.scenario.scenario import Location as _Loc

    sc = F.new(Scenario, positive(F, "dt"), F.new(ScenarioID), "author", {Tag.URBAN}, "affiliation", "source", F.new(_Loc))
    if shape_kind == "group":
        shape = F.new(ShapeGroup, [F.new(Rectangle, positive(F, "o_l"), positive(F, "o_w")), F.new(Circle, positive(F, "o_r"), pos(F, "o_c"))])
    else:
        shape = F.new(Rectangle, positive(F, "o_l"), positive(F, "o_w"))
    traj = F.new(Trajectory, 1, [state_of(F, cls, 1, "s1_"), state_of(F, cls, 2, "s2_")])
    F.method(sc, "add_objects", F.new(DynamicObstacle, 11, ObstacleType.CAR, shape, initial_state(F, "i_"), F.new(TrajectoryPrediction, traj, shape)))
    return sc


class RoundTrip(Contract):
    prop = "C01"
    unroll = {"commonroad.common.util.make_valid_orientation": 3, "commonroad.common.util.make_valid_orientation_interval": 3}
    summaries = ("float_to_str", "make_valid_orientation")
    budget_s = 1800


CONTENTS = {"lanelet network": ("network",), "static obstacle": ("static",), "dynamic obstacle with trajectory": ("dynamic",),
            "dynamic obstacle with set-based prediction": ("setbased",), "phantom + environment obstacle": ("phantom", "environment"),
            "planning problems": (), "goal given by lanelets": ("mini_network", "goal_lanelets")}

for _d, _cname in [(d, c) for d in PRECISIONS for c in CONTENTS]:

    @register
    class WholeFile(RoundTrip):
        target = "commonroad.common.file_writer.CommonRoadFileWriter.write_to_file"
        case = "%s, decimal precision %d" % (_cname, _d)
        d, content = _d, CONTENTS[_cname]
        describe = "write_to_file then CommonRoadFileReader.open: same lanelets, signs, lights, intersections, obstacles of every role, planning problems; reals within 10^-d"

        def build(self, F):
            sc = mk_scenario(F, self.content)
            if "goal_lanelets" in self.content:
                pps = mk_planning_problems(F, F.attr(sc, "lanelet_network"))
            else:
                pps = mk_planning_problems(F) if not self.content else F.new(PlanningProblemSet)
            return {"sc": sc, "pps": pps, "args": []}

        def invoke(self, F, inp):
            path = "/nonexistent-dir/verif_c01_%d_%d.xml" % (self.d, len(self.content))
            if F.native:
                from pyvc.contract import scratch_dir

                path = os.path.join(scratch_dir("c01_"), "out.xml")
            w = F.new(CommonRoadFileWriter, inp["sc"], inp["pps"], decimal_precision=self.d, file_format=FileFormat.XML)
            F.method(w, "write_to_file", path, OverwriteExistingFile.ALWAYS)
            r = F.new(CommonRoadFileReader, path)
            return F.method(r, "open")

        def post(self, F, inp, out):
            yield ("writing and reading raise nothing", out.exc is None)
            if out.exc is None:
                sc2, pps2 = F.items(out.value)
                tol = z3.Q(1, 10 ** self.d)
                yield ("planning problems reproduced",) + approx_parts(inp["pps"], pps2, tol, F, path="planning_problem_set")
                # first occurrences of a traffic sign are not part of the file format: the reader re-derives them from the network
                # the colour list of a light is re-derived from its cycle by the reader; the virtual flag is a separate obligation
                yield ("lanelet network reproduced",) + approx_parts(F.attr(inp["sc"], "lanelet_network"), F.attr(sc2, "lanelet_network"), tol, F,
                                                                       ignore=("_first_occurrence", "_color", "_virtual"), path="lanelet_network")
                signs1 = F.items(F.attr(F.attr(inp["sc"], "lanelet_network"), "traffic_signs"))
                signs2 = F.items(F.attr(F.attr(sc2, "lanelet_network"), "traffic_signs"))
                if signs1:
                    yield ("traffic sign virtual flag reproduced", len(signs1) == len(signs2) and all(F.attr(a, "virtual") == F.attr(b, "virtual") for a, b in zip(signs1, signs2)))
                for role in ("static_obstacles", "dynamic_obstacles", "phantom_obstacle", "environment_obstacle"):
                    yield ("%s reproduced" % role,) + approx_parts(F.items(F.attr(inp["sc"], role)), F.items(F.attr(sc2, role)), tol, F, path=role)
                for k in ("dt", "scenario_id", "author", "tags", "affiliation", "source", "location"):
                    yield ("scenario %s reproduced" % k,) + approx_parts(F.attr(inp["sc"], k), F.attr(sc2, k), tol, F, path=k)


# ------------------------------------------------------------------------------ every state class, shape group, interval-valued states

XML_STATE_PRECISIONS = (4,) if os.environ.get("VERIF_TIER") != "thorough" else (1, 4, 12)


def _whole_file_post(self, F, inp, out):
    yield ("writing and reading raise nothing", out.exc is None)
    if out.exc is None:
        sc2, pps2 = F.items(out.value)
        tol = z3.Q(1, 10 ** self.d)
        for role in ("static_obstacles", "dynamic_obstacles"):
            yield ("%s reproduced" % role,) + approx_parts(F.items(F.attr(inp["sc"], role)), F.items(F.attr(sc2, role)), tol, F, path=role)


def _whole_file_invoke(self, F, inp):
    path = "/nonexistent-dir/verif_c01x_%d.xml" % self.d
    if F.native:
        from pyvc.contract import scratch_dir

        path = os.path.join(scratch_dir("c01_"), "out.xml")
    w = F.new(CommonRoadFileWriter, inp["sc"], inp["pps"], decimal_precision=self.d, file_format=FileFormat.XML)
    F.method(w, "write_to_file", path, OverwriteExistingFile.ALWAYS)
    return F.method(F.new(CommonRoadFileReader, path), "open")


for _d, _cls in [(d, c) for d in XML_STATE_PRECISIONS for c in state_classes()]:

    @register
    class TrajectoryStatesXml(RoundTrip):
        target = "commonroad.common.file_writer.CommonRoadFileWriter.write_to_file"
        case = "trajectory of %s, decimal precision %d" % (_cls.__name__, _d)
        d, cls = _d, _cls
        describe = "dynamic obstacle whose trajectory states are of this class: the reader picks the same class, every value within 10^-d"

        def build(self, F):
            return {"sc": mk_trajectory_scenario(F, self.cls), "pps": F.new(PlanningProblemSet), "args": []}

        invoke = _whole_file_invoke
        post = _whole_file_post


@register
class ShapeGroupObstacleXml(RoundTrip):
    target = "commonroad.common.file_writer.CommonRoadFileWriter.write_to_file"
    case = "obstacle with a shape group (rectangle + circle), decimal precision 4"
    d = 4
    describe = "a ShapeGroup obstacle shape is written member by member and read back as the same group"

    def build(self, F):
        return {"sc": mk_trajectory_scenario(F, st.KSState, "group"), "pps": F.new(PlanningProblemSet), "args": []}

    invoke = _whole_file_invoke
    post = _whole_file_post


@register
class IntervalStatesXml(RoundTrip):
    target = "commonroad.common.file_writer.CommonRoadFileWriter.write_to_file"
    case = "trajectory states with interval-valued and region-valued attributes, decimal precision 4"
    d = 4
    describe = "exact / interval / region valued attributes of trajectory states keep their kind and their values"

    def build(self, F):
        sc = F.new(Scenario, positive(F, "dt"), F.new(ScenarioID), "author", {Tag.URBAN}, "affiliation", "source", F.new(Location))
        shape = F.new(Rectangle, positive(F, "o_l"), positive(F, "o_w"))
        s1 = F.new(st.CustomState, time_step=1, position=F.new(Rectangle, positive(F, "r_l"), positive(F, "r_w"), pos(F, "r_c"), ang(F, "r_o")),
                   orientation=angle_interval(F, "s1_or"), velocity=interval(F, "s1_v"))
        s2 = F.new(st.CustomState, time_step=2, position=F.new(Circle, positive(F, "c_r"), pos(F, "c_c")), orientation=ang(F, "s2_o"), velocity=F.real("s2_v"))
        traj = F.new(Trajectory, 1, [s1, s2])
        F.method(sc, "add_objects", F.new(DynamicObstacle, 11, ObstacleType.CAR, shape, initial_state(F, "i_"), F.new(TrajectoryPrediction, traj, shape)))
        return {"sc": sc, "pps": F.new(PlanningProblemSet), "args": []}

    invoke = _whole_file_invoke
    post = _whole_file_post
