"""pyvc.core -- symbolic scalars, path context, obligations.

Design (see DESIGN.md section 2): the *structure* of every value (its Python type, the
spine of containers, the class of objects) is concrete on a path; only numbers and
booleans are symbolic (z3 terms).  Concrete values are plain CPython values.
Paths are enumerated by deterministic re-execution with a prescribed decision prefix.
"""
from __future__ import annotations

import math
import time
from fractions import Fraction

import numpy as np
import z3

# ----------------------------------------------------------------------------- errors


class Unsupported(Exception):
    """The code under verification uses something outside the modelled subset.
    Never mapped to a violation: the function is reported as out of reach."""


class SymLeak(Unsupported):
    """A symbolic value reached native code that needed its concrete value."""


class SpecAbort(Exception):
    """speculative (fork-free) evaluation of a boolean operand met a real fork or a heap write"""


class PathEnd(Exception):
    """Silently ends the current path (assumption became infeasible, loop-body path done)."""


class PyExc(Exception):
    """An exception of the *interpreted program* (not of the interpreter)."""

    def __init__(self, cls, args=(), line=None, where=None):
        super().__init__(cls.__name__)
        self.cls = cls
        self.exc_args = tuple(args)
        self.line = line
        self.where = where
        self.obj = None  # optional SObj for user exception instances

    def __repr__(self):
        return "PyExc(%s%s @%s:%s)" % (self.cls.__name__, tuple(str(a)[:60] for a in self.exc_args), self.where, self.line)


# ----------------------------------------------------------------------------- symbols

PI = z3.Real("PI")
PI_AXIOMS = [PI > z3.RealVal("3.14159265358979"), PI < z3.RealVal("3.14159265358980")]

_FLOAT_TYPES = (float,)


def is_float_type(ty):
    return ty is float or ty is np.float64 or (isinstance(ty, type) and issubclass(ty, float))


def is_int_type(ty):
    return ty is int or ty is np.int64 or (isinstance(ty, type) and issubclass(ty, (int, np.integer)) and ty is not bool)


class Sym:
    """A symbolic Python scalar: z3 term + the concrete Python type it has at run time."""

    __slots__ = ("t", "ty")

    def __init__(self, t, ty):
        self.t = t
        self.ty = ty

    # -- anything that would need the concrete value is a leak (loud, never silent)
    def __bool__(self):
        raise SymLeak("truth value of symbolic %s needed by native code" % self.ty.__name__)

    def __hash__(self):
        raise SymLeak("hash of symbolic value needed by native code")

    def __index__(self):
        raise SymLeak("index from symbolic value")

    def __int__(self):
        raise SymLeak("int() of symbolic value in native code")

    def __float__(self):
        raise SymLeak("float() of symbolic value in native code")

    def __eq__(self, other):
        raise SymLeak("== on symbolic value in native code")

    def __ne__(self, other):
        raise SymLeak("!= on symbolic value in native code")

    def __lt__(self, other):
        raise SymLeak("< on symbolic value in native code")

    __le__ = __gt__ = __ge__ = __lt__

    def __repr__(self):
        return "<sym %s %s>" % (self.ty.__name__, self.t)

    def __str__(self):
        return "<sym:%s>" % (self.ty.__name__,)

    def __format__(self, spec):
        return "<sym:%s>" % (self.ty.__name__,)


def is_sym(v):
    return type(v) is Sym


def is_number(v):
    """python-level 'is a real number (incl. bool)'"""
    if type(v) is Sym:
        return v.ty is not bool or True
    return isinstance(v, (int, float, np.number, bool)) and not isinstance(v, complex)


def pytype(v):
    """The Python type the value has at run time."""
    if type(v) is Sym:
        return v.ty
    from .objects import SObj, NDArr

    if type(v) is SObj:
        return v.cls
    if type(v) is NDArr:
        return np.ndarray
    if type(v).__module__ == "pyvc.shapely_model":
        import shapely.geometry
        import shapely.strtree

        if type(v).__name__ == "Geom":
            return shapely.geometry.Point if v.kind == "point" else shapely.geometry.Polygon
        if type(v).__name__ == "STRtreeModel":
            return shapely.strtree.STRtree
    if type(v).__module__ == "pyvc.xmlmodel":
        if type(v).__name__ == "XElem":
            import xml.etree.ElementTree as _ET
            from lxml import etree as _lx

            return _lx._Element if v.flavour == "lxml" else _ET.Element
        if type(v).__name__ == "NumText":
            return str
    if type(v).__module__ == "pyvc.tokstr" and type(v).__name__ in ("Atom", "TokStr"):
        return str
    if type(v).__module__ == "pyvc.pbmodel":
        if type(v).__name__ == "PMsg":
            return v.desc._concrete_class
        if type(v).__name__ == "PBytes":
            return bytes
    return type(v)


def frac_of_float(x):
    return Fraction(x)


def real_val(x):
    """exact z3 Real numeral for a python number (floats are taken as the rational they are)."""
    if isinstance(x, bool):
        return z3.RealVal(int(x))
    if isinstance(x, (int, np.integer)):
        return z3.RealVal(int(x))
    if isinstance(x, Fraction):
        return z3.RealVal(str(x.numerator)) / z3.RealVal(str(x.denominator)) if x.denominator != 1 else z3.RealVal(str(x.numerator))
    x = float(x)
    if math.isnan(x) or math.isinf(x):
        raise Unsupported("nan/inf literal")
    f = Fraction(x)
    if f.denominator == 1:
        return z3.RealVal(str(f.numerator))
    return z3.Q(f.numerator, f.denominator)


_PI_TABLE = None


def lift_pi(x):
    """Floats that are bit-equal to pi, 2pi, pi/2 are read as the mathematical constants
    (assumption A-PI, listed in evidence).  Applied on loads of names/attributes only."""
    if type(x) in (float, np.float64):
        xf = float(x)
        if xf == math.pi:
            return Sym(PI, float)
        if xf == 2.0 * math.pi:
            return Sym(2 * PI, float)
        if xf == math.pi / 2:
            return Sym(PI / 2, float)
        if xf == -math.pi:
            return Sym(-PI, float)
    return x


def term(v):
    """z3 term (Int/Real/Bool sort) of a scalar value."""
    if type(v) is Sym:
        return v.t
    if isinstance(v, (bool, np.bool_)):
        return z3.BoolVal(bool(v))
    if isinstance(v, (int, np.integer)):
        return z3.IntVal(int(v))
    if isinstance(v, (float, np.floating)):
        return real_val(float(v))
    if isinstance(v, Fraction):
        return real_val(v)
    if z3.is_expr(v):
        return v
    raise Unsupported("no z3 term for %r" % (type(v),))


def to_real(t):
    if z3.is_bool(t):
        return z3.If(t, z3.RealVal(1), z3.RealVal(0))
    if t.sort() == z3.IntSort():
        if z3.is_int_value(t):
            return z3.RealVal(t.as_long())
        return z3.ToReal(t)
    return t


def to_int(t):
    if z3.is_bool(t):
        return z3.If(t, z3.IntVal(1), z3.IntVal(0))
    return t


def num_term(v):
    """numeric z3 term (Int or Real); bools become 0/1 ints"""
    t = term(v)
    if z3.is_bool(t):
        return to_int(t)
    return t


def real_term(v):
    return to_real(term(v))


def unify(a, b):
    """bring two numeric terms to a common sort"""
    a = to_int(a) if z3.is_bool(a) else a
    b = to_int(b) if z3.is_bool(b) else b
    if a.sort() == b.sort():
        return a, b
    return to_real(a), to_real(b)


def simp(t):
    return z3.simplify(t)


def const_of(t):
    """python constant of a z3 numeral / bool literal, else None"""
    if z3.is_true(t):
        return True
    if z3.is_false(t):
        return False
    if z3.is_int_value(t):
        return t.as_long()
    if z3.is_rational_value(t):
        return Fraction(t.numerator_as_long(), t.denominator_as_long())
    return None


def mk(t, ty):
    """Sym or native constant, whichever the term is"""
    t = z3.simplify(t) if not z3.is_const(t) else t
    c = const_of(t)
    if c is not None:
        if ty is bool:
            return bool(c)
        if is_int_type(ty) and isinstance(c, int) and not isinstance(c, bool):
            return ty(c) if ty is not int else c
        if is_float_type(ty):
            f = float(c)
            if Fraction(f) == Fraction(c):  # exactly representable: keep native
                return ty(f) if ty is not float else f
    return Sym(t, ty)


# ----------------------------------------------------------------------------- context


class Obligation:
    __slots__ = ("kind", "label", "line", "status", "model", "detail", "secs", "func", "path", "backend", "info", "known")

    def __init__(self, kind, label, line=None, func=None):
        self.kind = kind
        self.label = label
        self.line = line
        self.func = func
        self.status = None  # 'discharged' | 'failed' | 'unknown'
        self.model = None
        self.detail = None
        self.secs = 0.0
        self.path = None
        self.backend = "z3"
        self.info = None
        self.known = None


CURRENT = None  # the context of the path being explored (spec functions add their axiom instances to it)


class Ctx:
    """State of one symbolic path."""

    def __init__(self, prefix=(), timeout_ms=10000, seed=0):
        global CURRENT
        CURRENT = self
        self.solver = z3.Solver()
        self.solver.set("timeout", timeout_ms)
        self.solver.set("random_seed", seed)
        self.timeout_ms = timeout_ms
        for ax in PI_AXIOMS:
            self.solver.add(ax)
        self.prefix = list(prefix)
        self.decisions = []  # decisions taken on this path
        self.pending = []  # alternative prefixes discovered
        self.obligations = []
        self.assumptions_log = []  # human readable
        self.fresh_counter = {}
        self.solver_secs = 0.0
        self.solver_calls = 0
        self.cur_line = None
        self.cur_func = None
        self.inputs = {}  # name -> (z3 const, pytype) registered by builders
        self.trig_terms = {}
        self.notes = []
        self.used_models = set()
        self.inlined = set()
        self.ghost = {}
        self.unknown_branches = 0
        self.spec_depth = 0  # > 0 while an operand of and/or is evaluated speculatively (no forks, no writes)
        self.deadline = None  # wall-clock deadline of the contract being verified
        self.thorough = False
        self.known_regions = {}  # obligation label -> region expression (known findings)
        self.round_terms = []
        self.round_cache = {}
        self.options = {}
        self.lazy_axioms = []  # nonlinear facts (e.g. sqrt(t)^2 == t) only given to the solver when an obligation needs them

    # -- fresh symbols ---------------------------------------------------------------
    def fresh_name(self, base):
        n = self.fresh_counter.get(base, 0)
        self.fresh_counter[base] = n + 1
        return "%s!%d" % (base, n) if n else base

    def fresh(self, base, ty):
        name = self.fresh_name(base)
        if ty is bool:
            t = z3.Bool(name)
        elif is_int_type(ty):
            t = z3.Int(name)
        else:
            t = z3.Real(name)
        return Sym(t, ty)

    def input(self, name, ty):
        s = self.fresh(name, ty)
        self.inputs[str(s.t)] = (s.t, ty)
        return s

    # -- solver ----------------------------------------------------------------------
    def _check(self, *extra):
        if self.deadline is not None and time.time() > self.deadline:
            raise Unsupported("wall-clock budget for this contract exhausted")
        t0 = time.time()
        r = self.solver.check(*extra)
        self.solver_secs += time.time() - t0
        self.solver_calls += 1
        return r

    def assume(self, cond, note=None):
        if isinstance(cond, bool):
            if not cond:
                raise PathEnd()
            return
        cond = term(cond)
        if z3.is_true(cond):
            return
        self.solver.add(cond)
        if note:
            self.assumptions_log.append(note)

    def assume_feasible(self, cond):
        """assume + end the path if it became infeasible"""
        self.assume(cond)
        if self._check() == z3.unsat:
            raise PathEnd()

    def feasible(self, cond=None):
        r = self._check() if cond is None else self._check(cond)
        return r != z3.unsat

    def branch(self, cond, strong=False):
        """Decide a symbolic condition; explores both sides over re-executions.
        strong: feasibility is decided with the held-back nonlinear axioms as well (used where an infeasible side
        would end in an exception, e.g. division by zero)."""
        if isinstance(cond, (bool, np.bool_)):
            return bool(cond)
        if type(cond) is Sym:
            cond = cond.t
        cond = z3.simplify(cond)
        if z3.is_true(cond):
            return True
        if z3.is_false(cond):
            return False
        k = len(self.decisions)
        if k < len(self.prefix):
            d = self.prefix[k]
            self.decisions.append(d)
            if d == "A":
                raise SpecAbort()
            self.solver.add(cond if d else z3.Not(cond))
            return d
        self.solver.set("timeout", min(self.timeout_ms, 2000))  # feasibility only prunes: unknown => both sides explored
        extra = list(self.lazy_axioms) if strong else []
        rt = self._check(cond, *extra)
        rf = self._check(z3.Not(cond), *extra)
        self.solver.set("timeout", self.timeout_ms)
        if rt == z3.unknown or rf == z3.unknown:
            self.unknown_branches += 1
        t_ok = rt != z3.unsat
        f_ok = rf != z3.unsat
        if t_ok and f_ok:
            if self.spec_depth > 0:
                self.decisions.append("A")  # recorded so that re-execution aborts the speculation at the same point
                raise SpecAbort()
            self.pending.append(self.decisions + [False])
            self.decisions.append(True)
            self.solver.add(cond)
            return True
        if t_ok:
            # forced, but recorded so that re-execution consumes the prefix consistently
            self.decisions.append(True)
            self.solver.add(cond)
            return True
        if f_ok:
            self.decisions.append(False)
            self.solver.add(z3.Not(cond))
            return False
        raise PathEnd()

    def truth(self, v):
        """Python truthiness of a value, forking if symbolic."""
        if type(v) is Sym:
            if v.ty is bool:
                return self.branch(v.t)
            t = v.t
            return self.branch(t != (z3.IntVal(0) if t.sort() == z3.IntSort() else z3.RealVal(0)))
        from .objects import SObj, NDArr

        if type(v) is SObj:
            return None  # interpreter must dispatch __bool__/__len__
        if type(v) is NDArr:
            return None
        return bool(v)

    # -- obligations -----------------------------------------------------------------
    def oblige(self, kind, label, cond, line=None, info=None, assume_after=True, parts=None):
        """parts: optional list of (name, condition) whose conjunction is `cond`; on failure the first part that is
        false in the counter-model is named in the obligation's detail"""
        ob = Obligation(kind, label, line if line is not None else self.cur_line, self.cur_func)
        ob.info = info
        ob.path = list(self.decisions)
        if isinstance(cond, (bool, np.bool_)):
            cond = z3.BoolVal(bool(cond))
        elif type(cond) is Sym:
            cond = cond.t
        t0 = time.time()
        if z3.is_true(z3.simplify(cond)):
            ob.status = "discharged"
            ob.backend = "simplify"
        else:
            r = self._check(z3.Not(cond))
            if r != z3.unsat and self.lazy_axioms:
                # second stage: with the nonlinear axioms that were held back
                r = self._check(z3.Not(cond), *self.lazy_axioms)
                ob.backend = "z3+lazy-axioms"
            if r == z3.unsat:
                ob.status = "discharged"
            elif r == z3.sat:
                ob.status = "failed"
                m0 = self.solver.model()
                ob.model = self._nice_model(cond) or m0
                if parts:
                    bad = []
                    for pname, pc in parts:
                        try:
                            if z3.is_false(ob.model.eval(pc if not isinstance(pc, bool) else z3.BoolVal(pc), model_completion=True)):
                                bad.append(pname)
                                if len(bad) >= 6:
                                    break
                        except z3.Z3Exception:
                            pass
                    if bad:
                        ob.detail = "fails for: %s" % ", ".join(bad)
            else:
                ob.status = "unknown"
                ob.detail = self.solver.reason_unknown()
                # second opinion: a fresh solver with the nonlinear tactic
                ob.status, ob.model, ob.backend = self._second_opinion(cond)
        if ob.status == "failed" and label in self.known_regions:
            ob.known = self._check_region(cond, self.known_regions[label])
        ob.secs = time.time() - t0
        self.obligations.append(ob)
        if assume_after and ob.status == "discharged":
            self.solver.add(cond)
        elif assume_after:
            # keep exploring under the condition if that is still feasible
            if self._check(cond) != z3.unsat:
                self.solver.add(cond)
            else:
                raise PathEnd()
        return ob

    def _nice_model(self, cond):
        """prefer a counter-model with small, round input values (better native replays)"""
        saved = self.timeout_ms
        try:
            self.solver.set("timeout", 2000)
            for denom, rng in ((1, 12), (4, 12), (64, 12)):
                cons = []
                for name, (c, ty) in self.inputs.items():
                    if c.sort() == z3.RealSort():
                        k = z3.Int(name + "!nice")
                        cons += [c * denom == z3.ToReal(k), k >= -rng * denom, k <= rng * denom]
                    elif c.sort() == z3.IntSort():
                        cons += [c >= -60, c <= 60]
                if not cons:
                    return None
                if self.solver.check(z3.Not(cond), *cons, *self.lazy_axioms) == z3.sat:
                    return self.solver.model()
        except z3.Z3Exception:
            pass
        finally:
            self.solver.set("timeout", saved)
        return None

    def _check_region(self, cond, region):
        """known finding: the obligation is allowed to fail inside `region` (predicate over the inputs).
        'inside' iff pc & not(cond) & not(region) is unsat, i.e. the obligation is PROVED outside the region."""
        env = {name: c for name, (c, ty) in self.inputs.items()}
        env.update({"And": z3.And, "Or": z3.Or, "Not": z3.Not, "PI": PI, "Implies": z3.Implies, "If": z3.If,
                    "ToReal": z3.ToReal})
        try:
            reg = eval(region, {"__builtins__": {}}, env)
        except Exception as e:  # region does not apply to this case's inputs
            return "outside (region not evaluable: %s)" % e
        if isinstance(reg, bool):
            reg = z3.BoolVal(reg)
        r = self._check(z3.Not(cond), z3.Not(reg))
        if r == z3.unsat:
            return "inside"
        if r == z3.sat:
            return "outside"
        return "unknown"

    def nlsat_check(self, cond, relevant_only=False):
        """pose pc & not(cond) to z3's nlsat after replacing applications of uninterpreted functions by
        fresh constants (sound for 'unsat': the abstraction only forgets congruence)."""
        try:
            asserts = list(self.solver.assertions()) + list(self.lazy_axioms) + [z3.Not(cond)]
            table = {}

            def abstract(e):
                if z3.is_app(e) and e.num_args() > 0 and e.decl().kind() == z3.Z3_OP_UNINTERPRETED:
                    key = e.get_id()
                    if key not in table:
                        table[key] = (e, z3.Const("uf!%d" % len(table), e.sort()))
                    return table[key][1]
                if z3.is_app(e) and e.num_args() > 0:
                    return e.decl()(*[abstract(c) for c in e.children()])
                return e

            goal = [abstract(a) for a in asserts]
            s2 = z3.Then("simplify", "solve-eqs", "qfnra-nlsat").solver()
            s2.set("timeout", self.timeout_ms)
            for a in goal:
                s2.add(a)
            t0 = time.time()
            r = s2.check()
            self.solver_secs += time.time() - t0
            self.solver_calls += 1
            return r
        except z3.Z3Exception:
            return z3.unknown

    def lemma(self, label, cond):
        """a lemma over spec terms: discharged (nlsat first, then the main solver), then available as a hypothesis"""
        ob = Obligation("lemma", label, self.cur_line, self.cur_func)
        ob.path = list(self.decisions)
        t0 = time.time()
        r = self.nlsat_check(cond)
        if r == z3.unsat:
            ob.status, ob.backend = "discharged", "z3-nlsat"
        else:
            r2 = self._check(z3.Not(cond))
            if r2 == z3.unsat:
                ob.status = "discharged"
            elif r2 == z3.sat:
                ob.status, ob.model = "failed", self.solver.model()
            else:
                ob.status, ob.detail = "unknown", "lemma not decided by nlsat/z3"
        ob.secs = time.time() - t0
        self.obligations.append(ob)
        if ob.status == "discharged":
            self.solver.add(cond)
        return ob

    def _second_opinion(self, cond):
        try:
            # equalities among the hypotheses are eliminated first (makes congruent terms syntactically equal)
            s3 = z3.Then("simplify", "propagate-values", "solve-eqs", "simplify", "smt").solver()
            s3.set("timeout", self.timeout_ms)
            for a in list(self.solver.assertions()) + list(self.lazy_axioms):
                s3.add(a)
            s3.add(z3.Not(cond))
            t0 = time.time()
            r3 = s3.check()
            self.solver_secs += time.time() - t0
            if r3 == z3.unsat:
                return "discharged", None, "z3-solve-eqs"
        except z3.Z3Exception:
            pass
        if self.nlsat_check(cond) == z3.unsat:
            return "discharged", None, "z3-nlsat"
        if self.thorough:
            r = cvc5_check([*self.solver.assertions(), z3.Not(cond)], self.timeout_ms)
            if r == "unsat":
                return "discharged", None, "cvc5"
            return "unknown", None, "z3+nlsat+cvc5"
        return "unknown", None, "z3+nlsat"

    def record_exception_path(self):
        pass


def cvc5_check(assertions, timeout_ms):
    """Pose the conjunction to the cvc5 binary through SMT-LIB2; returns 'sat'/'unsat'/'unknown'."""
    import subprocess
    import tempfile
    import os

    s = z3.Solver()
    for a in assertions:
        s.add(a)
    smt = s.to_smt2()
    smt = "(set-logic ALL)\n" + smt
    fd, path = tempfile.mkstemp(suffix=".smt2")
    try:
        with os.fdopen(fd, "w") as f:
            f.write(smt)
        try:
            out = subprocess.run(
                ["/usr/bin/cvc5", "--tlimit=%d" % timeout_ms, path], capture_output=True, text=True, timeout=timeout_ms / 1000 + 5
            )
            res = out.stdout.strip().split("\n")[0] if out.stdout.strip() else "unknown"
        except Exception:
            res = "unknown"
    finally:
        os.unlink(path)
    return res if res in ("sat", "unsat") else "unknown"


def model_value(model, t):
    v = model.eval(t, model_completion=True)
    c = const_of(v)
    if c is not None:
        return c
    if z3.is_algebraic_value(v):
        a = v.approx(20)
        return Fraction(a.numerator_as_long(), a.denominator_as_long())
    return None
