"""pyvc.bounded -- the bounded stand-in (never counted as proved).

One function's contract is ASSUMED by the deductive layer because its body manipulates the characters of str(float), which
the encoding does not model: file_writer_xml.float_to_str.  Here that contract is evaluated on the real function, natively,
for a stated, deterministic set of inputs: every decimal precision 1..12 x (structured floats: zero, +-m*10^k for 13
mantissas and k in -30..25, the neighbours of the exponent-notation thresholds 1e-4 and 1e16, one ulp around powers of
ten) + N log-uniform pseudo-random floats (seeded; N = 4000 quick / 60000 thorough), as float and as numpy.float64.
Bound: exactly this input set.  A failing input is reported as a violation of the property that relies on the contract
(C01: value within 10^-d; C03: plain decimal notation), with the input in the replay file."""
from __future__ import annotations

import json
import math
import os
import random
import re
from fractions import Fraction

import numpy as np

ROOT = os.path.dirname(os.path.dirname(os.path.abspath(__file__)))
OUT = os.environ.get("VERIF_OUT", ROOT)
PLAIN = re.compile(r"-?[0-9]+(\.[0-9]+)?")


def sample_floats(seed, n):
    vals = [0.0]
    mant = [1.0, 1.5, 2.5, 4.0, 5.0, 7.5, 9.999999, 1.0000001, 1.2345678901234567, 3.3333333333333335, 6.02214076, 8.0, 9.5]
    for k in range(-30, 26):
        for m in mant:
            vals.append(m * 10.0 ** k)
    for t in (1e-4, 1e16, 1e-5, 1e-3, 1.0, 10.0, 1e15, 1e17, 0.1, 0.5):
        vals += [t, math.nextafter(t, 0.0), math.nextafter(t, math.inf), math.nextafter(math.nextafter(t, 0.0), 0.0)]
    rng = random.Random(1000003 * (seed + 1))
    for _ in range(n):
        e = rng.uniform(-25, 20)
        vals.append(rng.uniform(1.0, 10.0) * 10.0 ** e)
    out = []
    for v in vals:
        out.append(v)
        if v != 0.0:
            out.append(-v)
    return out


def float_to_str_contract(prop, tier, seed):
    import commonroad.common.writer.file_writer_xml as fw

    n = 4000 if tier != "thorough" else 60000
    vals = sample_floats(seed, n)
    old = fw.precision.decimals
    evaluations = 0
    failures = []
    try:
        for d in range(1, 13):
            fw.precision.decimals = d
            tol = Fraction(1, 10 ** d)
            prev = None
            for conv in (float, np.float64):
                ordered = sorted(vals)
                prev = None
                for v in ordered:
                    x = conv(v)
                    s = fw.float_to_str(x)
                    evaluations += 1
                    bad = None
                    # the three facts of the text model (pyvc/xmlmodel.py NumText, T1-T3) that the DEDUCTIVE float_to_str contract
                    # (contracts/c01_f2s.py) assumes about str(float) / format(float, '.<d>f'), on the same floats
                    sx, fx = str(x), Fraction(float(v))
                    t3 = Fraction(format(x, ".%df" % d))
                    if ("e" in sx) != (fx != 0 and (abs(fx) < Fraction(1, 10000) or abs(fx) >= 10 ** 16)):
                        bad = "text model T1: exponent form of str(f) not as assumed"
                    elif "e" not in sx and (sx.count(".") != 1 or float(sx) != float(v) or not PLAIN.fullmatch(sx)):
                        bad = "text model T2: str(f) is not <digits>.<digits> denoting f"
                    elif abs(t3 - fx) > Fraction(1, 2 * 10 ** d) or (abs(fx) >= 2 ** 53 and t3 != fx) or not PLAIN.fullmatch(format(x, ".%df" % d)):
                        bad = "text model T3: format(f, '.%df') does not denote f rounded to %d decimals" % (d, d)
                    if bad:
                        if len(failures) < 5:
                            failures.append({"input": repr(x), "type": conv.__name__, "decimals": d, "result": s, "clause": bad})
                        continue
                    if not isinstance(s, str) or not PLAIN.fullmatch(s):
                        bad = "not plain decimal notation"
                    else:
                        r = Fraction(float(s))  # the number the reader obtains from the text
                        fv = Fraction(float(v))
                        if abs(r - fv) >= tol:
                            bad = "text differs from the value by %s >= 10^-%d" % (float(abs(r - fv)), d)
                        elif abs(fv) >= Fraction(1, 10000) and "e" not in str(x) and ((fv > 0 and r < 0) or (fv < 0 and r > 0) or abs(r) > abs(fv)):
                            bad = "float(text) is not a truncation of the value towards zero"
                        elif prev is not None and r < prev[1]:
                            bad = "not monotone: %r -> %s but %r -> %s" % (prev[0], prev[2], v, s)
                        prev = (v, r, s)
                    if bad and len(failures) < 5:
                        failures.append({"input": repr(x), "type": conv.__name__, "decimals": d, "result": s, "clause": bad})
    finally:
        fw.precision.decimals = old
    res = {"bounded": [{
        "name": "contract of file_writer_xml.float_to_str evaluated on the real function",
        "label": "bounded", "bound": "decimal precision 1..12 x %d floats (structured + %d seeded pseudo-random), as float and numpy.float64" % (len(vals), n),
        "evaluations": evaluations, "distinct_nontrivial": len(vals), "failures": len(failures),
        "clauses": ["plain decimal text", "|value(text) - f| < 10^-d", "float(text) truncates towards zero outside the exponent range", "monotone in f",
                    "text model T1-T3 assumed by the deductive float_to_str contract: exponent form of str(f) <=> f != 0 and (|f| < 1e-4 or |f| >= 1e16); otherwise <digits>.<digits> denoting f; format(f, '.<d>f') denotes f rounded to d decimals"],
    }], "violations": []}
    if failures:
        relevant = [f for f in failures if (prop == "C03") == (f["clause"].startswith("not plain"))] or failures
        os.makedirs(os.path.join(OUT, "replays"), exist_ok=True)
        path = os.path.join(OUT, "replays", "%s-bounded-float_to_str.json" % prop)
        with open(path, "w") as fh:
            json.dump({"property": prop, "obligation": "%s/commonroad.common.writer.file_writer_xml.float_to_str/assumed contract holds on real floats (bounded)" % prop,
                       "kind": "bounded run-time contract evaluation", "failing_inputs": relevant,
                       "replay": "set commonroad.common.writer.file_writer_xml.precision.decimals = <decimals>; call float_to_str(<input>)"}, fh, indent=1)
        f0 = relevant[0]
        res["violations"].append({"replay": os.path.relpath(path, ROOT), "confirmed": True,
                                  "what": "bounded: float_to_str(%s) with %d decimals gives %r: %s" % (f0["input"], f0["decimals"], f0["result"], f0["clause"])})
    return res


# ------------------------------------------------------------------------------ C04: enclosure for uncertain states


def enclosure_contract(prop, tier, seed):
    """geometry.shape.occupancy_shape_from_state for uncertain position / orientation: 'the occupancy encloses the shape for
    every admissible position and orientation'.  The argument needs monotonicity of l*cos(d) + w*sin(d) on an interval,
    which the sin/cos model (uninterpreted, sin^2+cos^2=1) cannot carry; the clause is therefore checked BOUNDED, natively:
    a fixed grid of shapes x position regions x orientations / orientation intervals, and for each a fixed set of
    admissible (position, orientation) samples (corners, edge midpoints, centre, interval ends and interior points, plus
    seeded pseudo-random interior points); every vertex (circle: 16 boundary points) of the placed shape must lie in the
    returned region (tolerance 1e-9).  Bound: exactly that grid."""
    import warnings

    from commonroad.common.util import AngleInterval
    from commonroad.geometry.shape import Circle, Polygon, Rectangle, occupancy_shape_from_state
    from commonroad.scenario.state import CustomState

    from .driver import load_known_findings

    rng = random.Random(7919 * (seed + 1))
    shapes = {
        "rectangle 4x2": Rectangle(4.0, 2.0), "rectangle 1x1": Rectangle(1.0, 1.0), "rectangle 5x0.5": Rectangle(5.0, 0.5),
        "circle r=1": Circle(1.0), "circle r=0.3": Circle(0.3),
        "polygon centred": Polygon(np.array([[-2.0, -1.0], [2.0, -1.0], [2.5, 0.0], [2.0, 1.0], [-2.0, 1.0], [-2.5, 0.0]])),
        "polygon off-centre": Polygon(np.array([[0.0, 0.0], [4.0, 0.0], [0.0, 2.0]])),
    }
    c0 = np.array([10.0, 5.0])
    regions = {"exact": None}
    for (l, w) in ((1.0, 0.5), (2.0, 2.0)):
        for th in (0.0, 0.4, -1.1, 2.5):
            regions["rectangle %sx%s @%s" % (l, w, th)] = Rectangle(l, w, c0, th)
    regions["circle r=0.7"] = Circle(0.7, c0)
    regions["polygon"] = Polygon(np.array([[9.0, 4.5], [11.0, 4.5], [10.5, 6.0]]))
    orients = {"exact %s" % a: a for a in (0.0, 0.7, -2.0, 3.0)}
    for a0 in (0.0, 0.7, -2.0):
        for ln in (0.2, 1.0, 2.5):
            orients["interval [%s, %s]" % (a0, a0 + ln)] = AngleInterval(a0, a0 + ln)
    n_rand = 4 if tier != "thorough" else 40

    def positions(reg):
        if reg is None:
            return [c0]
        if isinstance(reg, Circle):
            pts = [reg.center] + [reg.center + reg.radius * np.array([math.cos(k * math.pi / 4), math.sin(k * math.pi / 4)]) for k in range(8)]
            for _ in range(n_rand):
                r, a = reg.radius * math.sqrt(rng.random()), rng.uniform(0, 2 * math.pi)
                pts.append(reg.center + r * np.array([math.cos(a), math.sin(a)]))
            return pts
        vs = [np.array(v) for v in reg.vertices[:-1]] if np.allclose(reg.vertices[0], reg.vertices[-1]) else [np.array(v) for v in reg.vertices]
        pts = list(vs) + [(vs[i] + vs[(i + 1) % len(vs)]) / 2 for i in range(len(vs))] + [sum(vs) / len(vs)]
        for _ in range(n_rand):
            wts = np.array([rng.random() for _ in vs])
            wts /= wts.sum()
            pts.append(sum(wi * v for wi, v in zip(wts, vs)))
        return pts

    def angles(o):
        if not isinstance(o, AngleInterval):
            return [o]
        a, b = o.start, o.end
        return [a, b, (a + b) / 2] + [a + (b - a) * k / 6 for k in range(1, 6)] + [rng.uniform(a, b) for _ in range(n_rand)]

    def boundary(placed):
        if isinstance(placed, Circle):
            return [placed.center + placed.radius * np.array([math.cos(k * math.pi / 8), math.sin(k * math.pi / 8)]) for k in range(16)]
        return [np.array(v) for v in placed.vertices]

    def inside(enc, pt):
        if isinstance(enc, Rectangle):
            d = pt - enc.center
            c, s = math.cos(enc.orientation), math.sin(enc.orientation)
            x, y = c * d[0] + s * d[1], -s * d[0] + c * d[1]
            return abs(x) <= enc.length / 2 + 1e-9 and abs(y) <= enc.width / 2 + 1e-9
        return bool(enc.contains_point(pt))

    known = {k.get("region"): k for k in load_known_findings() if k.get("property") == prop and k.get("obligation") == "C04/bounded/enclosure"}
    evaluations = cases = 0
    failures = {}
    with warnings.catch_warnings():
        warnings.simplefilter("ignore")
        for sname, shape in shapes.items():
            for rname, reg in regions.items():
                for oname, o in orients.items():
                    if reg is None and not isinstance(o, AngleInterval):
                        continue
                    cases += 1
                    st = CustomState(time_step=0, position=reg if reg is not None else c0, orientation=o)
                    try:
                        enc = occupancy_shape_from_state(shape, st)
                    except Exception as e:  # the real code raised
                        failures.setdefault("shape=%s" % sname.split(" ")[0] + ("-offcentre" if "off-centre" in sname else ""), []).append(
                            {"shape": sname, "position": rname, "orientation": oname, "raised": "%s: %s" % (type(e).__name__, e)})
                        continue
                    for p in positions(reg):
                        for a in angles(o):
                            placed = shape.rotate_translate_local(np.array(p, dtype=float), float(a))
                            for pt in boundary(placed):
                                evaluations += 1
                                if not inside(enc, pt):
                                    # failure classes: the two asymmetric-polygon cases are separate from everything else
                                    if "off-centre" in sname:
                                        key = "shape=polygon-offcentre"
                                    elif rname == "polygon":
                                        key = "position=asymmetric-polygon"
                                    else:
                                        key = "shape=%s,position=%s" % (sname.split(" ")[0], rname.split(" ")[0])
                                    fl = failures.setdefault(key, [])
                                    if len(fl) < 3:
                                        fl.append({"shape": sname, "position region": rname, "orientation": oname, "admissible position": [float(x) for x in p],
                                                   "admissible orientation": float(a), "point of the placed shape": [float(x) for x in pt],
                                                   "returned region": "Rectangle(%r, %r, %r, %r)" % (enc.length, enc.width, list(map(float, enc.center)), enc.orientation)
                                                   if isinstance(enc, Rectangle) else repr(enc)})
    res = {"bounded": [{
        "name": "occupancy_shape_from_state encloses the shape for every admissible position and orientation", "label": "bounded",
        "bound": "%d (shape, position region, orientation) cases x fixed admissible samples (+%d seeded random per region / interval); tolerance 1e-9" % (cases, n_rand),
        "evaluations": evaluations, "distinct_nontrivial": cases, "failures": sum(len(v) for v in failures.values()),
    }], "violations": [], "known": []}
    for key, fl in failures.items():
        if key in known:
            res["known"].append("%s [C04/bounded/enclosure, %s]" % (known[key]["text"], key))
            continue
        os.makedirs(os.path.join(OUT, "replays"), exist_ok=True)
        path = os.path.join(OUT, "replays", "%s-bounded-enclosure-%s.json" % (prop, re.sub(r"[^A-Za-z0-9]+", "_", key)))
        with open(path, "w") as fh:
            json.dump({"property": prop, "obligation": "C04/bounded/enclosure (%s)" % key, "kind": "bounded run-time contract evaluation", "failing_inputs": fl,
                       "replay": "occupancy_shape_from_state(shape, CustomState(time_step=0, position=<region>, orientation=<orientation>)); place the shape at the admissible "
                                 "position / orientation with rotate_translate_local and test the listed point against the returned region"}, fh, indent=1)
        f0 = fl[0]
        res["violations"].append({"replay": os.path.relpath(path, ROOT), "confirmed": True,
                                  "what": "bounded: enclosure does not contain the placed shape: %s" % json.dumps(f0)[:400]})
    return res


# ------------------------------------------------------------------------------ C06: spatial lookups vs independent geometry


def _pip(pt, ring):
    """even-odd point in polygon; returns None when pt is within 1e-7 of an edge (boundary points are not compared)"""
    x, y = pt
    inside = False
    n = len(ring)
    for i in range(n):
        x1, y1 = ring[i]
        x2, y2 = ring[(i + 1) % n]
        dx, dy = x2 - x1, y2 - y1
        L2 = dx * dx + dy * dy
        if L2 > 0:
            t = max(0.0, min(1.0, ((x - x1) * dx + (y - y1) * dy) / L2))
            if math.hypot(x - (x1 + t * dx), y - (y1 + t * dy)) < 1e-7:
                return None
        if (y1 > y) != (y2 > y):
            xi = x1 + (y - y1) * (x2 - x1) / (y2 - y1)
            if xi > x:
                inside = not inside
    return inside


def _seg_dist(p, a, b):
    dx, dy = b[0] - a[0], b[1] - a[1]
    L2 = dx * dx + dy * dy
    t = 0.0 if L2 == 0 else max(0.0, min(1.0, ((p[0] - a[0]) * dx + (p[1] - a[1]) * dy) / L2))
    return math.hypot(p[0] - (a[0] + t * dx), p[1] - (a[1] + t * dy))


def _seg_x(a, b, c, d):
    def o(p, q, r):
        return (q[0] - p[0]) * (r[1] - p[1]) - (q[1] - p[1]) * (r[0] - p[0])
    o1, o2, o3, o4 = o(a, b, c), o(a, b, d), o(c, d, a), o(c, d, b)
    if min(abs(o1), abs(o2), abs(o3), abs(o4)) < 1e-9:
        return None  # touching / collinear: not compared
    return (o1 > 0) != (o2 > 0) and (o3 > 0) != (o4 > 0)


def _poly_x(r1, r2):
    """do two simple polygons intersect? None when the answer hinges on touching boundaries"""
    for i in range(len(r1)):
        for j in range(len(r2)):
            x = _seg_x(r1[i], r1[(i + 1) % len(r1)], r2[j], r2[(j + 1) % len(r2)])
            if x is None:
                return None
            if x:
                return True
    a, b = _pip(r1[0], r2), _pip(r2[0], r1)
    if a is None or b is None:
        return None
    return bool(a or b)


def spatial_contract(prop, tier, seed):
    """C06 is proved RELATIVE to shapely's predicates (uninterpreted in the model).  That shapely, as the library uses it
    (buffered polygons, STRtree, candidate filtering), answers like plain planar geometry is checked BOUNDED, natively:
    seeded pseudo-random networks of 6 curved, partly overlapping and adjacent lanelets, built over four routes
    (create_from_lanelet_list, lanelet by lanelet, deepcopy, pickle), against an independent even-odd point-in-polygon /
    segment-intersection implementation: find_lanelet_by_position and Lanelet.contains_points for N query points (interior,
    exterior, far away), find_lanelet_by_shape for rectangles, circles and polygons.  Points / shapes within 1e-7 of a
    boundary are skipped (boundary semantics are not part of the comparison).  Bound: exactly these networks and queries."""
    import copy
    import pickle
    import warnings

    from commonroad.geometry.shape import Circle, Polygon, Rectangle
    from commonroad.scenario.lanelet import Lanelet, LaneletNetwork

    from .driver import load_known_findings

    rng = random.Random(104729 * (seed + 1))
    n_nets = 10 if tier != "thorough" else 40
    n_pts = 600 if tier != "thorough" else 2500
    n_shapes = 120 if tier != "thorough" else 500
    known = {k.get("region"): k for k in load_known_findings() if k.get("property") == prop and k.get("obligation") == "C06/bounded/spatial"}
    evaluations = 0
    failures = {}

    def mk_lanelet(lid, start, heading):
        pts = [np.array(start)]
        h = heading
        for _ in range(rng.choice((2, 3))):
            h += rng.uniform(-0.4, 0.4)
            pts.append(pts[-1] + rng.uniform(4, 9) * np.array([math.cos(h), math.sin(h)]))
        w = rng.uniform(2.0, 4.0)
        left, right = [], []
        for i, p in enumerate(pts):
            d = (pts[min(i + 1, len(pts) - 1)] - pts[max(i - 1, 0)])
            nrm = np.array([-d[1], d[0]]) / np.linalg.norm(d)
            left.append(p + nrm * w / 2)
            right.append(p - nrm * w / 2)
        return Lanelet(np.array(left), np.array(pts), np.array(right), lid)

    def fail(key, rec):
        fl = failures.setdefault(key, [])
        if len(fl) < 3:
            fl.append(rec)

    with warnings.catch_warnings():
        warnings.simplefilter("ignore")
        for k in range(n_nets):
            lanes = []
            for i in range(6):
                if i and rng.random() < 0.5:  # adjacent / overlapping: start near an existing lanelet
                    base = lanes[rng.randrange(len(lanes))]
                    start = base.center_vertices[rng.randrange(len(base.center_vertices))] + np.array([rng.uniform(-2, 2), rng.uniform(-2, 2)])
                else:
                    start = np.array([rng.uniform(-20, 20), rng.uniform(-20, 20)])
                lanes.append(mk_lanelet(100 + i, start, rng.uniform(0, 2 * math.pi)))
            rings = {la.lanelet_id: [tuple(v) for v in np.concatenate((la.right_vertices, np.flip(la.left_vertices, 0)))] for la in lanes}
            routes = {"create_from_lanelet_list": LaneletNetwork.create_from_lanelet_list(copy.deepcopy(lanes))}
            net2 = LaneletNetwork()
            for la in copy.deepcopy(lanes):
                net2.add_lanelet(la)
            routes["add_lanelet one by one"] = net2
            routes["deepcopy"] = copy.deepcopy(routes["create_from_lanelet_list"])
            routes["pickle"] = pickle.loads(pickle.dumps(net2))
            pts = [np.array([rng.uniform(-35, 35), rng.uniform(-35, 35)]) for _ in range(n_pts)]
            pts += [la.center_vertices[1] for la in lanes] + [np.array([1e4, -1e4]), np.array([-500.0, 3.0])]
            for rname, net in routes.items():
                got = net.find_lanelet_by_position(pts)
                for p, g in zip(pts, got):
                    truth = {lid: _pip(tuple(p), ring) for lid, ring in rings.items()}
                    if any(v is None for v in truth.values()):
                        continue
                    evaluations += 1
                    exp = {lid for lid, v in truth.items() if v}
                    if set(g) != exp:
                        fail("find_lanelet_by_position", {"route": rname, "network": k, "point": [float(x) for x in p], "returned": sorted(g), "geometry says": sorted(exp),
                                                          "lanelet rings": {str(i): [list(map(float, v)) for v in r] for i, r in rings.items() if i in (set(g) ^ exp)}})
                for la in net.lanelets[:2]:
                    cp = la.contains_points(np.array(pts[:60]))
                    for p, c in zip(pts[:60], cp):
                        t = _pip(tuple(p), rings[la.lanelet_id])
                        if t is None:
                            continue
                        evaluations += 1
                        if bool(c) != t:
                            fail("Lanelet.contains_points", {"route": rname, "lanelet": la.lanelet_id, "point": [float(x) for x in p], "returned": bool(c), "geometry says": t})
            net = routes["create_from_lanelet_list"]
            for _ in range(n_shapes):
                c = np.array([rng.uniform(-30, 30), rng.uniform(-30, 30)])
                kind = rng.choice(("rectangle", "circle", "polygon"))
                if kind == "rectangle":
                    sh = Rectangle(rng.uniform(1, 8), rng.uniform(0.5, 4), c, rng.uniform(-3, 3))
                    ring = [tuple(v) for v in sh.vertices[:-1]]
                elif kind == "polygon":
                    ring = [tuple(c + np.array(v)) for v in ((0, 0), (rng.uniform(2, 6), 0.5), (rng.uniform(1, 5), rng.uniform(2, 6)))]
                    sh = Polygon(np.array(ring))
                else:
                    r = rng.uniform(0.5, 5)
                    sh = Circle(r, c)
                    ring = None
                got = set(net.find_lanelet_by_shape(sh))
                exp, skip = set(), False
                for lid, lr in rings.items():
                    if ring is not None:
                        x = _poly_x(ring, lr)
                    else:
                        dmin = min(_seg_dist(c, lr[i], lr[(i + 1) % len(lr)]) for i in range(len(lr)))
                        ins = _pip(tuple(c), lr)
                        x = None if (ins is None or abs(dmin - sh.radius) < 1e-7) else bool(ins or dmin < sh.radius)
                    if x is None:
                        skip = True
                        break
                    if x:
                        exp.add(lid)
                if skip:
                    continue
                evaluations += 1
                if got != exp:
                    fail("find_lanelet_by_shape,query=%s" % kind, {"network": k, "shape": ("Circle(%r, %r)" % (sh.radius, list(map(float, c)))) if ring is None else ("%s with ring %r" % (kind, [list(map(float, v)) for v in ring])),
                                                                    "returned": sorted(got), "geometry says": sorted(exp),
                                                                    "lanelet rings": {str(i): [list(map(float, v)) for v in r] for i, r in rings.items() if i in (got ^ exp)}})
    res = {"bounded": [{
        "name": "spatial lookups agree with independent planar geometry (shapely as used by the library)", "label": "bounded",
        "bound": "%d seeded networks of 6 lanelets x 4 construction routes x %d query points, %d query shapes per network; boundary cases within 1e-7 skipped" % (n_nets, n_pts + 8, n_shapes),
        "evaluations": evaluations, "distinct_nontrivial": n_nets * 4, "failures": sum(len(v) for v in failures.values()),
    }], "violations": [], "known": []}
    for key, fl in failures.items():
        if key in known:
            res["known"].append("%s [C06/bounded/spatial, %s]" % (known[key]["text"], key))
            continue
        os.makedirs(os.path.join(OUT, "replays"), exist_ok=True)
        path = os.path.join(OUT, "replays", "%s-bounded-spatial-%s.json" % (prop, re.sub(r"[^A-Za-z0-9]+", "_", key)))
        with open(path, "w") as fh:
            json.dump({"property": prop, "obligation": "C06/bounded/spatial (%s)" % key, "kind": "bounded run-time contract evaluation", "failing_inputs": fl,
                       "replay": "build the lanelets from the listed rings (right boundary + reversed left boundary) and repeat the query"}, fh, indent=1, default=str)
        res["violations"].append({"replay": os.path.relpath(path, ROOT), "confirmed": True, "what": "bounded: %s disagrees with planar geometry: %s" % (key, json.dumps(fl[0], default=str)[:400])})
    return res
