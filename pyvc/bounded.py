"""pyvc.bounded -- the bounded stand-in (never counted as proved).

One function's contract is ASSUMED by the deductive layer because its body manipulates the characters of str(float), which
the encoding does not model: file_writer_xml.float_to_str.  Here that contract is evaluated on the real function, natively,
for a stated, deterministic set of inputs: every decimal precision 1..12 x (structured floats: zero, +-m*10^k for 13
mantissas and k in -30..25, the neighbours of the exponent-notation thresholds 1e-4 and 1e16, one ulp around powers of
ten) + N log-uniform pseudo-random floats (seeded; N = 4000 quick / 60000 thorough), as float and as numpy.float64.
Bound: exactly this input set.  A failing input is reported as a violation of the property that relies on the contract
(C01: value within 10^-d; C03: plain decimal notation), with the input in the replay file."""
from __future__ import annotations

import json
import math
import os
import random
import re
from fractions import Fraction

import numpy as np

ROOT = os.path.dirname(os.path.dirname(os.path.abspath(__file__)))
PLAIN = re.compile(r"-?[0-9]+(\.[0-9]+)?")


def sample_floats(seed, n):
    vals = [0.0]
    mant = [1.0, 1.5, 2.5, 4.0, 5.0, 7.5, 9.999999, 1.0000001, 1.2345678901234567, 3.3333333333333335, 6.02214076, 8.0, 9.5]
    for k in range(-30, 26):
        for m in mant:
            vals.append(m * 10.0 ** k)
    for t in (1e-4, 1e16, 1e-5, 1e-3, 1.0, 10.0, 1e15, 1e17, 0.1, 0.5):
        vals += [t, math.nextafter(t, 0.0), math.nextafter(t, math.inf), math.nextafter(math.nextafter(t, 0.0), 0.0)]
    rng = random.Random(1000003 * (seed + 1))
    for _ in range(n):
        e = rng.uniform(-25, 20)
        vals.append(rng.uniform(1.0, 10.0) * 10.0 ** e)
    out = []
    for v in vals:
        out.append(v)
        if v != 0.0:
            out.append(-v)
    return out


def float_to_str_contract(prop, tier, seed):
    import commonroad.common.writer.file_writer_xml as fw

    n = 4000 if tier != "thorough" else 60000
    vals = sample_floats(seed, n)
    old = fw.precision.decimals
    evaluations = 0
    failures = []
    try:
        for d in range(1, 13):
            fw.precision.decimals = d
            tol = Fraction(1, 10 ** d)
            prev = None
            for conv in (float, np.float64):
                ordered = sorted(vals)
                prev = None
                for v in ordered:
                    x = conv(v)
                    s = fw.float_to_str(x)
                    evaluations += 1
                    bad = None
                    if not isinstance(s, str) or not PLAIN.fullmatch(s):
                        bad = "not plain decimal notation"
                    else:
                        r = Fraction(float(s))  # the number the reader obtains from the text
                        fv = Fraction(float(v))
                        if abs(r - fv) >= tol:
                            bad = "text differs from the value by %s >= 10^-%d" % (float(abs(r - fv)), d)
                        elif abs(fv) >= Fraction(1, 10000) and "e" not in str(x) and ((fv > 0 and r < 0) or (fv < 0 and r > 0) or abs(r) > abs(fv)):
                            bad = "float(text) is not a truncation of the value towards zero"
                        elif prev is not None and r < prev[1]:
                            bad = "not monotone: %r -> %s but %r -> %s" % (prev[0], prev[2], v, s)
                        prev = (v, r, s)
                    if bad and len(failures) < 5:
                        failures.append({"input": repr(x), "type": conv.__name__, "decimals": d, "result": s, "clause": bad})
    finally:
        fw.precision.decimals = old
    res = {"bounded": [{
        "name": "contract of file_writer_xml.float_to_str evaluated on the real function",
        "label": "bounded", "bound": "decimal precision 1..12 x %d floats (structured + %d seeded pseudo-random), as float and numpy.float64" % (len(vals), n),
        "evaluations": evaluations, "distinct_nontrivial": len(vals), "failures": len(failures),
        "clauses": ["plain decimal text", "|value(text) - f| < 10^-d", "float(text) truncates towards zero outside the exponent range", "monotone in f"],
    }], "violations": []}
    if failures:
        relevant = [f for f in failures if (prop == "C03") == (f["clause"].startswith("not plain"))] or failures
        os.makedirs(os.path.join(ROOT, "replays"), exist_ok=True)
        path = os.path.join(ROOT, "replays", "%s-bounded-float_to_str.json" % prop)
        with open(path, "w") as fh:
            json.dump({"property": prop, "obligation": "%s/commonroad.common.writer.file_writer_xml.float_to_str/assumed contract holds on real floats (bounded)" % prop,
                       "kind": "bounded run-time contract evaluation", "failing_inputs": relevant,
                       "replay": "set commonroad.common.writer.file_writer_xml.precision.decimals = <decimals>; call float_to_str(<input>)"}, fh, indent=1)
        f0 = relevant[0]
        res["violations"].append({"replay": os.path.relpath(path, ROOT), "confirmed": True,
                                  "what": "bounded: float_to_str(%s) with %d decimals gives %r: %s" % (f0["input"], f0["decimals"], f0["result"], f0["clause"])})
    return res
