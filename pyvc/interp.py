"""pyvc.interp -- symbolic interpreter for the Python subset of DESIGN.md section 2.3.

It interprets the AST of the *real* source files (located through the code objects of the
functions imported from /repo), with concrete structure and symbolic scalars.
"""
from __future__ import annotations

import ast
import builtins
import dataclasses
import enum
import inspect
import re
import types
import warnings

import numpy as np
import z3

from . import ops
from .core import Ctx, PathEnd, PyExc, SpecAbort, Sym, SymLeak, Unsupported, lift_pi, mk, pytype, term
from .objects import NDArr, SObj, SymStr

# ------------------------------------------------------------------------------ source table

_FILE_CACHE = {}


class FileInfo:
    def __init__(self, path):
        self.path = path
        with open(path, "r") as f:
            self.text = f.read()
        self.tree = ast.parse(self.text, filename=path)
        self.lines = self.text.split("\n")
        self.by_line = {}
        for node in ast.walk(self.tree):
            if isinstance(node, (ast.FunctionDef, ast.AsyncFunctionDef, ast.Lambda)):
                self.by_line.setdefault(node.lineno, []).append(node)
                for d in getattr(node, "decorator_list", []):
                    self.by_line.setdefault(d.lineno, []).append(node)


def file_info(path):
    fi = _FILE_CACHE.get(path)
    if fi is None:
        fi = _FILE_CACHE[path] = FileInfo(path)
    return fi


def reset_source_cache():
    _FILE_CACHE.clear()


def func_node(pyfunc):
    """AST node of a real python function, found through its code object."""
    code = pyfunc.__code__
    path = code.co_filename
    if not path or path.startswith("<"):
        raise Unsupported("function %s has no source file (generated code)" % getattr(pyfunc, "__qualname__", pyfunc))
    fi = file_info(path)
    cands = fi.by_line.get(code.co_firstlineno, [])
    name = code.co_name
    for n in cands:
        if isinstance(n, ast.Lambda) and name == "<lambda>":
            return n, fi
        if isinstance(n, (ast.FunctionDef,)) and n.name == name:
            return n, fi
    raise Unsupported("source of %s not found at %s:%d" % (name, path, code.co_firstlineno))


# ------------------------------------------------------------------------------ function values


class Closure:
    """A function defined by interpreted code (nested def / lambda) or a real module-level /
    class-level function wrapped for interpretation."""

    __slots__ = ("node", "fi", "globals", "env", "defaults", "kwdefaults", "name", "defcls", "pyfunc", "qualname")

    def __init__(self, node, fi, globals_, env, defaults, kwdefaults, name, defcls=None, pyfunc=None, qualname=None):
        self.node = node
        self.fi = fi
        self.globals = globals_
        self.env = env
        self.defaults = defaults
        self.kwdefaults = kwdefaults
        self.name = name
        self.defcls = defcls
        self.pyfunc = pyfunc
        self.qualname = qualname or name

    def __repr__(self):
        return "<Closure %s>" % self.qualname


class BoundMethod:
    __slots__ = ("func", "self")

    def __init__(self, func, self_):
        self.func = func
        self.self = self_


class SuperProxy:
    __slots__ = ("obj", "after")

    def __init__(self, obj, after):
        self.obj = obj
        self.after = after


class SymKey:
    """wrapper that lets a symbolic number be a key of a native dict / member of a native set
    (hash and == by identity of the wrapper; the interpreter compares the wrapped values symbolically)"""

    __slots__ = ("v",)

    def __init__(self, v):
        self.v = v

    def __repr__(self):
        return "SymKey(%r)" % (self.v,)


def unkey(k):
    return k.v if type(k) is SymKey else k


def needs_key(v):
    """values that cannot be hashed natively: symbolic numbers, model objects whose class defines __eq__/__hash__,
    tuples containing such"""
    if type(v) is Sym or type(v) is NDArr:
        return True
    if type(v) is SObj:
        return getattr(v.cls, "__hash__", None) is not object.__hash__
    if isinstance(v, tuple):
        return any(needs_key(x) for x in v)
    if isinstance(v, frozenset):
        return any(type(x) is SymKey for x in v)
    if type(v).__name__ in ("ArrStr", "NumText"):
        return True
    return False


class ModelFn:
    """a library model: python callable (interp, args, kwargs) -> value"""

    __slots__ = ("fn", "name")

    def __init__(self, fn, name):
        self.fn = fn
        self.name = name


_CLOSURE_CACHE = {}


def closure_of(pyfunc, defcls=None):
    key = (pyfunc, defcls)
    c = _CLOSURE_CACHE.get(key)
    if c is None:
        node, fi = func_node(pyfunc)
        c = Closure(
            node,
            fi,
            pyfunc.__globals__,
            None,
            pyfunc.__defaults__ or (),
            pyfunc.__kwdefaults__ or {},
            pyfunc.__name__,
            defcls,
            pyfunc,
            pyfunc.__module__ + "." + pyfunc.__qualname__,
        )
        _CLOSURE_CACHE[key] = c
    return c


def reset_closures():
    _CLOSURE_CACHE.clear()


# ------------------------------------------------------------------------------ control flow signals


class _Return(Exception):
    def __init__(self, value):
        self.value = value


class _Break(Exception):
    pass


class _Continue(Exception):
    pass


class Frame:
    __slots__ = ("env", "parent", "globals", "closure", "self_obj", "line")

    def __init__(self, env, parent, globals_, closure):
        self.env = env
        self.parent = parent  # enclosing Frame env chain (for closures): list of dicts
        self.globals = globals_
        self.closure = closure


def is_repo_class(cls):
    mod = getattr(cls, "__module__", "") or ""
    return mod.startswith("commonroad") or mod.startswith("verif_scratch")


def has_symkey(v):
    try:
        return any(type(k) is SymKey for k in v)
    except TypeError:
        return False


def has_sym(v, depth=0):
    if type(v) is Sym or type(v) is SObj or type(v) is NDArr or type(v).__module__ in ("pyvc.shapely_model", "pyvc.xmlmodel", "pyvc.tokstr", "pyvc.pbmodel") or type(v) is SymKey \
            or type(v).__name__ in ("ArrStr", "NumText"):
        return True
    if depth > 3:
        return False
    if isinstance(v, (list, tuple, set, frozenset)):
        return any(has_sym(x, depth + 1) for x in v)
    if isinstance(v, dict):
        return any(has_sym(x, depth + 1) for x in v.values())
    return False


_STDLIB_OK = {"google", "re", "json", "os", "posixpath", "string", "textwrap", "itertools", "functools", "collections", "typing", "enum",
              "datetime", "platform", "pathlib", "operator", "numbers", "abc", "keyword", "numpy", "logging", "warnings"}
MAX_DEPTH = 60
MAX_CONCRETE_LOOP = 5000


class Interp:
    def __init__(self, ctx: Ctx, models=None, summaries=None, loopspecs=None, unroll=None):
        self.ctx = ctx
        from . import libmodels

        self.models = libmodels.build_models()
        from . import shapely_model, xmlmodel

        shapely_model.install(self.models)
        xmlmodel.install(self.models)
        if models:
            self.models.update(models)
        self.summaries = summaries or {}  # qualname -> callable(interp, args, kwargs) -> value
        self.loopspecs = loopspecs or {}  # (qualname, header text) -> LoopSpec
        self.unroll = unroll or {}  # qualname -> max iterations for symbolic while loops
        self.depth = 0
        self.frames = []
        self.write_log = []  # (obj, attr) attribute writes on objects, for frame conditions
        self.class_overlay = {}  # (class, attribute) -> value : assignments to class attributes of repository classes
        self.trace_calls = []

    # ========================================================================== calls

    def call(self, f, args=(), kwargs=None, node=None):
        kwargs = kwargs or {}
        ctx = self.ctx
        if isinstance(f, Closure):
            return self.call_closure(f, list(args), kwargs)
        if isinstance(f, BoundMethod):
            return self.call(f.func, [f.self] + list(args), kwargs)
        if isinstance(f, ModelFn):
            return f.fn(self, list(args), kwargs)
        if isinstance(f, types.FunctionType):
            m = self.models.get(f)
            if m is not None:
                return m(self, list(args), kwargs)
            if is_repo_class(f):  # python function from the repository
                return self.call_closure(closure_of(f), list(args), kwargs)
            mod = getattr(f, "__module__", "") or ""
            if mod.split(".")[0] in _STDLIB_OK and not has_sym(list(args)) and not has_sym(kwargs):
                return self.call_native(f, args, kwargs)
            if mod == "pyvc.xmlmodel" and f.__qualname__ in ("NumText.split",):  # text model of repr(float)
                return self.call_native(f, args, kwargs)
            if mod == "pyvc.tokstr":  # methods of the token-string model
                return self.call_native(f, args, kwargs)
            raise Unsupported("call of python function %s.%s without model" % (mod, f.__qualname__))
        if isinstance(f, types.MethodType):
            import logging as _logging

            if isinstance(f.__self__, _logging.Logger):
                return None  # log output is not part of the model
            return self.call(f.__func__, [f.__self__] + list(args), kwargs)
        if isinstance(f, type):
            return self.instantiate(f, list(args), kwargs)
        if isinstance(f, SObj):
            call = self.lookup_class_attr(f.cls, "__call__")
            if call is None:
                raise PyExc(TypeError, ("'%s' object is not callable" % f.cls.__name__,))
            return self.call(self.bind(call[0], f, call[1]), args, kwargs)
        if type(f).__name__ == "_lru_cache_wrapper":
            return self.call_lru(f, list(args), kwargs)
        if isinstance(f, types.BuiltinMethodType) and getattr(f, "__name__", "") == "cache_clear" and type(getattr(f, "__self__", None)).__name__ == "_lru_cache_wrapper":
            self.ctx.options.setdefault("__lru__", {})[id(f.__self__)] = []
            return None
        if f is object.__new__:
            if args and isinstance(args[0], type) and is_repo_class(args[0]):
                return SObj(args[0])
            raise Unsupported("object.__new__ of %r" % (args[:1],))
        # builtin functions / methods / other callables
        try:
            m = self.models.get(f)
        except TypeError:
            m = None
        if m is not None:
            return m(self, list(args), kwargs)
        if isinstance(f, (types.BuiltinFunctionType, types.BuiltinMethodType, types.MethodDescriptorType, types.WrapperDescriptorType, types.MethodWrapperType)) or type(f).__name__ in ("method-wrapper", "ufunc", "_ArrayFunctionDispatcher"):
            return self.call_native(f, args, kwargs)
        if f is None:
            raise PyExc(TypeError, ("'NoneType' object is not callable",))
        if callable(f):
            return self.call_native(f, args, kwargs)
        raise PyExc(TypeError, ("'%s' object is not callable" % type(f).__name__,))

    def call_lru(self, f, args, kwargs):
        """functools.lru_cache / cache wrapper: a memo table per wrapper and per explored path (a fresh process); a call hits an
        entry when its arguments compare equal to the entry's (for symbolic arguments that is a branch), otherwise the wrapped
        function runs and the result is stored.  Eviction (maxsize) is not modelled: entries are never dropped."""
        memo = self.ctx.options.setdefault("__lru__", {}).setdefault(id(f), [])
        self.ctx.used_models.add("functools.lru_cache: memo table keyed by argument equality, no eviction")
        kw = tuple(sorted(kwargs.items()))
        for (a0, k0, result) in memo:
            if len(a0) != len(args) or [k for k, _ in k0] != [k for k, _ in kw]:
                continue
            hit = True
            for x, y in list(zip(a0, args)) + [(v0, v1) for (_, v0), (_, v1) in zip(k0, kw)]:
                if x is y or (type(x) is Sym and type(y) is Sym and x.ty is y.ty and x.t.eq(y.t)):
                    continue  # the very same value: a hit without a case split
                c = self.compare(ast.Eq, x, y)
                if type(c) is Sym:
                    c = self.ctx.branch(c.t)
                if not c:
                    hit = False
                    break
            if hit:
                return result
        result = self.call(f.__wrapped__, args, kwargs)
        memo.append((tuple(args), kw, result))
        return result

    def call_native(self, f, args, kwargs):
        """Run a native (builtin / library) callable.  Allowed when it is a method of a native
        container, or when no symbolic value is involved; a symbolic leak is Unsupported."""
        mod = getattr(f, "__module__", None) or ""
        selfobj = getattr(f, "__self__", None)
        name = getattr(f, "__name__", repr(f))
        if self.ctx.options.get("tokstr"):
            from . import tokstr

            if isinstance(selfobj, str) and name == "join" and len(args) == 1:
                items = list(self.iterate(args[0]))
                if any(tokstr.is_tok(x) for x in items):
                    return tokstr.join(selfobj, items)
                return selfobj.join(items)
            if isinstance(selfobj, re.Pattern) and args and tokstr.is_tok(args[0]):
                if name == "fullmatch" and len(args) == 1 and not kwargs:
                    return tokstr.fullmatch(self.ctx, selfobj, args[0])
                raise Unsupported("re.Pattern.%s on a token string" % name)
            if isinstance(selfobj, tokstr.ModelMatch) and name in ("__getitem__", "group"):
                return f(*args, **kwargs)
        if isinstance(selfobj, list) and name in ("remove", "index", "count", "__contains__") and args and (has_sym(args[0]) or has_sym(selfobj)):
            hits = []
            for idx, x in enumerate(selfobj):
                if x is args[0] or self.truth(self.compare(ast.Eq, x, args[0])):
                    hits.append(idx)
                    if name != "count":
                        break
            if name == "count":
                return len(hits)
            if name == "__contains__":
                return bool(hits)
            if not hits:
                raise PyExc(ValueError, ("list.%s(x): x not in list" % name,))
            if name == "index":
                return hits[0]
            del selfobj[hits[0]]
            return None
        if isinstance(selfobj, (set, frozenset)) and name in ("update", "union", "issubset", "issuperset", "intersection", "difference"):
            # generator / iterator arguments are materialised once, so that symbolic members are seen below
            args = [a if isinstance(a, (set, frozenset, list, tuple, dict, str)) or type(a) in (SObj, NDArr) else list(self.iterate(a)) for a in args]
        if isinstance(selfobj, (set, frozenset)) and name in ("add", "discard", "remove", "__contains__", "update", "union", "issubset", "issuperset", "intersection", "difference", "copy") \
                and (any(needs_key(a) for a in args) or any(type(k) is SymKey for k in selfobj) or any(isinstance(a, (set, frozenset, list, tuple)) and any(type(k) is SymKey or needs_key(k) for k in a) for a in args)):
            return self.sym_set_method(selfobj, name, args)
        if isinstance(selfobj, dict) and args and (needs_key(args[0]) or any(type(k) is SymKey for k in selfobj)) and name in ("get", "pop", "setdefault", "__contains__", "__getitem__"):
            k = self.dict_find(selfobj, args[0])
            if name == "__contains__":
                return k is not _MISSING
            if name == "__getitem__":
                return self.sym_dict_get(selfobj, args[0])
            if name == "get":
                return selfobj[k] if k is not _MISSING else (args[1] if len(args) > 1 else kwargs.get("default"))
            if name == "pop":
                if k is not _MISSING:
                    return selfobj.pop(k)
                if len(args) > 1:
                    return args[1]
                raise PyExc(KeyError, (args[0],))
            if name == "setdefault":
                if k is not _MISSING:
                    return selfobj[k]
                selfobj[SymKey(args[0]) if needs_key(args[0]) else args[0]] = args[1] if len(args) > 1 else None
                return args[1] if len(args) > 1 else None
        if isinstance(selfobj, dict) and name in ("keys", "items") and any(type(k) is SymKey for k in selfobj):
            return [unkey(k) for k in selfobj] if name == "keys" else [(unkey(k), v) for k, v in selfobj.items()]
        if (mod.startswith("numpy") or type(f).__name__ in ("ufunc", "_ArrayFunctionDispatcher")) and (
            has_sym(list(args)) or has_sym(kwargs)
        ):
            raise Unsupported("numpy function %s on symbolic/model values has no model" % name)
        if any(isinstance(a, (Closure, BoundMethod, ModelFn)) for a in args) or any(isinstance(a, (Closure, BoundMethod, ModelFn)) for a in kwargs.values()):
            def wrap(a):
                if isinstance(a, (Closure, BoundMethod, ModelFn)):
                    return lambda *x, **kw: self.call(a, list(x), kw)
                return a
            args = [wrap(a) for a in args]
            kwargs = {k: wrap(v) for k, v in kwargs.items()}
        try:
            with warnings.catch_warnings():
                warnings.simplefilter("ignore")
                r = f(*args, **kwargs)
        except SymLeak as e:
            raise Unsupported("native call %s needs a model: %s" % (name, e))
        except PyExc:
            raise
        except (Unsupported, PathEnd):
            raise
        except Exception as e:  # a genuine python exception of the program
            raise PyExc(type(e), e.args)
        if isinstance(r, np.ndarray):
            return _lift_ndarray(r)
        return r

    def bind(self, attr, obj, defcls):
        if isinstance(attr, types.FunctionType):
            if attr.__name__ == "__init__" and attr.__code__.co_filename.startswith("<") and dataclasses.is_dataclass(defcls):
                return BoundMethod(ModelFn(lambda it, args, kw: it.dataclass_init(args[0], defcls, list(args[1:]), kw), "dataclass.__init__"), obj)
            if attr.__name__ == "__eq__" and attr.__code__.co_filename.startswith("<") and dataclasses.is_dataclass(defcls):
                def dc_eq(it, args, kw, _cls=defcls):
                    a, b = args[0], args[1]
                    if type(b) is not SObj or b.cls is not a.cls:
                        return NotImplemented
                    names = [f.name for f in dataclasses.fields(_cls) if f.compare]
                    return it.compare(ast.Eq, tuple(it.getattr(a, n) for n in names), tuple(it.getattr(b, n) for n in names))
                return BoundMethod(ModelFn(dc_eq, "dataclass.__eq__"), obj)
            if attr in self.models:
                return BoundMethod(ModelFn(self.models[attr], attr.__name__), obj)
            return BoundMethod(closure_of(attr, defcls), obj)
        return attr

    def call_closure(self, c: Closure, args, kwargs):
        ctx = self.ctx
        qn = c.qualname
        summ = self.summaries.get(qn)
        if summ is not None and self.depth > 0:
            return summ(self, args, kwargs)
        if self.depth > MAX_DEPTH:
            raise Unsupported("call depth > %d (recursion?) at %s" % (MAX_DEPTH, qn))
        node = c.node
        env = self.bind_args(c, args, kwargs)
        if isinstance(node, ast.Lambda):
            fr = Frame(env, c.env, c.globals, c)
            self.frames.append(fr)
            self.depth += 1
            try:
                return self.eval(node.body, fr)
            finally:
                self.depth -= 1
                self.frames.pop()
        for sub in ast.walk(node):
            if isinstance(sub, (ast.Yield, ast.YieldFrom)):
                return self.call_generator(c, env)
        fr = Frame(env, c.env, c.globals, c)
        self.frames.append(fr)
        self.depth += 1
        if self.depth > 1:
            ctx.inlined.add(qn)
        saved = (ctx.cur_func, ctx.cur_line)
        ctx.cur_func = qn
        try:
            try:
                self.exec_block(node.body, fr)
            except _Return as r:
                return r.value
            return None
        finally:
            self.depth -= 1
            self.frames.pop()
            ctx.cur_func, ctx.cur_line = saved

    def call_generator(self, c, env):
        """generator functions: only the simple 'sequence of yields, no loops' form is run eagerly"""
        out = []
        for st in c.node.body:
            if isinstance(st, ast.Expr) and isinstance(st.value, ast.Yield):
                fr = Frame(env, c.env, c.globals, c)
                out.append(self.eval(st.value.value, fr) if st.value.value else None)
            elif isinstance(st, ast.Expr) and isinstance(st.value, ast.Constant):
                continue
            else:
                raise Unsupported("generator function %s beyond straight-line yields" % c.qualname)
        return iter(out)

    def bind_args(self, c: Closure, args, kwargs):
        a = c.node.args
        env = {}
        pos = [x.arg for x in a.posonlyargs] + [x.arg for x in a.args]
        npos = len(pos)
        defaults = list(c.defaults)
        if len(args) > npos and a.vararg is None:
            raise PyExc(TypeError, ("%s() takes %d positional arguments but %d were given" % (c.name, npos, len(args)),))
        for i, name in enumerate(pos):
            if i < len(args):
                env[name] = args[i]
        if a.vararg is not None:
            env[a.vararg.arg] = tuple(args[npos:])
        kw = dict(kwargs)
        for i, name in enumerate(pos):
            if name in kw:
                if name in env:
                    raise PyExc(TypeError, ("%s() got multiple values for argument '%s'" % (c.name, name),))
                env[name] = kw.pop(name)
        first_default = npos - len(defaults)
        for i, name in enumerate(pos):
            if name not in env:
                if i >= first_default:
                    env[name] = defaults[i - first_default]
                else:
                    raise PyExc(TypeError, ("%s() missing required positional argument: '%s'" % (c.name, name),))
        for x in a.kwonlyargs:
            if x.arg in kw:
                env[x.arg] = kw.pop(x.arg)
            elif x.arg in c.kwdefaults:
                env[x.arg] = c.kwdefaults[x.arg]
            else:
                raise PyExc(TypeError, ("%s() missing keyword-only argument '%s'" % (c.name, x.arg),))
        if a.kwarg is not None:
            env[a.kwarg.arg] = kw
        elif kw:
            raise PyExc(TypeError, ("%s() got an unexpected keyword argument '%s'" % (c.name, next(iter(kw))),))
        return env

    # ========================================================================== objects

    def instantiate(self, cls, args, kwargs):
        m = self.models.get(cls)
        if m is not None:
            return m(self, args, kwargs)
        if cls.__module__.startswith("matplotlib.") and cls.__module__.split(".")[1] in ("patches", "text", "lines", "collections", "path"):
            from .libmodels import MplObj

            self.ctx.used_models.add("matplotlib artists: constructors only record (kind, arguments); nothing of matplotlib is executed")
            return MplObj(cls.__name__, list(args), dict(kwargs))
        if cls.__module__.endswith("_pb2"):
            from . import pbmodel

            if pbmodel.is_message_class(cls):
                return pbmodel.new_message(self, cls, args, kwargs)
        if isinstance(cls, type) and issubclass(cls, BaseException):
            if is_repo_class(cls) and (isinstance(getattr(cls, "__init__", None), types.FunctionType) or isinstance(getattr(cls, "__new__", None), types.FunctionType)):
                raise Unsupported("user exception class %s with its own constructor" % cls.__name__)
            e = PyExc(cls, tuple(args))
            return e
        if isinstance(cls, type) and issubclass(cls, enum.Enum):
            if has_sym(args):
                raise Unsupported("enum lookup with symbolic value")
            try:
                return cls(*args, **kwargs)
            except Exception as e:
                raise PyExc(type(e), e.args)
        if not is_repo_class(cls):
            if cls in (list, dict, set, tuple, frozenset, str, int, float, bool, object, range, slice, enumerate, zip, reversed, type, map, filter):
                return self.call_native(cls, args, kwargs)
            if has_sym(args) or has_sym(kwargs):
                raise Unsupported("instantiation of library class %s.%s with symbolic arguments" % (cls.__module__, cls.__name__))
            return self.call_native(cls, args, kwargs)
        if inspect.isabstract(cls):
            raise PyExc(TypeError, ("Can't instantiate abstract class %s" % cls.__name__,))
        new = self.lookup_class_attr(cls, "__new__")
        if new is not None and new[1] is not object and isinstance(new[0], (staticmethod, types.FunctionType)):
            raise Unsupported("class %s defines __new__" % cls.__name__)
        obj = SObj(cls)
        init = self.lookup_class_attr(cls, "__init__")
        if init is None or init[1] is object:
            if args or kwargs:
                raise PyExc(TypeError, ("%s() takes no arguments" % cls.__name__,))
            return obj
        f, defcls = init
        if isinstance(f, types.FunctionType):
            if dataclasses.is_dataclass(defcls) and (f.__code__.co_filename.startswith("<") ):
                self.dataclass_init(obj, defcls, args, kwargs)
            else:
                self.call(self.bind(f, obj, defcls), args, kwargs)
            return obj
        raise Unsupported("__init__ of %s is not a python function" % cls.__name__)

    def dataclass_init(self, obj, cls, args, kwargs):
        flds = [f for f in dataclasses.fields(cls) if f.init]
        if len(args) > len(flds):
            raise PyExc(TypeError, ("%s.__init__() takes %d positional arguments but %d were given" % (cls.__name__, len(flds) + 1, len(args) + 1),))
        vals = {}
        for f, a in zip(flds, args):
            vals[f.name] = a
        for k, v in kwargs.items():
            if k in vals:
                raise PyExc(TypeError, ("__init__() got multiple values for argument '%s'" % k,))
            if k not in [f.name for f in flds]:
                raise PyExc(TypeError, ("%s.__init__() got an unexpected keyword argument '%s'" % (cls.__name__, k),))
            vals[k] = v
        for f in dataclasses.fields(cls):
            if f.name in vals:
                v = vals[f.name]
            elif f.default is not dataclasses.MISSING:
                v = f.default
            elif f.default_factory is not dataclasses.MISSING:
                v = self.call(f.default_factory, [], {})
            else:
                raise PyExc(TypeError, ("%s.__init__() missing required argument: '%s'" % (cls.__name__, f.name),))
            self.setattr(obj, f.name, v)
        post = self.lookup_class_attr(cls, "__post_init__")
        if post is not None:
            self.call(self.bind(post[0], obj, post[1]), [], {})

    def lookup_class_attr(self, cls, name, after=None):
        mro = cls.__mro__
        start = 0
        if after is not None:
            start = mro.index(after) + 1
        for k in mro[start:]:
            if name in k.__dict__:
                return k.__dict__[name], k
        return None

    def getattr(self, obj, name, node=None):
        ctx = self.ctx
        if type(obj) is SObj:
            if name == "__dict__":
                return obj.attrs
            if name == "__class__":
                return obj.cls
            found = self.lookup_class_attr(obj.cls, name)
            if found is not None:
                attr, defcls = found
                if isinstance(attr, property):
                    if attr.fget is None:
                        raise PyExc(AttributeError, ("unreadable attribute %s" % name,))
                    return self.call(self.bind(attr.fget, obj, defcls), [], {})
                if type(attr).__name__ == "cached_property":
                    if name in obj.attrs:
                        return obj.attrs[name]
                    v = self.call(self.bind(attr.func, obj, defcls), [], {})
                    obj.attrs[name] = v
                    return v
            if name in obj.attrs:
                return obj.attrs[name]
            if found is not None:
                attr, defcls = found
                if isinstance(attr, types.FunctionType):
                    return self.bind(attr, obj, defcls)
                if isinstance(attr, classmethod):
                    return BoundMethod(closure_of(attr.__func__, defcls), obj.cls)
                if isinstance(attr, staticmethod):
                    return closure_of(attr.__func__, defcls) if is_repo_class(attr.__func__) else attr.__func__
                if isinstance(attr, (types.MemberDescriptorType,)):
                    raise PyExc(AttributeError, (name,))
                if isinstance(attr, (types.WrapperDescriptorType, types.MethodDescriptorType)):
                    return BoundMethod(ModelFn(self._object_method(name), name), obj)
                return lift_pi(attr)
            ga = self.lookup_class_attr(obj.cls, "__getattr__")
            if ga is not None:
                return self.call(self.bind(ga[0], obj, ga[1]), [name], {})
            raise PyExc(AttributeError, ("'%s' object has no attribute '%s'" % (obj.cls.__name__, name),))
        if type(obj) is SuperProxy:
            found = self.lookup_class_attr(obj.obj.cls if type(obj.obj) is SObj else obj.obj, name, after=obj.after)
            if found is None:
                raise PyExc(AttributeError, ("'super' object has no attribute '%s'" % name,))
            attr, defcls = found
            if isinstance(attr, types.FunctionType):
                return self.bind(attr, obj.obj, defcls)
            if isinstance(attr, property):
                return self.call(self.bind(attr.fget, obj.obj, defcls), [], {})
            if isinstance(attr, (types.WrapperDescriptorType, types.MethodDescriptorType)):
                return BoundMethod(ModelFn(self._object_method(name), name), obj.obj)
            if isinstance(attr, classmethod):
                return BoundMethod(closure_of(attr.__func__, defcls), obj.obj if isinstance(obj.obj, type) else obj.obj.cls)
            return attr
        if type(obj) is NDArr:
            from . import libmodels

            return libmodels.ndarray_attr(self, obj, name)
        if type(obj).__name__ in ("Geom", "_Exterior", "_Coords") and type(obj).__module__ == "pyvc.shapely_model":
            from . import shapely_model

            return shapely_model.geom_attr(self, obj, name)
        if type(obj).__name__ == "STRtreeModel":
            from . import shapely_model

            return shapely_model.strtree_attr(self, obj, name)
        if type(obj).__module__ == "pyvc.pbmodel":
            from . import pbmodel

            if type(obj) is pbmodel.PMsg:
                return pbmodel.msg_getattr(self, obj, name)
            if type(obj) is pbmodel.PRep:
                return pbmodel.rep_getattr(self, obj, name)
            if type(obj) is pbmodel.PFile:
                return pbmodel.file_getattr(self, obj, name)
            raise Unsupported("attribute %s of %s" % (name, type(obj).__name__))
        if type(obj).__module__ == "pyvc.xmlmodel":
            from . import xmlmodel

            if type(obj).__name__ == "XElem":
                return xmlmodel.elem_attr(self, obj, name)
            if type(obj).__name__ == "XTree":
                return xmlmodel.tree_attr(self, obj, name)
            if type(obj).__name__ == "NumText" and name in ("split", "partition"):
                return ModelFn(lambda it, a, k: getattr(obj, name)(*a, **k), "NumText." + name)
            raise Unsupported("attribute %s of %s" % (name, type(obj).__name__))
        if type(obj) is Sym:
            from . import libmodels

            return libmodels.scalar_attr(self, obj, name)
        if isinstance(obj, type) and is_repo_class(obj):
            for k in obj.__mro__:
                if (k, name) in self.class_overlay:
                    return self.class_overlay[(k, name)]
            found = self.lookup_class_attr(obj, name)
            if found is None:
                try:
                    return getattr(obj, name)  # metaclass attrs (__name__, enum members via __getattr__...)
                except AttributeError as e:
                    raise PyExc(AttributeError, e.args)
            attr, defcls = found
            if isinstance(attr, types.FunctionType):
                return closure_of(attr, defcls)
            if isinstance(attr, classmethod):
                return BoundMethod(closure_of(attr.__func__, defcls), obj)
            if isinstance(attr, staticmethod):
                return closure_of(attr.__func__, defcls) if is_repo_class(attr.__func__) else attr.__func__
            if isinstance(attr, property):
                return attr
            try:
                return lift_pi(getattr(obj, name))
            except AttributeError as e:
                raise PyExc(AttributeError, e.args)
        if isinstance(obj, PyExc):
            if name == "args":
                return obj.exc_args
            raise Unsupported("attribute %s of exception" % name)
        if isinstance(obj, BoundMethod):
            if name == "__self__":
                return obj.self
            if name == "__func__":
                return obj.func
        # native object
        try:
            v = getattr(obj, name)
        except AttributeError as e:
            raise PyExc(AttributeError, e.args)
        if isinstance(v, types.FunctionType) and is_repo_class(v) and not isinstance(obj, types.ModuleType):
            # python method of a native instance of a repo class (e.g. Enum with methods)
            return v
        if isinstance(v, types.MethodType) and isinstance(v.__func__, types.FunctionType) and is_repo_class(v.__func__):
            return BoundMethod(closure_of(v.__func__), v.__self__)
        return lift_pi(v)

    def _object_method(self, name):
        def setattr_(interp, args, kwargs):
            o, k, v = args
            if type(o) is SObj:
                interp.raw_setattr(o, k, v)
                return None
            raise Unsupported("object.__setattr__ on native object")

        def getattribute_(interp, args, kwargs):
            o, k = args
            return interp.getattr(o, k)

        def init_(interp, args, kwargs):
            return None

        def eq_(interp, args, kwargs):
            return args[0] is args[1] if args[0] is args[1] else NotImplemented

        def hash_(interp, args, kwargs):
            return id(args[0])

        table = {"__setattr__": setattr_, "__getattribute__": getattribute_, "__init__": init_, "__eq__": eq_, "__hash__": hash_,
                 "__init_subclass__": init_}
        if name not in table:
            raise Unsupported("object.%s" % name)
        return table[name]

    def raw_setattr(self, obj, name, value):
        if self.ctx.spec_depth > 0:
            raise SpecAbort()
        obj.attrs[name] = value
        self.write_log.append((obj, name))

    def setattr(self, obj, name, value):
        if type(obj).__name__ == "PMsg" and type(obj).__module__ == "pyvc.pbmodel":
            from . import pbmodel

            if self.ctx.spec_depth > 0:
                raise SpecAbort()
            return pbmodel.msg_setattr(self, obj, name, value)
        if type(obj).__name__ == "XElem" and type(obj).__module__ == "pyvc.xmlmodel":
            if name in ("text", "tail"):
                if value is not None and not isinstance(value, str) and type(value).__name__ != "NumText":
                    if obj.flavour == "lxml":
                        raise PyExc(TypeError, ("Argument must be bytes or unicode, got '%s'" % pytype(value).__name__,))
                    # ElementTree accepts any object here and fails when serialising
                    raise PyExc(TypeError, ("cannot serialize %r (type %s)" % ("<value>", pytype(value).__name__),))
                if self.ctx.spec_depth > 0:
                    raise SpecAbort()
                setattr(obj, name, value)
                return
            if name == "tag":
                obj.tag = value
                return
            raise PyExc(AttributeError, ("'Element' object has no attribute '%s'" % name,))
        if isinstance(obj, type) and is_repo_class(obj):
            # mutable class attribute of a repository class (process-global state, e.g. the writers' decimal precision)
            if self.ctx.spec_depth > 0:
                raise SpecAbort()
            self.class_overlay[(obj, name)] = value
            self.write_log.append((obj, name))
            return
        if type(obj) is SObj:
            found = self.lookup_class_attr(obj.cls, name)
            if found is not None:
                attr, defcls = found
                if isinstance(attr, property):
                    if attr.fset is None:
                        raise PyExc(AttributeError, ("property '%s' of '%s' object has no setter" % (name, obj.cls.__name__),))
                    self.call(self.bind(attr.fset, obj, defcls), [value], {})
                    return
                if type(attr).__name__ == "cached_property":
                    self.raw_setattr(obj, name, value)
                    return
            sa = self.lookup_class_attr(obj.cls, "__setattr__")
            if sa is not None and sa[1] is not object and isinstance(sa[0], types.FunctionType):
                self.call(self.bind(sa[0], obj, sa[1]), [name, value], {})
                return
            if dataclasses.is_dataclass(obj.cls) and getattr(obj.cls, "__dataclass_params__").frozen:
                raise PyExc(dataclasses.FrozenInstanceError, ("cannot assign to field '%s'" % name,))
            slots = None
            for k in obj.cls.__mro__:
                if k is object:
                    continue
                if "__slots__" not in k.__dict__:
                    slots = None
                    break
                slots = (slots or set()) | set(k.__dict__["__slots__"] if not isinstance(k.__dict__["__slots__"], str) else [k.__dict__["__slots__"]])
            if slots is not None and name not in slots:
                raise PyExc(AttributeError, ("'%s' object has no attribute '%s'" % (obj.cls.__name__, name),))
            self.raw_setattr(obj, name, value)
            return
        if type(obj) in (Sym, NDArr) or obj is None or isinstance(obj, (int, float, str, tuple, list, dict, set)):
            if type(obj) is NDArr and name == "shape":
                raise Unsupported("assignment to ndarray.shape")
            raise PyExc(AttributeError, ("'%s' object has no attribute '%s'" % (pytype(obj).__name__, name),))
        raise Unsupported("attribute assignment on native object %r" % (type(obj),))

    def delattr(self, obj, name):
        if type(obj) is SObj:
            if name in obj.attrs:
                del obj.attrs[name]
                self.write_log.append((obj, name))
                return
            raise PyExc(AttributeError, (name,))
        raise Unsupported("delattr on %r" % type(obj))

    def hasattr(self, obj, name):
        try:
            self.getattr(obj, name)
            return True
        except PyExc as e:
            if issubclass(e.cls, AttributeError):
                return False
            raise

    # ========================================================================== statements

    def exec_block(self, stmts, fr):
        for st in stmts:
            self.exec_stmt(st, fr)

    def exec_stmt(self, st, fr):
        self.ctx.cur_line = st.lineno
        m = getattr(self, "st_" + type(st).__name__, None)
        if m is None:
            raise Unsupported("statement %s at %s:%d" % (type(st).__name__, fr.closure.fi.path if fr.closure else "?", st.lineno))
        try:
            return m(st, fr)
        except PyExc as e:
            if e.line is None:
                e.line = st.lineno
                e.where = fr.closure.qualname if fr.closure else None
            raise

    def st_Expr(self, st, fr):
        self.eval(st.value, fr)

    def st_Pass(self, st, fr):
        pass

    def st_Return(self, st, fr):
        raise _Return(self.eval(st.value, fr) if st.value is not None else None)

    def st_Break(self, st, fr):
        raise _Break()

    def st_Continue(self, st, fr):
        raise _Continue()

    def st_Global(self, st, fr):
        raise Unsupported("global statement")

    def st_Nonlocal(self, st, fr):
        fr.env.setdefault("__nonlocal__", set()).update(st.names)

    def st_Import(self, st, fr):
        import importlib

        for a in st.names:
            mod = importlib.import_module(a.name)
            if a.asname:
                fr.env[a.asname] = mod
            else:
                fr.env[a.name.split(".")[0]] = importlib.import_module(a.name.split(".")[0])

    def st_ImportFrom(self, st, fr):
        import importlib

        mod = importlib.import_module(st.module)
        for a in st.names:
            fr.env[a.asname or a.name] = getattr(mod, a.name)

    def st_Assign(self, st, fr):
        v = self.eval(st.value, fr)
        for t in st.targets:
            self.assign(t, v, fr)

    def st_AnnAssign(self, st, fr):
        if st.value is not None:
            self.assign(st.target, self.eval(st.value, fr), fr)

    def st_AugAssign(self, st, fr):
        t = st.target
        if isinstance(t, ast.Name):
            cur = self.load_name(t.id, fr)
            self.assign(t, self.binop(type(st.op), cur, self.eval(st.value, fr), inplace=True), fr)
        elif isinstance(t, ast.Attribute):
            o = self.eval(t.value, fr)
            an = self.mangle(t.attr, fr)
            cur = self.getattr(o, an)
            self.setattr(o, an, self.binop(type(st.op), cur, self.eval(st.value, fr), inplace=True))
        elif isinstance(t, ast.Subscript):
            o = self.eval(t.value, fr)
            i = self.eval_index(t.slice, fr)
            cur = self.getitem(o, i)
            self.setitem(o, i, self.binop(type(st.op), cur, self.eval(st.value, fr), inplace=True))
        else:
            raise Unsupported("augmented assignment target")

    def st_Delete(self, st, fr):
        for t in st.targets:
            if isinstance(t, ast.Name):
                if t.id in fr.env:
                    del fr.env[t.id]
                else:
                    raise PyExc(UnboundLocalError, (t.id,))
            elif isinstance(t, ast.Attribute):
                self.delattr(self.eval(t.value, fr), self.mangle(t.attr, fr))
            elif isinstance(t, ast.Subscript):
                o = self.eval(t.value, fr)
                i = self.eval_index(t.slice, fr)
                self.delitem(o, i)
            else:
                raise Unsupported("del target")

    def st_Assert(self, st, fr):
        v = self.eval(st.test, fr)
        if not self.truth(v):
            msg = ()
            if st.msg is not None:
                try:
                    msg = (self.eval(st.msg, fr),)
                except (PyExc, Unsupported):
                    msg = ("<message>",)
            raise PyExc(AssertionError, msg, st.lineno, fr.closure.qualname if fr.closure else None)

    def st_Raise(self, st, fr):
        if st.exc is None:
            cur = getattr(fr, "_cur_exc", None) or self._current_exc
            if cur is None:
                raise PyExc(RuntimeError, ("No active exception to reraise",))
            raise cur
        e = self.eval(st.exc, fr)
        if isinstance(e, type) and issubclass(e, BaseException):
            e = PyExc(e, ())
        if not isinstance(e, PyExc):
            raise PyExc(TypeError, ("exceptions must derive from BaseException",))
        e.line = st.lineno
        e.where = fr.closure.qualname if fr.closure else None
        raise e

    _current_exc = None

    def st_If(self, st, fr):
        if self.truth(self.eval(st.test, fr)):
            self.exec_block(st.body, fr)
        else:
            self.exec_block(st.orelse, fr)

    def st_FunctionDef(self, st, fr):
        if st.decorator_list:
            raise Unsupported("decorated nested function")
        defaults = tuple(self.eval(d, fr) for d in st.args.defaults)
        kwdefaults = {a.arg: self.eval(d, fr) for a, d in zip(st.args.kwonlyargs, st.args.kw_defaults) if d is not None}
        chain = [fr.env] + (fr.parent or [])
        fr.env[st.name] = Closure(st, fr.closure.fi, fr.globals, chain, defaults, kwdefaults, st.name, fr.closure.defcls,
                                  None, (fr.closure.qualname + ".<locals>." + st.name))

    def st_Try(self, st, fr):
        try:
            try:
                self.exec_block(st.body, fr)
            except PyExc as e:
                for h in st.handlers:
                    if h.type is None:
                        match = True
                    else:
                        ty = self.eval(h.type, fr)
                        match = issubclass(e.cls, ty)
                    if match:
                        if h.name:
                            fr.env[h.name] = e
                        saved = self._current_exc
                        self._current_exc = e
                        try:
                            self.exec_block(h.body, fr)
                        finally:
                            self._current_exc = saved
                        break
                else:
                    raise
            else:
                self.exec_block(st.orelse, fr)
        finally:
            if st.finalbody:
                self.exec_block(st.finalbody, fr)

    def st_With(self, st, fr):
        # only library-modelled context managers: warnings.catch_warnings(), open() is Unsupported
        for item in st.items:
            cm = self.eval(item.context_expr, fr)
            if isinstance(cm, warnings.catch_warnings):
                if item.optional_vars is not None:
                    self.assign(item.optional_vars, [], fr)
                continue
            if type(cm).__name__ == "PFile" and type(cm).__module__ == "pyvc.pbmodel":
                if item.optional_vars is not None:
                    self.assign(item.optional_vars, cm, fr)
                continue
            raise Unsupported("with-statement on %r" % (type(cm),))
        self.exec_block(st.body, fr)

    def st_For(self, st, fr):
        it = self.eval(st.iter, fr)
        seq = self.iterate(it)
        broke = False
        n = 0
        for item in seq:
            n += 1
            if n > MAX_CONCRETE_LOOP:
                raise Unsupported("concrete loop longer than %d" % MAX_CONCRETE_LOOP)
            self.assign(st.target, item, fr)
            try:
                self.exec_block(st.body, fr)
            except _Break:
                broke = True
                break
            except _Continue:
                continue
        if not broke:
            self.exec_block(st.orelse, fr)

    def st_While(self, st, fr):
        ctx = self.ctx
        qn = fr.closure.qualname
        header = ast.unparse(st.test)
        spec = self.loopspecs.get((qn, header))
        if spec is None:
            # fall back to the loop's ordinal among the while loops of the function (header text was edited)
            whiles = [n for n in ast.walk(fr.closure.node) if isinstance(n, ast.While)]
            whiles.sort(key=lambda n: (n.lineno, n.col_offset))
            ordinal = whiles.index(st) if st in whiles else -1
            keys = [k for k in self.loopspecs if k[0] == qn]
            if 0 <= ordinal < len(keys) and len(keys) == len(whiles):
                spec = self.loopspecs[keys[ordinal]]
        if spec is not None:
            return self.while_with_invariant(st, fr, spec, header)
        bound = self.unroll.get(qn, self.unroll.get("*", 0))
        n = 0
        sym_iters = 0
        while True:
            c = self.eval(st.test, fr)
            symbolic = type(c) is Sym
            if symbolic:
                if bound and sym_iters >= bound:
                    # unwinding assertion: the loop must have terminated by now
                    ctx.oblige("unwind", "%s: loop 'while %s' exits within %d iterations" % (qn.split(".")[-1], header, bound),
                               z3.Not(term(self._as_bool_term(c))), st.lineno)
                    break
                if not bound:
                    raise Unsupported("while loop with symbolic condition needs an invariant or an unwinding bound: %s 'while %s'" % (qn, header))
                sym_iters += 1
            if not self.truth(c):
                self.exec_block(st.orelse, fr)
                break
            n += 1
            if n > MAX_CONCRETE_LOOP:
                raise Unsupported("while loop longer than %d iterations" % MAX_CONCRETE_LOOP)
            try:
                self.exec_block(st.body, fr)
            except _Break:
                break
            except _Continue:
                continue

    def _as_bool_term(self, c):
        if type(c) is Sym:
            if c.ty is bool:
                return c.t
            return c.t != 0
        return z3.BoolVal(bool(c))

    def while_with_invariant(self, st, fr, spec, header):
        ctx = self.ctx
        qn = fr.closure.qualname
        entry = dict(fr.env)
        ghost = {k: init for k, (init, _) in spec.ghost.items()}
        short = qn.split(".")[-1]
        ctx.oblige("inv-init", "%s: invariant of 'while %s' holds on entry" % (short, header), spec.inv(fr.env, entry, ghost), st.lineno)
        # havoc the variables assigned in the body
        assigned = set()
        for sub in ast.walk(st):
            if isinstance(sub, ast.Name) and isinstance(sub.ctx, ast.Store):
                assigned.add(sub.id)
            elif isinstance(sub, (ast.Attribute, ast.Subscript)) and isinstance(sub.ctx, ast.Store):
                if not spec.heap_ok:
                    raise Unsupported("loop with invariant writes to the heap: %s" % ast.unparse(sub))
        for name in sorted(assigned):
            if name in fr.env:
                v = fr.env[name]
                if type(v) is Sym or isinstance(v, (int, float, bool, np.number)):
                    fr.env[name] = ctx.fresh("%s@loop%d" % (name, st.lineno), pytype(v) if type(v) is Sym else type(v))
                else:
                    raise Unsupported("loop with invariant assigns non-scalar %s" % name)
            else:
                raise Unsupported("loop with invariant assigns variable %s that is unset on entry" % name)
        for k in ghost:
            ghost[k] = ctx.fresh("ghost_%s@loop%d" % (k, st.lineno), int)
        ctx.assume(term(spec.inv(fr.env, entry, ghost)))
        c = self.eval(st.test, fr)
        if self.truth(c):
            v0 = spec.variant(fr.env, entry, ghost) if spec.variant else None
            try:
                self.exec_block(st.body, fr)
            except _Break:
                return
            except _Continue:
                pass
            for k, (_, upd) in spec.ghost.items():
                ghost[k] = upd(ghost[k], fr.env)
            ctx.oblige("inv-pres", "%s: invariant of 'while %s' is preserved" % (short, header), spec.inv(fr.env, entry, ghost), st.lineno)
            if v0 is not None:
                v1 = spec.variant(fr.env, entry, ghost)
                ctx.oblige("variant", "%s: variant of 'while %s' decreases and is bounded" % (short, header),
                           z3.And(term(v0) >= 0, term(v1) <= term(v0) - spec.variant_step), st.lineno)
            raise PathEnd()
        else:
            ctx.ghost.update({"%s:%s" % (short, k): v for k, v in ghost.items()})
            self.exec_block(st.orelse, fr)

    # ========================================================================== assignment

    def assign(self, target, v, fr):
        if isinstance(target, ast.Name):
            nl = fr.env.get("__nonlocal__")
            if nl and target.id in nl:
                for e in fr.parent or []:
                    if target.id in e:
                        e[target.id] = v
                        return
            fr.env[target.id] = v
        elif isinstance(target, ast.Attribute):
            self.setattr(self.eval(target.value, fr), self.mangle(target.attr, fr), v)
        elif isinstance(target, ast.Subscript):
            o = self.eval(target.value, fr)
            self.setitem(o, self.eval_index(target.slice, fr), v)
        elif isinstance(target, (ast.Tuple, ast.List)):
            items = list(self.iterate(v))
            if any(isinstance(e, ast.Starred) for e in target.elts):
                raise Unsupported("starred assignment")
            if len(items) != len(target.elts):
                raise PyExc(ValueError, ("not enough/too many values to unpack (expected %d, got %d)" % (len(target.elts), len(items)),))
            for e, x in zip(target.elts, items):
                self.assign(e, x, fr)
        else:
            raise Unsupported("assignment target %s" % type(target).__name__)

    def iterate(self, it):
        if type(it) is NDArr:
            return it.rows()
        if type(it) is SObj:
            f = self.lookup_class_attr(it.cls, "__iter__")
            if f is None:
                raise PyExc(TypeError, ("'%s' object is not iterable" % it.cls.__name__,))
            return self.call(self.bind(f[0], it, f[1]), [], {})
        if type(it) is Sym or it is None or isinstance(it, (int, float)):
            raise PyExc(TypeError, ("'%s' object is not iterable" % pytype(it).__name__,))
        if type(it).__name__ == "dict_items":
            return [(unkey(k), v) for k, v in it]
        if type(it).__name__ == "dict_keys":
            return [unkey(k) for k in it]
        if isinstance(it, dict):
            return [unkey(k) for k in it]
        if isinstance(it, (set, frozenset)):
            return [unkey(k) for k in it]
        try:
            return iter(it)
        except TypeError as e:
            raise PyExc(TypeError, e.args)

    # ========================================================================== expressions

    def eval(self, node, fr):
        m = getattr(self, "ex_" + type(node).__name__, None)
        if m is None:
            raise Unsupported("expression %s" % type(node).__name__)
        return m(node, fr)

    def ex_Constant(self, node, fr):
        return node.value

    def load_name(self, name, fr):
        if name in fr.env:
            return fr.env[name]
        for e in fr.parent or []:
            if name in e:
                return e[name]
        g = fr.globals
        if name in g:
            return lift_pi(g[name])
        if hasattr(builtins, name):
            return getattr(builtins, name)
        raise PyExc(NameError, ("name '%s' is not defined" % name,))

    def ex_Name(self, node, fr):
        return self.load_name(node.id, fr)

    def mangle(self, name, fr):
        if name.startswith("__") and not name.endswith("__") and fr.closure is not None and fr.closure.defcls is not None:
            return "_" + fr.closure.defcls.__name__.lstrip("_") + name
        return name

    def ex_Attribute(self, node, fr):
        o = self.eval(node.value, fr)
        return self.getattr(o, self.mangle(node.attr, fr), node)

    def ex_Tuple(self, node, fr):
        return tuple(self._elts(node.elts, fr))

    def ex_List(self, node, fr):
        return self._elts(node.elts, fr)

    def ex_Set(self, node, fr):
        return self.make_set(self._elts(node.elts, fr))

    def _elts(self, elts, fr):
        out = []
        for e in elts:
            if isinstance(e, ast.Starred):
                out.extend(self.iterate(self.eval(e.value, fr)))
            else:
                out.append(self.eval(e, fr))
        return out

    def make_set(self, items):
        if any(needs_key(x) for x in items):
            s = set()
            for x in items:
                self.check_hashable(x)
                self.set_add(s, x)
            return s
        try:
            return set(items)
        except SymLeak as e:
            raise Unsupported("set of symbolic values: %s" % e)
        except TypeError as e:
            raise PyExc(TypeError, e.args)

    def ex_Dict(self, node, fr):
        d = {}
        for k, v in zip(node.keys, node.values):
            if k is None:
                d.update(self.eval(v, fr))
            else:
                kk = self.eval(k, fr)
                self.setitem(d, kk, self.eval(v, fr))
        return d

    def ex_JoinedStr(self, node, fr):
        if self.ctx.options.get("tokstr"):
            return self.joined_tokstr(node, fr)
        parts = []
        symbolic = False
        for v in node.values:
            if isinstance(v, ast.Constant):
                parts.append(str(v.value))
            else:
                try:
                    x = self.eval(v.value, fr)
                except PyExc:
                    raise
                if has_sym(x):
                    symbolic = True
                    parts.append("<sym>")
                else:
                    try:
                        if v.conversion == 114:
                            x = repr(x)
                        elif v.conversion == 115:
                            x = str(x)
                        spec = self.eval(v.format_spec, fr) if v.format_spec is not None else ""
                        parts.append(format(x, spec))
                    except Exception:
                        parts.append("<?>")
        s = "".join(parts)
        return SymStr([s]) if symbolic else s

    def joined_tokstr(self, node, fr):
        """f-string as a token string (option 'tokstr'): the text of every part is kept"""
        from . import tokstr
        from .libmodels import _str

        parts = []
        for v in node.values:
            if isinstance(v, ast.Constant):
                parts.append(str(v.value))
                continue
            x = self.eval(v.value, fr)
            spec = self.eval(v.format_spec, fr) if v.format_spec is not None else ""
            if has_sym(x):
                if spec != "" or v.conversion not in (-1, 115):
                    raise Unsupported("format spec / conversion on a symbolic value in an f-string")
                parts.append(_str(self, [x], {}))
            else:
                if v.conversion == 114:
                    x = repr(x)
                elif v.conversion == 115:
                    x = str(x)
                parts.append(format(x, spec))
        return tokstr.TokStr(parts).simplify()

    def ex_FormattedValue(self, node, fr):
        return self.eval(node.value, fr)

    def ex_Lambda(self, node, fr):
        defaults = tuple(self.eval(d, fr) for d in node.args.defaults)
        chain = [fr.env] + (fr.parent or [])
        return Closure(node, fr.closure.fi if fr.closure else None, fr.globals, chain, defaults, {}, "<lambda>",
                       fr.closure.defcls if fr.closure else None, None,
                       (fr.closure.qualname if fr.closure else "") + ".<lambda>")

    def ex_IfExp(self, node, fr):
        if self.truth(self.eval(node.test, fr)):
            return self.eval(node.body, fr)
        return self.eval(node.orelse, fr)

    def ex_NamedExpr(self, node, fr):
        v = self.eval(node.value, fr)
        self.assign(node.target, v, fr)
        return v

    def ex_Starred(self, node, fr):
        raise Unsupported("starred expression")

    def ex_UnaryOp(self, node, fr):
        v = self.eval(node.operand, fr)
        if isinstance(node.op, ast.Not):
            t = self.ctx_truth_nofork(v)
            if t is not None:
                return t
            return not self.truth(v)
        if type(v) is Sym:
            if isinstance(node.op, ast.USub):
                return ops.neg(v)
            if isinstance(node.op, ast.UAdd):
                return v
            raise Unsupported("unary %s on symbolic" % type(node.op).__name__)
        if type(v) is NDArr:
            if isinstance(node.op, ast.USub):
                return v.map(lambda x: ops.neg(x) if type(x) is Sym else -x)
            raise Unsupported("unary op on ndarray")
        if type(v) is SObj:
            name = {ast.USub: "__neg__", ast.UAdd: "__pos__", ast.Invert: "__invert__"}[type(node.op)]
            f = self.lookup_class_attr(v.cls, name)
            if f is None:
                raise PyExc(TypeError, ("bad operand type for unary op: '%s'" % v.cls.__name__,))
            return self.call(self.bind(f[0], v, f[1]), [], {})
        try:
            if isinstance(node.op, ast.USub):
                return -v
            if isinstance(node.op, ast.UAdd):
                return +v
            return ~v
        except TypeError as e:
            raise PyExc(TypeError, e.args)

    def ctx_truth_nofork(self, v):
        """`not v` without forking when v is a symbolic bool: returns Sym(bool)"""
        if type(v) is Sym and v.ty is bool:
            return mk(z3.Not(v.t), bool)
        return None

    def ex_BoolOp(self, node, fr):
        """and / or with Python's short-circuit semantics.  When the left value is a symbolic bool, the next operand is
        first evaluated speculatively (no forks, no attribute writes); if that succeeds and yields a bool, the two are
        merged into one z3 term instead of forking (keeps `a == x and b == y and ...` chains on one path)."""
        is_and = isinstance(node.op, ast.And)
        ctx = self.ctx
        acc = self.eval(node.values[0], fr)
        for e in node.values[1:]:
            if type(acc) is Sym and acc.ty is bool:
                merged = None
                ctx.spec_depth += 1
                try:
                    nxt = self.eval(e, fr)
                    if isinstance(nxt, (bool, np.bool_)) or (type(nxt) is Sym and nxt.ty is bool):
                        merged = self.bool_and(acc, nxt) if is_and else self.bool_or(acc, nxt)
                except SpecAbort:
                    merged = None
                except (PyExc, _Return, _Break, _Continue):
                    merged = None  # the operand raises / leaves: needs the real short-circuit (it may not be evaluated at all)
                finally:
                    ctx.spec_depth -= 1
                if merged is not None:
                    acc = merged
                    continue
            t = self.truth(acc)
            if is_and and not t:
                return acc
            if not is_and and t:
                return acc
            acc = self.eval(e, fr)
        return acc

    def ex_BinOp(self, node, fr):
        a = self.eval(node.left, fr)
        b = self.eval(node.right, fr)
        return self.binop(type(node.op), a, b)

    def ex_Compare(self, node, fr):
        left = self.eval(node.left, fr)
        result = True
        for i, (op, rn) in enumerate(zip(node.ops, node.comparators)):
            right = self.eval(rn, fr)
            r = self.compare(type(op), left, right)
            if i == len(node.ops) - 1:
                return r
            if not self.truth(r):
                return r
            left = right
        return result

    def ex_Call(self, node, fr):
        f = self.eval(node.func, fr)
        # zero-argument super()
        if f is builtins.super and not node.args:
            selfobj = fr.env.get(fr.closure.node.args.args[0].arg) if fr.closure and fr.closure.node.args.args else None
            if fr.closure is None or fr.closure.defcls is None:
                raise Unsupported("super() outside a method")
            return SuperProxy(selfobj, fr.closure.defcls)
        args = []
        for a in node.args:
            if isinstance(a, ast.Starred):
                args.extend(self.iterate(self.eval(a.value, fr)))
            else:
                args.append(self.eval(a, fr))
        kwargs = {}
        for k in node.keywords:
            if k.arg is None:
                kwargs.update(self.eval(k.value, fr))
            else:
                kwargs[k.arg] = self.eval(k.value, fr)
        if f is builtins.super:
            return SuperProxy(args[1], args[0])
        if f is builtins.locals:
            return fr.env
        return self.call(f, args, kwargs, node)

    def ex_Subscript(self, node, fr):
        o = self.eval(node.value, fr)
        return self.getitem(o, self.eval_index(node.slice, fr))

    def eval_index(self, node, fr):
        if isinstance(node, ast.Slice):
            return slice(
                self.eval(node.lower, fr) if node.lower else None,
                self.eval(node.upper, fr) if node.upper else None,
                self.eval(node.step, fr) if node.step else None,
            )
        if isinstance(node, ast.Tuple):
            return tuple(self.eval_index(e, fr) for e in node.elts)
        return self.eval(node, fr)

    def ex_Slice(self, node, fr):
        return self.eval_index(node, fr)

    def _comp(self, generators, fr, env, emit):
        def rec(i):
            if i == len(generators):
                emit()
                return
            g = generators[i]
            if g.is_async:
                raise Unsupported("async comprehension")
            for item in self.iterate(self.eval(g.iter, sub)):
                self.assign(g.target, item, sub)
                if all(self.truth(self.eval(c, sub)) for c in g.ifs):
                    rec(i + 1)

        sub = Frame(env, [fr.env] + (fr.parent or []), fr.globals, fr.closure)
        rec(0)

    def ex_ListComp(self, node, fr):
        out = []
        env = {}
        sub = Frame(env, [fr.env] + (fr.parent or []), fr.globals, fr.closure)
        self._comp(node.generators, fr, env, lambda: out.append(self.eval(node.elt, sub)))
        return out

    def ex_SetComp(self, node, fr):
        return self.make_set(self.ex_ListComp(node, fr))

    def ex_DictComp(self, node, fr):
        out = {}
        env = {}
        sub = Frame(env, [fr.env] + (fr.parent or []), fr.globals, fr.closure)

        def emit():
            k = self.eval(node.key, sub)
            self.setitem(out, k, self.eval(node.value, sub))

        self._comp(node.generators, fr, env, emit)
        return out

    def ex_GeneratorExp(self, node, fr):
        # lazily evaluated python generator driven by the interpreter (order of effects preserved)
        env = {}
        sub = Frame(env, [fr.env] + (fr.parent or []), fr.globals, fr.closure)
        interp = self

        def gen(i):
            if i == len(node.generators):
                yield interp.eval(node.elt, sub)
                return
            g = node.generators[i]
            for item in interp.iterate(interp.eval(g.iter, sub)):
                interp.assign(g.target, item, sub)
                if all(interp.truth(interp.eval(c, sub)) for c in g.ifs):
                    yield from gen(i + 1)

        return gen(0)

    # ========================================================================== operators

    def truth(self, v):
        t = self.ctx.truth(v)
        if t is not None:
            return t
        if type(v) is SObj:
            f = self.lookup_class_attr(v.cls, "__bool__")
            if f is not None:
                return self.truth(self.call(self.bind(f[0], v, f[1]), [], {}))
            f = self.lookup_class_attr(v.cls, "__len__")
            if f is not None:
                n = self.call(self.bind(f[0], v, f[1]), [], {})
                return self.truth(self.compare(ast.NotEq, n, 0))
            return True
        if type(v) is NDArr:
            if len(v.flat()) == 1:
                return self.truth(v.flat()[0])
            raise PyExc(ValueError, ("The truth value of an array with more than one element is ambiguous",))
        raise Unsupported("truth of %r" % type(v))

    _BIN_DUNDER = {
        ast.Add: ("__add__", "__radd__"), ast.Sub: ("__sub__", "__rsub__"), ast.Mult: ("__mul__", "__rmul__"),
        ast.Div: ("__truediv__", "__rtruediv__"), ast.FloorDiv: ("__floordiv__", "__rfloordiv__"),
        ast.Mod: ("__mod__", "__rmod__"), ast.Pow: ("__pow__", "__rpow__"), ast.MatMult: ("__matmul__", "__rmatmul__"),
        ast.BitAnd: ("__and__", "__rand__"), ast.BitOr: ("__or__", "__ror__"), ast.BitXor: ("__xor__", "__rxor__"),
    }

    def binop(self, opcls, a, b, inplace=False):
        from . import libmodels

        if inplace and type(a) is NDArr:
            return libmodels.nd_inplace(self, opcls, a, b)
        if type(a) is NDArr or type(b) is NDArr:
            return libmodels.nd_binop(self, opcls, a, b)
        if isinstance(a, (set, frozenset)) and isinstance(b, (set, frozenset)) and (has_symkey(a) or has_symkey(b)) \
                and opcls in (ast.Sub, ast.BitOr, ast.BitAnd):
            name = {ast.Sub: "difference", ast.BitOr: "union", ast.BitAnd: "intersection"}[opcls]
            r = self.sym_set_method(a, name, [b])
            if inplace and isinstance(a, set):
                a.clear()
                a.update(r)
                return a
            return r
        if type(a) is SObj or type(b) is SObj:
            d, rd = self._BIN_DUNDER[opcls]
            if type(a) is SObj:
                f = self.lookup_class_attr(a.cls, d)
                if f is not None:
                    r = self.call(self.bind(f[0], a, f[1]), [b], {})
                    if r is not NotImplemented:
                        return r
            if type(b) is SObj:
                f = self.lookup_class_attr(b.cls, rd)
                if f is not None:
                    r = self.call(self.bind(f[0], b, f[1]), [a], {})
                    if r is not NotImplemented:
                        return r
            raise PyExc(TypeError, ("unsupported operand type(s) for %s: '%s' and '%s'" % (opcls.__name__, pytype(a).__name__, pytype(b).__name__),))
        if type(a) is Sym or type(b) is Sym:
            if (type(a) is Sym or isinstance(a, (int, float, np.number))) and (type(b) is Sym or isinstance(b, (int, float, np.number))):
                return ops.binop(self.ctx, opcls, a, b)
            if opcls is ast.Mod and isinstance(a, str):
                return SymStr([a])
            if opcls is ast.Mult and isinstance(a, (list, tuple, str)):
                raise Unsupported("sequence repetition with symbolic count")
            raise PyExc(TypeError, ("unsupported operand type(s) for %s: '%s' and '%s'" % (opcls.__name__, pytype(a).__name__, pytype(b).__name__),))
        if isinstance(a, SymStr) or isinstance(b, SymStr):
            return SymStr([str(a), str(b)])
        if self.ctx.options.get("tokstr"):
            from . import tokstr

            if opcls is ast.Add and (tokstr.is_tok(a) or tokstr.is_tok(b)) and (isinstance(a, str) or tokstr.is_tok(a)) and (isinstance(b, str) or tokstr.is_tok(b)):
                return tokstr.TokStr([a, b]).simplify()
            if opcls is ast.Mod and isinstance(a, str) and (tokstr.is_tok(b) or isinstance(b, tuple) and any(tokstr.is_tok(x) for x in b)):
                from .libmodels import _str

                bb = b if isinstance(b, tuple) else (b,)
                return tokstr.percent_format(a, tuple(_str(self, [x], {}) for x in bb))
        if opcls is ast.Mod and isinstance(a, str) and has_sym(b):
            return SymStr([a])
        try:
            if opcls is ast.Add and isinstance(a, list) and isinstance(b, list):
                return a + b
            if inplace and opcls is ast.Add and isinstance(a, list):
                a.extend(self.iterate(b))
                return a
            if inplace and isinstance(a, set) and opcls in (ast.BitOr, ast.BitAnd, ast.Sub):
                if opcls is ast.BitOr:
                    a |= b
                elif opcls is ast.BitAnd:
                    a &= b
                else:
                    a -= b
                return a
            return _NATIVE[opcls](a, b)
        except SymLeak as e:
            raise Unsupported("native binary op needs model: %s" % e)
        except (ZeroDivisionError, TypeError, ValueError, OverflowError) as e:
            raise PyExc(type(e), e.args)

    def compare(self, opcls, a, b):
        from . import libmodels

        ctx = self.ctx
        if opcls is ast.Is:
            return self.identical(a, b)
        if opcls is ast.IsNot:
            return not self.identical(a, b)
        if opcls is ast.In:
            return self.contains(b, a)
        if opcls is ast.NotIn:
            r = self.contains(b, a)
            if type(r) is Sym:
                return mk(z3.Not(r.t), bool)
            return not r
        if type(a) is NDArr or type(b) is NDArr:
            return libmodels.nd_compare(self, opcls, a, b)
        sa = type(a) is Sym or (isinstance(a, (int, float, np.number, np.bool_)))
        sb = type(b) is Sym or (isinstance(b, (int, float, np.number, np.bool_)))
        if (type(a) is Sym or type(b) is Sym):
            if sa and sb:
                return ops.compare(opcls, a, b)
            # symbolic number against a non-number: == is False, ordering raises
            if opcls is ast.Eq:
                if type(a) is SObj or type(b) is SObj:
                    return self.rich_compare(opcls, a, b)
                return False
            if opcls is ast.NotEq:
                if type(a) is SObj or type(b) is SObj:
                    return self.rich_compare(opcls, a, b)
                return True
            if type(a) is SObj or type(b) is SObj:
                return self.rich_compare(opcls, a, b)
            raise PyExc(TypeError, ("'%s' not supported between instances of '%s' and '%s'" % (_CMP_SYM[opcls], pytype(a).__name__, pytype(b).__name__),))
        if type(a) is SObj or type(b) is SObj:
            return self.rich_compare(opcls, a, b)
        if isinstance(a, (list, tuple)) and isinstance(b, (list, tuple)) and type(a) is type(b) and (has_sym(a) or has_sym(b)):
            return self.seq_compare(opcls, a, b)
        if isinstance(a, (set, frozenset, dict)) and (has_sym(a) or has_symkey(a)) or isinstance(b, (set, frozenset, dict)) and (has_sym(b) or has_symkey(b)):
            return self.container_eq(opcls, a, b)
        if type(a).__name__ in ("dict_items", "dict_keys") and type(b).__name__ == type(a).__name__ and (has_sym(list(a)) or has_sym(list(b))):
            if type(a).__name__ == "dict_items":
                return self.container_eq(opcls, dict(a), dict(b))
            return self.container_eq(opcls, set(a), set(b))
        if type(a).__name__ == "NumText" or type(b).__name__ == "NumText":
            if opcls not in (ast.Eq, ast.NotEq):
                raise Unsupported("ordering of number strings")
            if type(a).__name__ == "NumText" and type(b).__name__ == "NumText":
                if a.cls == "plain" or b.cls == "plain":
                    raise Unsupported("comparison of truncated number strings")
                if (a.cls == "int") != (b.cls == "int"):
                    return opcls is ast.NotEq
                return ops.compare(opcls, a.value, b.value)
            other = b if type(a).__name__ == "NumText" else a
            if not isinstance(other, str):
                return opcls is ast.NotEq
            raise Unsupported("comparison of a symbolic number string with %r" % (other,))
        if type(a).__name__ == "ArrStr" or type(b).__name__ == "ArrStr":
            if type(a).__name__ != "ArrStr" or type(b).__name__ != "ArrStr":
                return opcls is ast.NotEq
            if a.shape != b.shape:
                return opcls is ast.NotEq
            r = self.seq_compare(ast.Eq, tuple(a.items), tuple(b.items))
            return r if opcls is ast.Eq else self.bool_not(r)
        try:
            return _NATIVE_CMP[opcls](a, b)
        except SymLeak as e:
            raise Unsupported("native comparison needs model: %s" % e)
        except TypeError as e:
            raise PyExc(TypeError, e.args)

    def identical(self, a, b):
        if type(a) is Sym or type(b) is Sym:
            if a is b:
                return True
            if type(a) is Sym and type(b) is Sym:
                # identity of boxed numbers is not modelled; only None/True/False checks are meaningful
                raise Unsupported("'is' between two symbolic numbers")
            other = b if type(a) is Sym else a
            s = a if type(a) is Sym else b
            if other is None or isinstance(other, (str, type)) or type(other) in (SObj, NDArr, list, dict, tuple, set):
                return False
            if s.ty is bool and isinstance(other, bool):
                return mk(s.t == z3.BoolVal(other), bool)
            if isinstance(other, bool) and s.ty is not bool:
                return False
            raise Unsupported("'is' between symbolic number and %r" % (other,))
        return a is b

    _CMP_DUNDER = {ast.Eq: ("__eq__", "__eq__"), ast.NotEq: ("__ne__", "__ne__"), ast.Lt: ("__lt__", "__gt__"),
                   ast.Gt: ("__gt__", "__lt__"), ast.LtE: ("__le__", "__ge__"), ast.GtE: ("__ge__", "__le__")}

    def rich_compare(self, opcls, a, b):
        d, rd = self._CMP_DUNDER[opcls]
        tried = False
        # python: if type(b) is a proper subclass of type(a), the reflected method gets priority
        order = [(a, d, b), (b, rd, a)]
        if type(a) is SObj and type(b) is SObj and a.cls is not b.cls and issubclass(b.cls, a.cls):
            order = [(b, rd, a), (a, d, b)]
        for x, name, y in order:
            if type(x) is SObj:
                f = self.lookup_class_attr(x.cls, name)
                if f is not None and f[1] is not object:
                    if isinstance(f[0], types.FunctionType):
                        r = self.call(self.bind(f[0], x, f[1]), [y], {})
                        if r is not NotImplemented:
                            return r
                    else:
                        raise Unsupported("non-python %s on %s" % (name, x.cls.__name__))
                elif name == "__ne__":
                    f = self.lookup_class_attr(x.cls, "__eq__")
                    if f is not None and f[1] is not object:
                        r = self.call(self.bind(f[0], x, f[1]), [y], {})
                        if r is not NotImplemented:
                            if type(r) is Sym:
                                return mk(z3.Not(self._as_bool_term(r)), bool)
                            return not self.truth(r)
            elif isinstance(x, enum.Enum) or x is None or isinstance(x, (str, int, float, tuple, list, dict, set)):
                continue
        if opcls is ast.Eq:
            return a is b
        if opcls is ast.NotEq:
            return a is not b
        raise PyExc(TypeError, ("'%s' not supported between instances of '%s' and '%s'" % (_CMP_SYM[opcls], pytype(a).__name__, pytype(b).__name__),))

    def seq_compare(self, opcls, a, b):
        if opcls in (ast.Eq, ast.NotEq):
            if len(a) != len(b):
                return opcls is ast.NotEq
            acc = True
            for x, y in zip(a, b):
                if x is y and type(x) is not Sym:
                    continue
                r = self.compare(ast.Eq, x, y)
                acc = self.bool_and(acc, r)
                if acc is False:
                    break
            if opcls is ast.Eq:
                return acc
            return self.bool_not(acc)
        raise Unsupported("ordering of sequences with symbolic elements")

    def container_eq(self, opcls, a, b):
        if opcls not in (ast.Eq, ast.NotEq):
            raise Unsupported("ordering on containers with symbolic elements")
        if isinstance(a, dict) and isinstance(b, dict):
            if len(a) != len(b):
                return opcls is ast.NotEq
            acc = True
            for k in a:
                kb = self.dict_find(b, unkey(k))
                if kb is _MISSING:
                    return opcls is ast.NotEq
                acc = self.bool_and(acc, self.compare(ast.Eq, a[k], b[kb]))
            return acc if opcls is ast.Eq else self.bool_not(acc)
        if isinstance(a, (set, frozenset)) and isinstance(b, (set, frozenset)):
            if len(a) != len(b) and not any(type(k) is SymKey for k in list(a) + list(b)):
                return opcls is ast.NotEq
            r = all(self.dict_find(b, unkey(x)) is not _MISSING for x in a) and all(self.dict_find(a, unkey(x)) is not _MISSING for x in b)
            return r if opcls is ast.Eq else not r
        raise Unsupported("equality of containers with symbolic members")

    def to_boolsym(self, r):
        if type(r) is Sym:
            return r if r.ty is bool else mk(r.t != 0, bool)
        if isinstance(r, (bool, np.bool_)):
            return bool(r)
        return self.truth(r)

    def bool_and(self, a, b):
        a, b = self.to_boolsym(a), self.to_boolsym(b)
        if a is False or b is False:
            return False
        if a is True:
            return b
        if b is True:
            return a
        return mk(z3.And(a.t, b.t), bool)

    def bool_or(self, a, b):
        a, b = self.to_boolsym(a), self.to_boolsym(b)
        if a is True or b is True:
            return True
        if a is False:
            return b
        if b is False:
            return a
        return mk(z3.Or(a.t, b.t), bool)

    def bool_not(self, a):
        a = self.to_boolsym(a)
        if type(a) is Sym:
            return mk(z3.Not(a.t), bool)
        return not a

    def contains(self, container, item):
        if type(container) is SObj:
            f = self.lookup_class_attr(container.cls, "__contains__")
            if f is not None:
                return self.truth(self.call(self.bind(f[0], container, f[1]), [item], {}))
            raise Unsupported("'in' on %s without __contains__" % container.cls.__name__)
        if type(container).__name__ == "NumText":
            if container.cls == "pyrepr" and item == "e" and type(container.value) is Sym:
                self.ctx.used_models.add("text of str(float): exponent form <=> f != 0 and (|f| < 1e-4 or |f| >= 1e16); otherwise <digits>.<digits> denoting f (bounded check on real floats)")
                return mk(container.exp_form(), bool)
            raise Unsupported("%r in a number text of kind %s" % (item, container.cls))
        if type(container).__name__ == "SymRange" and type(container).__module__ == "pyvc.libmodels":
            t = term(item)
            if t.sort() != z3.IntSort():
                raise Unsupported("membership of a non-integer in a symbolic range")
            return mk(z3.And(term(container.lo) <= t, t < term(container.hi)), bool)
        if isinstance(container, (list, tuple)):
            if not has_sym(item) and not has_sym(container):
                try:
                    return item in container
                except TypeError as e:
                    raise PyExc(TypeError, e.args)
            acc = False
            for x in container:
                if x is item:
                    return True
                acc = self.bool_or(acc, self.compare(ast.Eq, x, item))
                if acc is True:
                    return True
            return acc
        if isinstance(container, (dict, set, frozenset)) and (needs_key(item) or any(type(k) is SymKey for k in container)):
            return self.dict_find(container, item) is not _MISSING
        if isinstance(container, (dict, set, frozenset)) or isinstance(container, type({}.keys())) or isinstance(container, type({}.values())):
            if type(item).__name__ == "Atom" and type(item).__module__ == "pyvc.tokstr":
                if item.domain is None:
                    raise Unsupported("membership of string atom %s in a container" % item.name)
                hits = [d in container for d in item.domain]
                if all(hits):
                    return True
                if not any(hits):
                    return False
                raise Unsupported("membership of string atom %s: holds for some of its values only" % item.name)
            if type(item) is Sym:
                # membership of a symbolic number in a concrete key set
                acc = False
                for x in container:
                    if type(x) is Sym or isinstance(x, (int, float, np.number)):
                        acc = self.bool_or(acc, self.compare(ast.Eq, x, item))
                return acc
            try:
                return item in container
            except SymLeak as e:
                raise Unsupported("'in' needs model: %s" % e)
            except TypeError as e:
                raise PyExc(TypeError, e.args)
        if type(container) is NDArr:
            acc = False
            for x in container.flat():
                acc = self.bool_or(acc, self.compare(ast.Eq, x, item))
            return acc
        if isinstance(container, str):
            if isinstance(item, str):
                return item in container
            raise PyExc(TypeError, ("'in <string>' requires string as left operand",))
        if isinstance(container, range) and not has_sym(item):
            return item in container
        if type(container) is Sym or container is None:
            raise PyExc(TypeError, ("argument of type '%s' is not iterable" % pytype(container).__name__,))
        try:
            return item in container
        except SymLeak as e:
            raise Unsupported("'in' needs model: %s" % e)
        except TypeError as e:
            raise PyExc(TypeError, e.args)

    def getitem(self, o, i):
        if type(o) is NDArr:
            from . import libmodels

            return libmodels.nd_getitem(self, o, i)
        if type(o) is SObj:
            f = self.lookup_class_attr(o.cls, "__getitem__")
            if f is None:
                raise PyExc(TypeError, ("'%s' object is not subscriptable" % o.cls.__name__,))
            return self.call(self.bind(f[0], o, f[1]), [i], {})
        if isinstance(o, dict) and (needs_key(i) or any(type(k) is SymKey for k in o)):
            return self.sym_dict_get(o, i)
        if type(i) is Sym:
            if isinstance(o, (list, tuple)):
                return self.sym_index(o, i)
            raise Unsupported("symbolic index into %r" % type(o))
        if type(o) is Sym or o is None:
            raise PyExc(TypeError, ("'%s' object is not subscriptable" % pytype(o).__name__,))
        try:
            return o[i]
        except SymLeak as e:
            raise Unsupported("subscript needs model: %s" % e)
        except (KeyError, IndexError, TypeError) as e:
            raise PyExc(type(e), e.args)

    def sym_index(self, seq, i):
        """list[i] with a symbolic integer index: case split over the concrete spine"""
        n = len(seq)
        t = term(i)
        for k in range(n):
            if self.ctx.branch(z3.Or(t == k, t == k - n)):
                return seq[k]
        raise PyExc(IndexError, ("list index out of range",))

    def dict_find(self, d, key):
        """the stored key equal to `key` (forking on symbolic comparisons), or the sentinel _MISSING"""
        if not needs_key(key) and not any(type(k) is SymKey for k in d):
            try:
                return key if key in d else _MISSING
            except SymLeak as e:
                raise Unsupported("dict lookup needs model: %s" % e)
            except TypeError as e:
                raise PyExc(TypeError, e.args)
        self.check_hashable(key)
        for k in list(d):
            kv = unkey(k)
            if kv is key:
                return k
            if needs_key(kv) or needs_key(key):
                if self.truth(self.compare(ast.Eq, kv, key)):
                    return k
            else:
                try:
                    if kv == key:
                        return k
                except SymLeak as e:
                    raise Unsupported("dict lookup needs model: %s" % e)
        return _MISSING

    def check_hashable(self, v):
        """TypeError of the program if v is unhashable (list, dict, set, ndarray, object whose class sets __hash__ = None)"""
        if type(v) is SObj:
            f = self.lookup_class_attr(v.cls, "__hash__")
            if f is None or f[0] is None:
                raise PyExc(TypeError, ("unhashable type: '%s'" % v.cls.__name__,))
        elif type(v) is NDArr:
            raise PyExc(TypeError, ("unhashable type: 'numpy.ndarray'",))
        elif isinstance(v, (list, dict, set)):
            raise PyExc(TypeError, ("unhashable type: '%s'" % type(v).__name__,))
        elif isinstance(v, tuple):
            for x in v:
                self.check_hashable(x)

    def set_add(self, s, item):
        if self.dict_find(s, item) is _MISSING:
            s.add(SymKey(item) if needs_key(item) else item)

    def sym_set_method(self, s, name, args):
        if name == "add":
            self.set_add(s, args[0])
            return None
        if name in ("discard", "remove"):
            k = self.dict_find(s, args[0])
            if k is _MISSING:
                if name == "remove":
                    raise PyExc(KeyError, (args[0],))
                return None
            s.remove(k)
            return None
        if name == "__contains__":
            return self.dict_find(s, args[0]) is not _MISSING
        if name == "update":
            for a in args:
                for x in self.iterate(a):
                    self.set_add(s, x)
            return None
        if name == "copy":
            return type(s)(s)
        if name == "union":
            r = set(s)
            for a in args:
                for x in self.iterate(a):
                    self.set_add(r, x)
            return r if isinstance(s, set) else frozenset(r)
        if name == "issubset":
            return all(self.dict_find(args[0] if isinstance(args[0], (set, frozenset, dict)) else self.make_set(list(self.iterate(args[0]))), unkey(x)) is not _MISSING for x in s)
        if name == "issuperset":
            return all(self.dict_find(s, x) is not _MISSING for x in self.iterate(args[0]))
        if name == "intersection":
            other = args[0] if isinstance(args[0], (set, frozenset)) else self.make_set(list(self.iterate(args[0])))
            return type(s)(k for k in s if self.dict_find(other, unkey(k)) is not _MISSING)
        if name == "difference":
            other = args[0] if isinstance(args[0], (set, frozenset)) else self.make_set(list(self.iterate(args[0])))
            return type(s)(k for k in s if self.dict_find(other, unkey(k)) is _MISSING)
        raise Unsupported("set.%s with symbolic members" % name)

    def sym_dict_get(self, d, key):
        k = self.dict_find(d, key)
        if k is _MISSING:
            raise PyExc(KeyError, (key,))
        return d[k]

    def setitem(self, o, i, v):
        if type(o) is NDArr:
            from . import libmodels

            libmodels.nd_setitem(self, o, i, v)
            return
        if type(o) is SObj:
            f = self.lookup_class_attr(o.cls, "__setitem__")
            if f is None:
                raise PyExc(TypeError, ("'%s' object does not support item assignment" % o.cls.__name__,))
            self.call(self.bind(f[0], o, f[1]), [i, v], {})
            return
        if isinstance(o, dict) and (needs_key(i) or any(type(k) is SymKey for k in o)):
            k = self.dict_find(o, i)
            if k is _MISSING:
                k = SymKey(i) if needs_key(i) else i
            o[k] = v
            return
        if type(i) is Sym:
            raise Unsupported("symbolic index assignment into %r" % type(o))
        try:
            o[i] = v
        except SymLeak as e:
            raise Unsupported("item assignment needs model: %s" % e)
        except (KeyError, IndexError, TypeError) as e:
            raise PyExc(type(e), e.args)

    def delitem(self, o, i):
        if isinstance(o, dict) and (type(i) is Sym or any(type(k) is SymKey for k in o)):
            k = self.dict_find(o, i)
            if k is _MISSING:
                raise PyExc(KeyError, (i,))
            del o[k]
            return
        if type(i) is Sym or type(o) in (SObj, NDArr):
            raise Unsupported("del with symbolic key / on model object")
        try:
            del o[i]
        except (KeyError, IndexError, TypeError) as e:
            raise PyExc(type(e), e.args)


_MISSING = object()

_NATIVE = {
    ast.Add: lambda a, b: a + b, ast.Sub: lambda a, b: a - b, ast.Mult: lambda a, b: a * b,
    ast.Div: lambda a, b: a / b, ast.FloorDiv: lambda a, b: a // b, ast.Mod: lambda a, b: a % b,
    ast.Pow: lambda a, b: a ** b, ast.BitAnd: lambda a, b: a & b, ast.BitOr: lambda a, b: a | b,
    ast.BitXor: lambda a, b: a ^ b, ast.LShift: lambda a, b: a << b, ast.RShift: lambda a, b: a >> b,
    ast.MatMult: lambda a, b: a @ b,
}
_NATIVE_CMP = {
    ast.Eq: lambda a, b: a == b, ast.NotEq: lambda a, b: a != b, ast.Lt: lambda a, b: a < b,
    ast.LtE: lambda a, b: a <= b, ast.Gt: lambda a, b: a > b, ast.GtE: lambda a, b: a >= b,
}
_CMP_SYM = {ast.Eq: "==", ast.NotEq: "!=", ast.Lt: "<", ast.LtE: "<=", ast.Gt: ">", ast.GtE: ">="}


def _lift_ndarray(a):
    if a.dtype == object:
        raise Unsupported("object ndarray")
    kind = "f" if a.dtype.kind == "f" else ("i" if a.dtype.kind in "iu" else ("b" if a.dtype.kind == "b" else None))
    if kind is None:
        raise Unsupported("ndarray dtype %s" % a.dtype)
    return NDArr(a.tolist() if a.ndim else a.item(), a.shape, kind)
