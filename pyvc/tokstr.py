"""pyvc.tokstr -- strings that are sequences of literal text, number texts and opaque atoms of a regular class.

Trusted base (DESIGN.md section 2.7): str(int) is the canonical decimal text (no sign for positive numbers, no leading
zeros) and int() of that text gives the number back; f-strings, '%s' % ..., + and str.join concatenate the texts of
their parts; str.split / str.replace / re.sub act on the characters.  An Atom stands for EVERY string of its regular
language (given as a regex, or as a finite domain); operations on it are only allowed where their result is the same
for every such string, which is decided with pyvc.reglang (character-class disjointness, language inclusion, group
unambiguity) -- otherwise the run stops as unsupported rather than guessing."""
from __future__ import annotations

import re

import z3

from .core import CURRENT, PyExc, Sym, SymLeak, Unsupported
from . import reglang


class Atom:
    def __init__(self, name, rx, domain=None, sample=None):
        self.name = name
        self.domain = sorted(domain) if domain is not None else None
        self.rx = rx if domain is None else "|".join(re.escape(d) for d in self.domain)
        self.sample = sample if sample is not None else (self.domain[0] if self.domain else None)
        self._chars = None

    def chars(self):
        if self._chars is None:
            n = reglang.pattern_nfa(self.rx)
            cs = set()
            for s in range(n.n):
                for sym, _ in n.trans[s]:
                    if isinstance(sym, frozenset):
                        cs |= sym
            self._chars = frozenset(cs)
        return self._chars

    def __repr__(self):
        return "<Atom %s /%s/>" % (self.name, self.rx if len(self.rx) < 30 else self.rx[:27] + "...")

    def __str__(self):
        return "<atom:%s>" % self.name

    def __eq__(self, other):
        if self is other:
            return True
        if isinstance(other, str):
            if self.domain is not None and other not in self.domain:
                return False
            if not set(other) <= self.chars():
                return False
        raise SymLeak("comparison of string atom %s with %r" % (self.name, other))

    def __ne__(self, other):
        return not self.__eq__(other)

    def __hash__(self):
        raise SymLeak("hash of string atom %s" % self.name)

    def __add__(self, other):
        return TokStr([self]) + other

    def __radd__(self, other):
        return TokStr([other]) + TokStr([self])

    def __len__(self):
        raise SymLeak("len of string atom")

    def split(self, sep=None, maxsplit=-1):
        return TokStr([self]).split(sep, maxsplit)

    def replace(self, old, new, count=-1):
        return TokStr([self]).replace(old, new, count)

    def strip(self, chars=None):
        return TokStr([self]).strip(chars)


def _is_numtext(v):
    return type(v).__name__ == "NumText"


def is_tok(v):
    return isinstance(v, (Atom, TokStr)) or (_is_numtext(v) and v.cls == "int")


class TokStr:
    def __init__(self, parts):
        out = []
        for p in parts:
            if isinstance(p, TokStr):
                ps = p.parts
            else:
                ps = [p]
            for q in ps:
                if isinstance(q, str):
                    if not q:
                        continue
                    if out and isinstance(out[-1], str):
                        out[-1] += q
                        continue
                elif not (isinstance(q, Atom) or _is_numtext(q)):
                    raise Unsupported("string built from %s" % type(q).__name__)
                out.append(q)
        self.parts = out

    def __repr__(self):
        return "<TokStr %s>" % " ".join(repr(p) if isinstance(p, str) else str(p) for p in self.parts)

    def __str__(self):
        return "".join(p if isinstance(p, str) else str(p) for p in self.parts)

    def simplify(self):
        if not self.parts:
            return ""
        if len(self.parts) == 1:
            return self.parts[0]
        return self

    def __add__(self, other):
        if isinstance(other, (str, TokStr, Atom)) or _is_numtext(other):
            return TokStr([self, other])
        return NotImplemented

    def __radd__(self, other):
        if isinstance(other, (str, Atom)) or _is_numtext(other):
            return TokStr([other, self])
        return NotImplemented

    def __eq__(self, other):
        if self is other:
            return True
        if isinstance(other, TokStr) and len(other.parts) == len(self.parts) and all(a is b or (isinstance(a, str) and a == b) for a, b in zip(self.parts, other.parts)):
            return True
        raise SymLeak("comparison of token strings")

    def __ne__(self, other):
        return not self.__eq__(other)

    def __hash__(self):
        raise SymLeak("hash of token string")

    def __len__(self):
        raise SymLeak("len of token string")

    # ---- character-level operations that are uniform over the atoms' languages

    def _atoms_avoid(self, chars, what):
        for p in self.parts:
            if isinstance(p, Atom) and (p.chars() & set(chars)):
                raise Unsupported("%s: atom %s may contain %r" % (what, p.name, sorted(p.chars() & set(chars))))
            if _is_numtext(p):
                from . import core

                rx = _int_rx(core.CURRENT, p) if getattr(core, "CURRENT", None) is not None else "-?[0-9]+"
                used = set("0123456789") | ({"-"} if "-?" in rx else set())
                if type(p.value) is not Sym:
                    used = set(str(p.value))
                if used & set(chars):
                    raise Unsupported("%s touches characters of a symbolic number" % what)

    def replace(self, old, new, count=-1):
        if not isinstance(old, str) or not isinstance(new, str) or count != -1 or len(old) != 1:
            raise Unsupported("TokStr.replace(%r, %r)" % (old, new))
        self._atoms_avoid(old, "replace")
        return TokStr([p.replace(old, new) if isinstance(p, str) else p for p in self.parts]).simplify()

    def remove_chars(self, chars):
        self._atoms_avoid(chars, "re.sub")
        return TokStr(["".join(c for c in p if c not in chars) if isinstance(p, str) else p for p in self.parts]).simplify()

    def split(self, sep=None, maxsplit=-1):
        if not isinstance(sep, str) or len(sep) != 1 or maxsplit != -1:
            raise Unsupported("TokStr.split(%r)" % (sep,))
        self._atoms_avoid(sep, "split")
        out = [[]]
        for p in self.parts:
            if isinstance(p, str):
                segs = p.split(sep)
                out[-1].append(segs[0])
                for s in segs[1:]:
                    out.append([s])
            else:
                out[-1].append(p)
        return [TokStr(x).simplify() for x in out]

    def strip(self, chars=None):
        if chars is None:
            chars = " \t\n\r\f\v"
        parts = list(self.parts)
        if parts and isinstance(parts[0], str):
            parts[0] = parts[0].lstrip(chars)
        elif parts:
            TokStr(parts[:1])._atoms_avoid(chars, "strip")
        if parts and isinstance(parts[-1], str):
            parts[-1] = parts[-1].rstrip(chars)
        elif parts:
            TokStr(parts[-1:])._atoms_avoid(chars, "strip")
        return TokStr(parts).simplify()


def simplify(v):
    return v.simplify() if isinstance(v, TokStr) else v


def join(sep, items):
    parts = []
    for i, it in enumerate(items):
        if i:
            parts.append(sep)
        if not (isinstance(it, (str, Atom, TokStr)) or _is_numtext(it)):
            raise PyExc(TypeError, ("sequence item %d: expected str instance, %s found" % (i, type(it).__name__),))
        parts.append(it)
    return TokStr(parts).simplify()


def percent_format(fmt, args):
    """'%s' conversions only"""
    if not isinstance(args, tuple):
        args = (args,)
    pieces = re.split(r"(%.)", fmt)
    out = []
    k = 0
    for pc in pieces:
        if pc == "%%":
            out.append("%")
        elif pc == "%s":
            if k >= len(args):
                raise PyExc(TypeError, ("not enough arguments for format string",))
            out.append(args[k])
            k += 1
        elif len(pc) == 2 and pc[0] == "%":
            raise Unsupported("format conversion %r on token strings" % pc)
        else:
            out.append(pc)
    if k != len(args):
        raise PyExc(TypeError, ("not all arguments converted during string formatting",))
    return TokStr(out).simplify()


# ------------------------------------------------------------------------------ regular expressions


def _int_rx(ctx, nt):
    """regular class of the text of a symbolic int, from what the path condition implies about its sign"""
    v = nt.value
    if type(v) is not Sym:
        return re.escape(str(v))
    s = ctx.solver
    s.push()
    s.add(z3.Not(v.t >= 1))
    r = s.check()
    s.pop()
    if r == z3.unsat:
        return "[1-9][0-9]*"
    s.push()
    s.add(z3.Not(v.t >= 0))
    r = s.check()
    s.pop()
    if r == z3.unsat:
        return "0|[1-9][0-9]*"
    return "0|-?[1-9][0-9]*"


def template_of(ctx, ts, groups=None):
    """reglang template of a token string; groups: {id(part) -> group name}"""
    if not isinstance(ts, TokStr):
        ts = TokStr([ts])
    out = []
    for p in ts.parts:
        if isinstance(p, str):
            out.append(("lit", p))
        elif isinstance(p, Atom):
            out.append(("atom", p.rx, None))
        else:
            out.append(("atom", _int_rx(ctx, p), None))
    return out


class ModelMatch:
    """result of pattern.fullmatch on a token string: group name/number -> token string or None"""

    def __init__(self, groups, names, whole, unnamed=()):
        self._groups = groups  # list indexed by group number (0 = whole)
        self._names = names
        self._whole = whole
        self._unnamed = set(unnamed)

    def _get(self, k):
        if isinstance(k, str):
            if k not in self._names:
                raise PyExc(IndexError, ("no such group",))
            k = self._names[k]
        if not isinstance(k, int) or k < 0 or k >= len(self._groups):
            raise PyExc(IndexError, ("no such group",))
        if k in self._unnamed:
            raise Unsupported("anonymous capture group %d of a match on a token string" % k)
        return self._groups[k]

    def __getitem__(self, k):
        return self._get(k)

    def group(self, *ks):
        if not ks:
            return self._groups[0]
        if len(ks) == 1:
            return self._get(ks[0])
        return tuple(self._get(k) for k in ks)

    def groups(self, default=None):
        if self._unnamed:
            raise Unsupported("groups() with anonymous capture groups on a token string")
        return tuple(default if g is None else g for g in self._groups[1:])

    def groupdict(self, default=None):
        return {n: (default if self._groups[i] is None else self._groups[i]) for n, i in self._names.items()}

    def __bool__(self):
        return True


def _number_groups(src):
    """rewrite the pattern so that every capturing group is named (g<number> for the anonymous ones)"""
    import re._parser as sre_parse

    parsed = sre_parse.parse(src)
    return parsed.state.groups - 1, dict(parsed.state.groupdict)


def fullmatch(ctx, pattern, ts):
    """pattern.fullmatch(ts) for EVERY instantiation of the atoms: returns ModelMatch / None, or raises Unsupported when
    different instantiations would give different answers (or group boundaries would fall inside an atom)."""
    if not isinstance(ts, TokStr):
        ts = TokStr([ts])
    ngroups, names = _number_groups(pattern.pattern)
    base = template_of(ctx, ts)
    pn = reglang.pattern_nfa(pattern)
    tn0 = reglang.printed_nfa(base)
    inc, w = reglang.included_erased(tn0, pn)
    ctx.used_models.add("regular expressions: fullmatch on a token string decided for all instantiations by automata (inclusion + group unambiguity), pyvc.reglang")
    try:
        an = reglang.analyse(pn, base, sorted(names))
    except ValueError as e:
        raise Unsupported("fullmatch on token string: %s" % e)
    if not inc:
        # some printed string is not matched; is NONE matched?
        if not an["any"]:
            return None
        ctx.options.setdefault("__replay_hints__", {}).update(align(ctx, ts, w))
        raise NonUniform("the pattern matches some but not all strings of this form; one that is not matched: %r" % w, w, "unmatched")
    if an["problem"] is not None:
        ctx.options.setdefault("__replay_hints__", {}).update(align(ctx, ts, an["problem"][1]))
        raise NonUniform("the parse of strings of this form is not unique: %s, e.g. %s" % (an["problem"][0], " vs ".join(an["problem"][1:])), an["problem"][1])
    spans = an["spans"]
    groups = [ts.simplify()] + [None] * ngroups
    for name, sp in spans.items():
        if sp is None:
            continue
        i, j = sp
        groups[names[name]] = TokStr(_slice_parts(base, ts, i, j)).simplify()
    return ModelMatch(groups, names, ts, {k for k in range(1, ngroups + 1) if k not in names.values()})


class NonUniform(Unsupported):
    def __init__(self, msg, witness, kind="ambiguous"):
        super().__init__(msg)
        self.witness = witness
        self.kind = kind


def _slice_parts(base, ts, i, j):
    """template positions are per character of literals and per atom; map back to token parts"""
    out = []
    pos = 0
    for p in ts.parts:
        if isinstance(p, str):
            for ch in p:
                if i <= pos < j:
                    out.append(ch)
                pos += 1
        else:
            if i <= pos < j:
                out.append(p)
            pos += 1
    return out


def align(ctx, ts, witness):
    """values of atoms / numbers that make the token string equal to the witness (replay hints)"""
    rx = ""
    keys = []
    for k, p in enumerate(ts.parts):
        if isinstance(p, str):
            rx += re.escape(p)
        elif isinstance(p, Atom):
            rx += "(?P<k%d>%s)" % (k, p.rx)
            keys.append((k, "atom:" + p.name, str))
        else:
            rx += "(?P<k%d>%s)" % (k, _int_rx(ctx, p))
            v = p.value
            if type(v) is Sym and z3.is_const(v.t):
                keys.append((k, str(v.t), int))
    plain = re.sub(r"<[A-Za-z_0-9]+:|:[A-Za-z_0-9]+>", "", witness) if witness else ""
    m = re.fullmatch(rx, plain)
    if not m:
        return {}
    out = {}
    for k, name, ty in keys:
        out[name] = ty(m.group("k%d" % k))
    return out


def re_sub(interp, args, kwargs):
    pattern, repl, s = args[0], args[1], args[2]
    if not is_tok(s):
        if any(is_tok(a) for a in args):
            raise Unsupported("re.sub with token-string pattern")
        from .interp import has_sym

        if has_sym(list(args)) or has_sym(kwargs):
            raise Unsupported("call of python function re.sub without model")
        return interp.call_native(re.sub, args, kwargs)
    if not isinstance(s, TokStr):
        s = TokStr([s])
    src = pattern.pattern if hasattr(pattern, "pattern") else pattern
    import re._parser as sre_parse
    import re._constants as sre_c

    parsed = list(sre_parse.parse(src))
    if repl != "" or len(parsed) != 1 or parsed[0][0] not in (sre_c.IN, sre_c.LITERAL):
        raise Unsupported("re.sub(%r, %r) on a token string" % (src, repl))
    chars = reglang._charset(parsed[0][1]) if parsed[0][0] is sre_c.IN else frozenset([chr(parsed[0][1])])
    interp.ctx.used_models.add("re.sub(single character class, '') on a token string: removes those characters; atoms must avoid them")
    return s.remove_chars(chars)
