"""pyvc.ops -- Python scalar semantics over (native | Sym) values, and the math library model.

Assumption A-REAL: float is the mathematical real line (no rounding, no nan/inf, no overflow).
"""
from __future__ import annotations

import ast
import math
import operator

import numpy as np
import z3

from .core import (
    PI,
    PyExc,
    Sym,
    Unsupported,
    const_of,
    is_float_type,
    is_int_type,
    mk,
    num_term,
    real_term,
    term,
    to_real,
    unify,
)

SIN = z3.Function("sin", z3.RealSort(), z3.RealSort())
COS = z3.Function("cos", z3.RealSort(), z3.RealSort())
SQRT = z3.Function("sqrt", z3.RealSort(), z3.RealSort())
ATAN2 = z3.Function("atan2", z3.RealSort(), z3.RealSort(), z3.RealSort())
ATAN = z3.Function("atan", z3.RealSort(), z3.RealSort())
ROUND = z3.Function("round_nd", z3.RealSort(), z3.IntSort(), z3.RealSort())
ROUND0 = z3.Function("round_int", z3.RealSort(), z3.IntSort())
HASH = None


def is_scalar(v):
    return type(v) is Sym or isinstance(v, (int, float, bool, np.number, np.bool_))


def result_type(op, ta, tb):
    """Python/numpy result type of a binary arithmetic op on scalar types"""
    if ta is bool:
        ta = int
    if tb is bool:
        tb = int
    npish = (ta in (np.float64, np.int64)) or (tb in (np.float64, np.int64))
    fl = is_float_type(ta) or is_float_type(tb) or op == "/"
    if npish:
        return np.float64 if fl else np.int64
    return float if fl else int


_NATIVE_BIN = {
    ast.Add: operator.add,
    ast.Sub: operator.sub,
    ast.Mult: operator.mul,
    ast.Div: operator.truediv,
    ast.FloorDiv: operator.floordiv,
    ast.Mod: operator.mod,
    ast.Pow: operator.pow,
}


def binop(ctx, opcls, a, b):
    """a <op> b for scalars (at least one symbolic)"""
    ta = a.ty if type(a) is Sym else type(a)
    tb = b.ty if type(b) is Sym else type(b)
    x, y = num_term(a), num_term(b)
    if opcls is ast.Add:
        x, y = unify(x, y)
        return mk(x + y, result_type("+", ta, tb))
    if opcls is ast.Sub:
        x, y = unify(x, y)
        return mk(x - y, result_type("-", ta, tb))
    if opcls is ast.Mult:
        x, y = unify(x, y)
        return mk(x * y, result_type("*", ta, tb))
    if opcls is ast.Div:
        x, y = to_real(x), to_real(y)
        rt = result_type("/", ta, tb)
        if rt is np.float64:
            # numpy scalars do not raise on division by zero (warning + inf/nan); outside A-REAL
            if ctx.branch(y == 0, strong=True):
                raise Unsupported("numpy float division by zero (inf/nan outside the model)")
        else:
            if ctx.branch(y == 0, strong=True):
                raise PyExc(ZeroDivisionError, ("float division by zero",))
        return mk(x / y, rt)
    if opcls in (ast.FloorDiv, ast.Mod):
        if is_float_type(ta) or is_float_type(tb):
            x, y = to_real(x), to_real(y)
            if ctx.branch(y == 0):
                raise PyExc(ZeroDivisionError, ("float modulo",))
            # floor semantics: q = floor(x/y); r = x - q*y, sign of y
            q = z3.ToInt(x / y)  # z3 ToInt is floor
            if opcls is ast.FloorDiv:
                return mk(to_real(q), result_type("//", ta, tb))
            return mk(x - to_real(q) * y, result_type("%", ta, tb))
        if ctx.branch(y == 0):
            raise PyExc(ZeroDivisionError, ("integer division or modulo by zero",))
        # python floor division / modulo on ints; z3 div/mod are euclidean: equal for y > 0
        if ctx.branch(y > 0):
            q, r = x / y, x % y
        else:
            # y < 0:  floor(x/y) = -ceil(x/(-y)) ; python mod has sign of divisor
            r0 = x % (-y)  # in [0,-y)
            r = z3.If(r0 == 0, z3.IntVal(0), r0 + y)
            q = (x - r) / y
        rt = result_type("//", ta, tb)
        return mk(q if opcls is ast.FloorDiv else r, rt)
    if opcls is ast.Pow:
        cb = b if type(b) is not Sym else None
        if cb is not None and isinstance(cb, (int, np.integer)) and not isinstance(cb, bool) and 0 <= int(cb) <= 4:
            rt = result_type("**", ta, tb)
            if int(cb) == 0:
                return rt(1)
            r = x
            for _ in range(int(cb) - 1):
                r = r * x
            return mk(r, rt)
        if cb is not None and float(cb) == 0.5:
            return msqrt(ctx, a, np_style=(ta in (np.float64,)))
        if cb is not None and float(cb) == 2.0:
            x = to_real(x)
            return mk(x * x, result_type("/", ta, tb))
        raise Unsupported("power with exponent %r" % (b,))
    raise Unsupported("binary operator %s on symbolic scalars" % opcls.__name__)


def compare(opcls, a, b):
    """scalar comparison -> Sym(bool) / bool ; never forks"""
    x, y = term(a), term(b)
    if z3.is_bool(x) and z3.is_bool(y) and opcls in (ast.Eq, ast.NotEq):
        r = x == y if opcls is ast.Eq else x != y
        return mk(r, bool)
    x, y = unify(x, y)
    if opcls is ast.Eq:
        r = x == y
    elif opcls is ast.NotEq:
        r = x != y
    elif opcls is ast.Lt:
        r = x < y
    elif opcls is ast.LtE:
        r = x <= y
    elif opcls is ast.Gt:
        r = x > y
    elif opcls is ast.GtE:
        r = x >= y
    else:
        raise Unsupported("comparison %s" % opcls.__name__)
    return mk(r, bool)


def neg(a):
    return mk(-num_term(a), int if a.ty is bool else a.ty)


def mabs(a):
    if type(a) is not Sym:
        return abs(a)
    t = num_term(a)
    return mk(z3.If(t >= 0, t, -t), int if a.ty is bool else a.ty)


def mmax2(a, b):
    """python max(a, b): returns a unless b > a (keeps the python type of the chosen one;
    if the types differ the value is still right, the tag is that of a float if any)"""
    x, y = unify(num_term(a), num_term(b))
    ta = a.ty if type(a) is Sym else type(a)
    tb = b.ty if type(b) is Sym else type(b)
    return mk(z3.If(y > x, y, x), ta if ta is tb else result_type("+", ta, tb))


def mmin2(a, b):
    x, y = unify(num_term(a), num_term(b))
    ta = a.ty if type(a) is Sym else type(a)
    tb = b.ty if type(b) is Sym else type(b)
    return mk(z3.If(y < x, y, x), ta if ta is tb else result_type("+", ta, tb))


# ----------------------------------------------------------------------------- math model


def _trig_axioms(ctx, t):
    key = t.get_id()
    if key in ctx.trig_terms:
        return
    ctx.trig_terms[key] = t
    s, c = SIN(t), COS(t)
    ctx.solver.add(s * s + c * c == 1)
    ctx.solver.add(s >= -1, s <= 1, c >= -1, c <= 1)
    nt = z3.simplify(-t)
    ctx.solver.add(SIN(nt) == -s, COS(nt) == c)
    ctx.solver.add(z3.Implies(t == 0, z3.And(s == 0, c == 1)))
    ctx.used_models.add("math.sin/cos: uninterpreted with sin^2+cos^2=1, parity, sin 0=0, cos 0=1")
    if ctx.options.get("trig_addition") and z3.is_add(t) and t.num_args() == 2:
        # addition theorem, instantiated for this sum (contracts that need it switch it on)
        a, b = t.arg(0), t.arg(1)
        _trig_axioms(ctx, z3.simplify(a))
        _trig_axioms(ctx, z3.simplify(b))
        sa, ca, sb, cb = SIN(z3.simplify(a)), COS(z3.simplify(a)), SIN(z3.simplify(b)), COS(z3.simplify(b))
        ctx.solver.add(s == sa * cb + ca * sb, c == ca * cb - sa * sb)
        ctx.used_models.add("math.sin/cos: addition theorem instantiated for sums of two angles (option trig_addition)")


def msin(ctx, a, np_style=False):
    if type(a) is not Sym:
        if float(a) == 0.0:
            return np.float64(0.0) if np_style else 0.0
        t = real_term(a)
    else:
        t = real_term(a)
    t = z3.simplify(t)
    _trig_axioms(ctx, t)
    return Sym(SIN(t), np.float64 if np_style else float)


def mcos(ctx, a, np_style=False):
    if type(a) is not Sym:
        if float(a) == 0.0:
            return np.float64(1.0) if np_style else 1.0
    t = z3.simplify(real_term(a))
    _trig_axioms(ctx, t)
    return Sym(COS(t), np.float64 if np_style else float)


def msqrt(ctx, a, np_style=False, nonneg=False):
    if type(a) is not Sym:
        return np.sqrt(a) if np_style else math.sqrt(a)
    from .poly import canon

    raw = z3.simplify(real_term(a))
    if not nonneg and _is_sum_of_squares(raw):
        nonneg = True
    t = z3.simplify(canon(raw))  # canonical polynomial: equal radicands become identical terms
    if not nonneg and ctx.branch(t < 0):
        if np_style:
            raise Unsupported("numpy sqrt of a negative number (nan outside the model)")
        raise PyExc(ValueError, ("math domain error",))
    r = SQRT(t)
    ctx.solver.add(r >= 0)
    ctx.lazy_axioms.append(r * r == t)
    ctx.used_models.add("sqrt: sqrt(t) >= 0 and sqrt(t)^2 == t")
    return Sym(r, np.float64 if np_style else float)


def _is_sum_of_squares(t):
    """syntactic check: a sum whose summands are squares (x*x, x**2) or non-negative numerals"""
    def sq(e):
        if z3.is_rational_value(e) or z3.is_int_value(e):
            return e.numerator_as_long() >= 0 if z3.is_rational_value(e) else e.as_long() >= 0
        if z3.is_app(e) and e.decl().kind() == z3.Z3_OP_MUL:
            ch = e.children()
            if len(ch) == 2 and ch[0].eq(ch[1]):
                return True
            if len(ch) == 3 and (z3.is_rational_value(ch[0])) and ch[0].numerator_as_long() >= 0 and ch[1].eq(ch[2]):
                return True
        if z3.is_app(e) and e.decl().kind() == z3.Z3_OP_POWER:
            n = e.arg(1)
            return (z3.is_int_value(n) and n.as_long() % 2 == 0) or (z3.is_rational_value(n) and n.denominator_as_long() == 1 and n.numerator_as_long() % 2 == 0)
        return False
    if z3.is_app(t) and t.decl().kind() == z3.Z3_OP_ADD:
        return all(sq(c) for c in t.children())
    return sq(t)


def mhypot(ctx, a, b, np_style=False):
    x, y = real_term(a), real_term(b)
    t = z3.simplify(x * x + y * y)
    r = SQRT(t)
    ctx.solver.add(r >= 0)
    ctx.lazy_axioms.append(r * r == t)
    ctx.used_models.add("hypot(x,y) = sqrt(x^2+y^2)")
    return Sym(r, np.float64 if np_style else float)


def wrap_angle(ctx, d, K, what):
    """r with r = d - 2*pi*k, -pi < r <= pi, k in [-K, K]; the range of d is an obligation."""
    ctx.oblige("model-range", "%s: |angle| <= %d*pi (bounded 2pi-multiplier)" % (what, 2 * K + 1), z3.And(d <= (2 * K + 1) * PI, d >= -(2 * K + 1) * PI))
    r = ctx.fresh("wrap", float).t
    cases = [z3.And(r == d - 2 * PI * k) for k in range(-K, K + 1)]
    ctx.solver.add(z3.Or(*cases), r > -PI, r <= PI)
    return r


def matan2(ctx, y, x, np_style=False):
    ty = np.float64 if np_style else float
    yt, xt = z3.simplify(real_term(y)), z3.simplify(real_term(x))
    # atan2(sin d, cos d) = d wrapped into (-pi, pi]
    if z3.is_app(yt) and z3.is_app(xt) and yt.decl().eq(SIN) and xt.decl().eq(COS) and yt.arg(0).eq(xt.arg(0)):
        d = yt.arg(0)
        ctx.used_models.add("atan2(sin d, cos d) = d - 2*pi*k in (-pi, pi] (k bounded by a range obligation)")
        return Sym(wrap_angle(ctx, d, 2, "atan2(sin d, cos d)"), ty)
    r = ATAN2(yt, xt)
    ctx.solver.add(r > -PI, r <= PI)
    # quadrant facts (enough for heading reasoning)
    ctx.solver.add(z3.Implies(z3.And(yt == 0, xt > 0), r == 0))
    ctx.solver.add(z3.Implies(z3.And(yt == 0, xt < 0), r == PI))
    ctx.solver.add(z3.Implies(z3.And(yt == 0, xt == 0), r == 0))
    ctx.solver.add(z3.Implies(yt > 0, z3.And(r > 0, r < PI)))
    ctx.solver.add(z3.Implies(yt < 0, z3.And(r < 0, r > -PI)))
    ctx.solver.add(z3.Implies(z3.And(xt == 0, yt > 0), r == PI / 2))
    ctx.solver.add(z3.Implies(z3.And(xt == 0, yt < 0), r == -PI / 2))
    ctx.solver.add(z3.Implies(xt > 0, z3.And(r > -PI / 2, r < PI / 2)))
    ctx.used_models.add("atan2: uninterpreted with range (-pi,pi] and quadrant facts")
    return Sym(r, ty)


ATAN = z3.Function("atan", z3.RealSort(), z3.RealSort())


def matan(ctx, x, np_style=False):
    """arctan: uninterpreted, range (-pi/2, pi/2), sign of the argument, atan 0 = 0"""
    ty = np.float64 if np_style else float
    t = z3.simplify(real_term(x))
    r = ATAN(t)
    ctx.solver.add(r > -PI / 2, r < PI / 2, z3.Implies(t > 0, r > 0), z3.Implies(t < 0, r < 0), z3.Implies(t == 0, r == 0))
    ctx.used_models.add("arctan: uninterpreted with range (-pi/2, pi/2) and the sign of its argument")
    return Sym(r, ty)


def mfmod(ctx, a, m):
    """math.fmod(a, m): a - m*trunc(a/m); m must be a positive constant multiple of pi or a positive number"""
    x = z3.simplify(real_term(a))
    mt = z3.simplify(real_term(m))
    if ctx.branch(mt == 0):
        raise PyExc(ValueError, ("math domain error",))
    if not ctx.branch(mt > 0):
        raise Unsupported("fmod with negative modulus")
    K = 3
    ctx.oblige("model-range", "fmod: |x| < %d*m (bounded multiplier)" % (K + 1), z3.And(x < (K + 1) * mt, x > -(K + 1) * mt))
    r = ctx.fresh("fmod", float).t
    cases = [r == x - mt * k for k in range(-K, K + 1)]
    ctx.solver.add(z3.Or(*cases))
    ctx.solver.add(z3.Implies(x >= 0, z3.And(r >= 0, r < mt)))
    ctx.solver.add(z3.Implies(x < 0, z3.And(r <= 0, r > -mt)))
    ctx.used_models.add("math.fmod(x,m) = x - m*trunc(x/m), multiplier bounded by a range obligation")
    return Sym(r, float)


def mround(ctx, a, n=None):
    """round(x, n): monotone, |round(x,n) - x| <= 1/2 * 10^-n, idempotent on representable"""
    if type(a) is not Sym:
        return round(a, n) if n is not None else round(a)
    if is_int_type(a.ty) or a.ty is bool:
        if n is None or (isinstance(n, int) and n >= 0):
            return mk(num_term(a), int if a.ty is bool else a.ty)
        raise Unsupported("round of int to negative digits")
    x = real_term(a)
    if n is None:
        r = ROUND0(x)
        ctx.solver.add(to_real(r) - x <= z3.Q(1, 2), x - to_real(r) <= z3.Q(1, 2))
        ctx.used_models.add("round(x): integer within 1/2 of x (ties unspecified), monotone by congruence only")
        return Sym(r, int)
    if type(n) is Sym:
        raise Unsupported("round with symbolic digits")
    key = (z3.simplify(x).get_id(), int(n))
    cached = ctx.round_cache.get(key)
    if cached is not None:
        return Sym(cached, a.ty)
    r = ROUND(x, z3.IntVal(int(n)))
    eps = z3.Q(1, 2 * 10 ** int(n)) if int(n) >= 0 else z3.RealVal(10 ** (-int(n))) / 2
    ctx.solver.add(r - x <= eps, x - r <= eps)
    if ctx.options.get("round_monotone"):
        for (x2, n2, r2) in ctx.round_terms:
            if n2 == int(n):
                ctx.solver.add(z3.Implies(x <= x2, r <= r2), z3.Implies(x2 <= x, r2 <= r))
        ctx.round_terms.append((x, int(n), r))
        ctx.used_models.add("round(x,n): monotone in x for fixed n")
    ctx.round_cache[key] = r
    ctx.used_models.add("round(x,n): |round(x,n)-x| <= 0.5*10^-n; a function of (x,n)")
    return Sym(r, a.ty)


def msign(ctx, a, np_style=True):
    if type(a) is not Sym:
        return np.sign(a)
    t = num_term(a)
    if is_int_type(a.ty) or a.ty is bool:
        return mk(z3.If(t > 0, z3.IntVal(1), z3.If(t < 0, z3.IntVal(-1), z3.IntVal(0))), np.int64)
    return mk(z3.If(t > 0, z3.RealVal(1), z3.If(t < 0, z3.RealVal(-1), z3.RealVal(0))), np.float64)
