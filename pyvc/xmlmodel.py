"""pyvc.xmlmodel -- abstract XML trees (lxml.etree / xml.etree.ElementTree) and numeric text.

Trusted base (DESIGN.md section 2.6): an XML node is (tag, attribute map, text, ordered children); serialise-then-parse is
the identity on this abstraction (escaping, whitespace, encoding assumed transparent).  Text that was produced from a
symbolic number is a NumText: it remembers the number it denotes and its *lexical class*:
   'int'    str(int)                                    -- digits, exact
   'plain'  result of float_to_str (by its contract)    -- plain decimal, within 10^-d of the number
   'pyrepr' str(float) / str(np.float64)                -- shortest round-trip repr: exact value, but MAY be exponent form
"""
from __future__ import annotations

import xml.etree.ElementTree as _ET

import z3
from lxml import etree as _lxml

from .core import PyExc, Sym, Unsupported


class NumText:
    def __init__(self, value, cls, src=None, note=None):
        self.value = value  # Sym or python number: the number float(text) / int(text) yields
        self.cls = cls
        self.src = src  # the original number
        self.note = note

    def __repr__(self):
        return "<NumText %s %r>" % (self.cls, self.value)

    def __str__(self):
        return "<num:%s>" % self.cls

    # -- the text of repr(float) as a string (kind 'pyrepr'), as far as file_writer_xml.float_to_str uses it ----------
    # Trusted text model (listed in the evidence; its three facts are evaluated on real floats by the bounded layer):
    #   T1  the text is in exponent form  <=>  f != 0 and (|f| < 1e-4 or |f| >= 1e16)
    #   T2  otherwise it is  <sign><integer digits>.<fraction digits>  (exactly one '.') and denotes f
    #   T3  format(f, '.<d>f') is plain decimal text denoting f rounded to d decimals (an integer-valued float exactly)
    def exp_form(self):
        import z3
        from .core import real_term

        v = real_term(self.value)
        a = z3.If(v >= 0, v, -v)
        return z3.And(v != 0, z3.Or(a < z3.Q(1, 10000), a >= z3.RealVal(10 ** 16)))

    def split(self, sep=None, maxsplit=-1):
        from .core import Unsupported

        if self.cls != "pyrepr" or sep != "." or maxsplit != -1:
            raise Unsupported("split(%r) of a number text of kind %s" % (sep, self.cls))
        return [ReprPart(self, "int"), ReprPart(self, "frac", None)]

    def partition(self, sep):
        from .core import Unsupported

        if self.cls != "pyrepr" or sep != ".":
            raise Unsupported("partition(%r) of a number text of kind %s" % (sep, self.cls))
        return (ReprPart(self, "int"), ".", ReprPart(self, "frac", None))


class ReprPart:
    """integer digits (with sign) / fraction digits (optionally only the first d) of the non-exponent repr of a float"""

    def __init__(self, text, part, digits=None):
        self.text, self.part, self.digits = text, part, digits

    def __getitem__(self, i):
        from .core import Unsupported

        if self.part == "frac" and self.digits is None and isinstance(i, slice) and i.start is None and i.step is None and isinstance(i.stop, int) \
                and not isinstance(i.stop, bool) and i.stop >= 0:
            return ReprPart(self.text, "frac", i.stop)
        raise Unsupported("index %r into the %s digits of a number text" % (i, self.part))

    def __add__(self, other):
        return ReprCat([self])._cat(other)

    def __radd__(self, other):
        return ReprCat([other])._cat(self)


class ReprCat:
    def __init__(self, items):
        self.items = items

    def _cat(self, other):
        return ReprCat(self.items + (other.items if isinstance(other, ReprCat) else [other])).simplify()

    __add__ = _cat

    def __radd__(self, other):
        return ReprCat([other] + self.items).simplify()

    def simplify(self):
        """<integer digits> '.' <first d fraction digits> of the same text: the number truncated towards zero to d decimals
        (if the text is in exponent form the parts mean something else: the value is then left unconstrained)"""
        import z3
        from .core import Sym, real_term

        it = self.items
        if len(it) == 3 and isinstance(it[0], ReprPart) and it[0].part == "int" and it[1] == "." and isinstance(it[2], ReprPart) \
                and it[2].part == "frac" and it[2].text is it[0].text:
            t = it[0].text
            v = real_term(t.value)
            d = it[2].digits
            if d is None:
                val = v
            elif d == 0:
                return self  # "12." is not a number text
            else:
                k = 10 ** d
                ctx = getattr(t, "ctx", None)
                if ctx is None:
                    val = z3.If(v >= 0, z3.ToReal(z3.ToInt(v * k)), -z3.ToReal(z3.ToInt(-v * k))) / k
                else:
                    # floor(|v| * 10^d) as an integer constant with its defining (unique) constraints: linear for the solver
                    n = ctx.fresh("trunc_digits", int).t
                    a = z3.If(v >= 0, v, -v) * k
                    ctx.solver.add(z3.ToReal(n) <= a, a < z3.ToReal(n) + 1)
                    val = z3.If(v >= 0, z3.ToReal(n), -z3.ToReal(n)) / k
            _N[0] += 1
            free = z3.Real("repr_parts_of_exponent_text!%d" % _N[0])
            out = NumText(Sym(z3.If(t.exp_form(), free, val), float), "plain", t.src, note="truncated repr")
            out.plain_if = z3.Not(t.exp_form())  # the parts of an exponent-form text do not make a decimal number
            if d is not None and ctx is not None:
                out.scaled = (z3.If(v >= 0, n, -n), k)  # value == scaled[0] / scaled[1] when the text is not in exponent form (hint for the solver)
            return out
        return self


_N = [0]


class XElem:
    """an element of an abstract XML tree"""

    def __init__(self, tag, attrib=None, flavour="lxml"):
        self.tag = tag
        self.attrib = dict(attrib or {})
        self.text = None
        self.tail = None
        self.children = []
        self.flavour = flavour

    def __repr__(self):
        return "<XElem %s %s text=%r children=%d>" % (self.tag, self.attrib, self.text, len(self.children))

    # iteration / len used natively by the interpreter (for x in node, list(node), len(node))
    def __iter__(self):
        return iter(list(self.children))

    def __len__(self):
        return len(self.children)

    def __bool__(self):
        # ElementTree semantics: an element without children is falsy (deprecated but real); lxml elements likewise
        return len(self.children) != 0


def _match(e, path):
    return path == "*" or e.tag == path


def _find_all(node, path):
    """the subset of ElementPath the code uses: 'tag', 'a/b', './tag', './/tag', '*'"""
    if path.startswith(".//"):
        name = path[3:]
        out = []

        def rec(n):
            for c in n.children:
                if _match(c, name):
                    out.append(c)
                rec(c)

        rec(node)
        return out
    if path.startswith("./"):
        path = path[2:]
    parts = path.split("/")
    cur = [node]
    for p in parts:
        if "[" in p or "@" in p or p in ("..", "."):
            raise Unsupported("ElementPath expression %r" % path)
        cur = [c for n in cur for c in n.children if _match(c, p)]
    return cur


def elem_attr(interp, node, name):
    from .interp import ModelFn

    if name in ("tag", "text", "tail", "attrib"):
        return getattr(node, name)

    def method(fn):
        return ModelFn(lambda it, args, kwargs: fn(*args, **kwargs), "Element." + name)

    if name == "set":
        def _set(k, v):
            if not isinstance(k, str):
                raise PyExc(TypeError, ("Argument must be bytes or unicode, got '%s'" % type(k).__name__,))
            if v is None or not isinstance(v, (str, NumText)):
                raise PyExc(TypeError, ("Argument must be bytes or unicode, got '%s'" % type(v).__name__,))
            node.attrib[k] = v
        return method(_set)
    if name == "get":
        return method(lambda k, default=None: node.attrib.get(k, default))
    if name == "append":
        def _append(c):
            if not isinstance(c, XElem):
                raise PyExc(TypeError, ("Argument 'element' has incorrect type (expected Element, got %s)" % type(c).__name__,))
            node.children.append(c)
        return method(_append)
    if name == "extend":
        def _extend(cs):
            cs = list(interp.iterate(cs))
            for c in cs:
                if not isinstance(c, XElem):
                    raise PyExc(TypeError, ("extend: element expected, got %s" % type(c).__name__,))
            node.children.extend(cs)
        return method(_extend)
    if name == "insert":
        return method(lambda i, c: node.children.insert(i, c))
    if name == "remove":
        return method(lambda c: node.children.remove(c))
    if name == "find":
        def _find(path, namespaces=None):
            r = _find_all(node, path)
            return r[0] if r else None
        return method(_find)
    if name == "findall":
        return method(lambda path, namespaces=None: _find_all(node, path))
    if name == "findtext":
        def _ft(path, default=None):
            r = _find_all(node, path)
            return (r[0].text or "") if r else default
        return method(_ft)
    if name == "iter":
        def _iter(tag=None):
            out = []

            def rec(n):
                if tag is None or n.tag == tag:
                    out.append(n)
                for c in n.children:
                    rec(c)

            rec(node)
            return iter(out)
        return method(_iter)
    if name in ("getchildren",):
        return method(lambda: list(node.children))
    if name == "items":
        return method(lambda: list(node.attrib.items()))
    if name == "keys":
        return method(lambda: list(node.attrib.keys()))
    if name == "getroot":
        return method(lambda: node)
    if name == "__len__":
        return method(lambda: len(node.children))
    raise Unsupported("Element.%s" % name)


class XTree:
    """ElementTree wrapper"""

    def __init__(self, root):
        self.root = root


def tree_attr(interp, tree, name):
    from .interp import ModelFn

    if name == "getroot":
        return ModelFn(lambda it, a, k: tree.root, "ElementTree.getroot")
    if name == "_root":
        return tree.root
    if name in ("find", "findall", "iter", "findtext"):
        return elem_attr(interp, tree.root, name)
    if name == "write":
        def _write(it, a, k):
            fs = it.ctx.options.setdefault("__fs__", {})
            fs[a[0] if not hasattr(a[0], "__fspath__") else str(a[0])] = ("xml", snapshot_tree(tree.root))
            it.ctx.used_models.add("file system: ElementTree.write(path) stores the abstract tree under path")
            return None
        return ModelFn(_write, "ElementTree.write")
    raise Unsupported("ElementTree.%s" % name)


def snapshot_tree(node):
    c = XElem(node.tag, dict(node.attrib), node.flavour)
    c.text = node.text
    c.tail = node.tail
    c.children = [snapshot_tree(x) for x in node.children]
    return c


def make_element(flavour):
    def model(interp, args, kwargs):
        tag = args[0]
        if not isinstance(tag, str):
            raise PyExc(TypeError, ("Element tag must be a string",))
        attrib = dict(args[1]) if len(args) > 1 and args[1] is not None else {}
        attrib.update({k: v for k, v in kwargs.items() if k not in ("nsmap", "attrib")})
        if "attrib" in kwargs and kwargs["attrib"]:
            attrib.update(kwargs["attrib"])
        for k, v in attrib.items():
            if not isinstance(v, (str, NumText)):
                raise PyExc(TypeError, ("attribute value must be a string, got %s" % type(v).__name__,))
        interp.ctx.used_models.add("XML element model: (tag, attributes, text, ordered children); serialise/parse transparent")
        return XElem(tag, attrib, flavour)

    return model


def make_subelement(flavour):
    def model(interp, args, kwargs):
        parent = args[0]
        child = make_element(flavour)(interp, list(args[1:]), kwargs)
        if not isinstance(parent, XElem):
            raise PyExc(TypeError, ("SubElement() argument 1 must be Element",))
        parent.children.append(child)
        return child

    return model


def _tostring(interp, args, kwargs):
    # the serialised document is represented by (a snapshot of) the abstract tree itself
    root = args[0].root if isinstance(args[0], XTree) else args[0]
    return XDoc(snapshot_tree(root))


class XDoc:
    """the byte/str serialisation of a tree (opaque; parsing gives the tree back)"""

    def __init__(self, root):
        self.root = root


def _fromstring(interp, args, kwargs):
    d = args[0]
    if isinstance(d, XDoc):
        return snapshot_tree(d.root)
    raise Unsupported("parsing XML text that is not a modelled document")


def _make_tree(interp, args, kwargs):
    root = args[0] if args else kwargs.get("element")
    return XTree(root)


def _parse(interp, args, kwargs):
    src = args[0]
    fs = interp.ctx.options.get("__fs__", {})
    key = src if isinstance(src, str) else str(src)
    if key in fs and fs[key][0] == "xml":
        return XTree(snapshot_tree(fs[key][1]))
    raise Unsupported("parse() of a file that was not written in this run: %r" % (src,))


def install(models):
    models[_lxml.Element] = make_element("lxml")
    models[_lxml.SubElement] = make_subelement("lxml")
    models[_lxml.tostring] = _tostring
    models[_lxml.ElementTree] = _make_tree
    models[_lxml.fromstring] = _fromstring
    models[_lxml.parse] = _parse
    models[_ET.Element] = make_element("et")
    models[_ET.SubElement] = make_subelement("et")
    models[_ET.tostring] = _tostring
    models[_ET.ElementTree] = _make_tree
    models[_ET.fromstring] = _fromstring
    models[_ET.parse] = _parse
