"""Per-property metadata reported in the evidence (levels, assumptions, trusted base)."""

LEVEL = {}

ASSUMPTIONS = [
    "A-REAL: Python float / numpy float64 are encoded as mathematical reals (no rounding, overflow, nan, inf, signed zero); ints as mathematical integers",
    "A-PI: float constants bit-equal to pi, 2*pi, pi/2 (math.pi, numpy.pi, commonroad.TWO_PI) are read as the mathematical constants, 3.14159265358979 < PI < 3.14159265358980",
    "assertions enabled (no python -O)",
    "the verified text is the AST of the files CPython imports from /repo (located through each function's code object); nothing is extracted or rewritten",
    "generator expressions are driven lazily by the interpreter; generator *functions* only in straight-line-yield form",
    "dict/set iteration order follows CPython insertion order for concrete keys",
]

PROP_ASSUMPTIONS = {}
TRUSTED = {}
EXPLAIN = {}


def extra_checks(prop, tier, seed):
    """bounded stand-ins (labelled bounded in the evidence, never counted as proved)"""
    if prop in ("C01", "C03"):
        from pyvc import bounded

        return bounded.float_to_str_contract(prop, tier, seed)
    if prop == "C06":
        from pyvc import bounded

        return bounded.spatial_contract(prop, tier, seed)
    if prop == "C04":
        from pyvc import bounded

        return bounded.enclosure_contract(prop, tier, seed)
    return None
