"""pyvc.runner -- explores all paths of a contract's target, aggregates obligations, replays failures."""
from __future__ import annotations

import hashlib
import json
import os
import time
import traceback

import z3

from .contract import Contract, Outcome, SymFactory, resolve
from .core import Ctx, PathEnd, PyExc, Unsupported, model_value
from .interp import Interp, _Return
from .replay import model_values, replay_native

AUX_KINDS = {"inv-init", "inv-pres", "variant", "model-range", "unwind", "lemma"}
MAX_PATHS = 4000


def source_sha(contract):
    try:
        f, _ = resolve(contract.target)
        fn = getattr(f, "__func__", None) or getattr(f, "fget", None) or f
        path = fn.__code__.co_filename
        with open(path, "rb") as fh:
            return path, hashlib.sha256(fh.read()).hexdigest()
    except Exception:
        return None, None


def verify_contract(contract: Contract, tier="quick", seed=0, known_regions=None):
    """returns a json-able dict describing every obligation of this contract"""
    t0 = time.time()
    timeout = contract.timeout_ms or (10000 if tier == "quick" else 60000)
    known_regions = known_regions or {}
    budget = getattr(contract, "budget_s", None) or (600 if tier == "quick" else 3000)  # several times the slowest contract on an idle machine (~80 s): load must not turn a proof into "undecided"
    res = {
        "contract": contract.cid,
        "prop": contract.prop,
        "target": contract.target,
        "case": contract.case,
        "kind": contract.kind,
        "obligations": {},
        "paths": 0,
        "paths_dropped": 0,
        "unsupported": None,
        "error": None,
        "solver_secs": 0.0,
        "solver_calls": 0,
        "used_models": [],
        "inlined": [],
        "notes": [],
        "canaries": {},
    }
    path, sha = source_sha(contract)
    res["source"] = {"file": path, "sha256": sha}
    work = [[]]
    used_models = set()
    inlined = set()
    agg = {}
    canary = {}
    outcomes = {}
    try:
        while work:
            prefix = work.pop()
            if res["paths"] + res["paths_dropped"] > MAX_PATHS:
                raise Unsupported("more than %d paths" % MAX_PATHS)
            if time.time() - t0 > budget:
                raise Unsupported("wall-clock budget of %ds for one contract exhausted after %d paths" % (budget, res["paths"]))
            ctx = Ctx(prefix, timeout_ms=timeout, seed=seed)
            ctx.deadline = t0 + budget
            ctx.options = dict(getattr(contract, "options", {}) or {})
            ctx.thorough = tier == "thorough"
            ctx.known_regions = {k[len(contract.cid) + 1:]: v for k, v in known_regions.items() if k.startswith(contract.cid + "/")}
            interp = Interp(ctx, loopspecs=contract.loopspecs, unroll=contract.unroll,
                            summaries=build_summaries(contract))
            F = SymFactory(interp)
            completed = False
            try:
                try:
                    inp = contract.build(F)
                except PyExc as e:
                    raise Unsupported("the contract's input builder raised %r" % (e,))
                if not ctx.feasible():
                    raise PathEnd()
                try:
                    val = contract.invoke(F, inp)
                    out = Outcome(val)
                except PyExc as e:
                    out = Outcome(exc=e)
                desc = out.describe() if out.exc is not None else "returned"
                outcomes[desc[:120]] = outcomes.get(desc[:120], 0) + 1
                for item in contract.post(F, inp, out):
                    label, cond = item[0], item[1]
                    ob = ctx.oblige("post" if out.exc is None else "xpost", label, cond, info=out.describe(), assume_after=False,
                                    parts=item[2] if len(item) > 2 else None)
                for label, cond in contract.canaries(F, inp, out):
                    # a canary must be refutable: pc and not(cond) satisfiable on some path
                    r = ctx._check(z3.Not(cond if not isinstance(cond, bool) else z3.BoolVal(cond)))
                    canary[label] = canary.get(label, False) or (r == z3.sat)
                completed = True
            except PathEnd:
                # path ended: either infeasible inputs or a loop-body path (its obligations still count)
                pass
            finally:
                work.extend(ctx.pending)
                res["solver_secs"] += ctx.solver_secs
                res["solver_calls"] += ctx.solver_calls
                used_models |= ctx.used_models
                inlined |= ctx.inlined
            if completed:
                res["paths"] += 1
            else:
                res["paths_dropped"] += 1
            if ctx.unknown_branches:
                res["notes"].append("%d branch feasibility checks returned unknown (both sides explored)" % ctx.unknown_branches)
            for ob in ctx.obligations:
                key = "%s:%s" % (ob.kind, ob.label)
                a = agg.setdefault(key, {"kind": ob.kind, "label": ob.label, "paths": 0, "status": "discharged", "secs": 0.0,
                                         "backends": set(), "line": ob.line, "func": ob.func, "failure": None})
                a["paths"] += 1
                a["secs"] += ob.secs
                a["backends"].add(ob.backend)
                if ob.status == "failed" and a["status"] != "failed":
                    a["status"] = "failed"
                    vals = model_values(ob.model, ctx.inputs)
                    vals.update(ctx.options.get("__replay_hints__", {}))
                    a["failure"] = {"inputs": vals, "path": ob.path, "info": ob.info, "line": ob.line, "detail": ob.detail}
                    a["failure"]["known"] = ob.known
                elif ob.status == "failed" and ob.known != "inside" and a["failure"] is not None and a["failure"].get("known") == "inside":
                    # a second failing path that lies outside the known region: that one is reported
                    vals = model_values(ob.model, ctx.inputs)
                    vals.update(ctx.options.get("__replay_hints__", {}))
                    a["failure"] = {"inputs": vals, "path": ob.path, "info": ob.info, "line": ob.line, "known": ob.known}
                elif ob.status == "unknown" and a["status"] == "discharged":
                    a["status"] = "unknown"
                    a["detail"] = ob.detail
    except Unsupported as e:
        res["unsupported"] = "%s" % (e,)
        res["unsupported_tb"] = traceback.format_exc()[-1500:]
    except Exception as e:  # checker crash
        res["error"] = "%s: %s" % (type(e).__name__, e)
        res["error_tb"] = traceback.format_exc()[-3000:]
    # cover obligation: the precondition is satisfiable and some path completes
    agg["cover:inputs admissible and at least %d path(s) complete" % contract.expect_paths_min] = {
        "kind": "cover", "label": "inputs admissible and at least %d path(s) complete" % contract.expect_paths_min,
        "paths": res["paths"], "status": "discharged" if res["paths"] >= contract.expect_paths_min else "unknown",
        "secs": 0.0, "backends": {"z3"}, "line": None, "func": contract.target, "failure": None,
        "detail": None if res["paths"] >= contract.expect_paths_min else "only %d paths completed: contract is vacuous" % res["paths"],
    }
    for label, ok in canary.items():
        res["canaries"][label] = bool(ok)
    # replay failures natively
    for key, a in agg.items():
        a["backends"] = sorted(a["backends"])
        if a["status"] == "failed" and a["failure"] is not None:
            rp = replay_native(contract, a["failure"]["inputs"])
            a["failure"]["replay"] = rp
            a["failure"]["confirmed"] = bool(rp.get("feasible") and a["label"] in rp.get("failed", []) and not rp.get("error"))
    res["obligations"] = agg
    res["outcomes"] = outcomes
    res["used_models"] = sorted(used_models)
    res["inlined"] = sorted(inlined)
    res["wall_s"] = time.time() - t0
    return res


_SUMMARY_PROVIDERS = {}


def summary_provider(name):
    def deco(fn):
        _SUMMARY_PROVIDERS[name] = fn
        return fn
    return deco


def build_summaries(contract):
    """modular calls: the callee is replaced by its contract (precondition obliged at the call site,
    fresh result constrained by the postconditions the callee's own contract proves)"""
    out = {}
    for name in contract.summaries:
        out.update(_SUMMARY_PROVIDERS[name]())
    return out


def summary_of(c):
    """generic summary built from a Contract instance that defines summary_inputs / summary_pre / summary_result"""
    from .contract import SymFactory, Outcome as _Out

    def summ(interp, args, kwargs):
        F = SymFactory(interp)
        inp = c.summary_inputs(F, args, kwargs)
        interp.ctx.oblige("pre@call", "precondition of %s at the call site" % c.target.split(".")[-1], c.summary_pre(F, inp))
        res = c.summary_result(F, inp)
        for item in c.post(F, inp, _Out(res)):
            label, cond = item[0], item[1]
            interp.ctx.assume(cond if not isinstance(cond, bool) else z3.BoolVal(cond))
        interp.ctx.used_models.add("callee contract used instead of body: %s" % c.cid)
        return res

    return {c.target: summ}
