"""pyvc.shapely_model -- abstract model of the shapely objects the code under contract uses
(trusted base, DESIGN.md section 2.6): geometry constructors build *denotations*; predicates are
uninterpreted functions of the denotation; orient() may reverse the ring but keeps the denotation."""
from __future__ import annotations

import ast

import numpy as np
import shapely.affinity
import shapely.geometry
import shapely.geometry.polygon
import z3

from . import ops
from .core import PyExc, Sym, Unsupported, mk, real_term
from .libmodels import _np_elem, to_ndarr
from .objects import NDArr

RING_CCW = z3.Function("ring_ccw", z3.RealSort(), z3.BoolSort())  # sign of the (canonical) signed-area polynomial, uninterpreted
_INPOLY = {}
_POLYHITS = {}
IN_DISC = None


def inpoly_fn(n):
    f = _INPOLY.get(n)
    if f is None:
        f = z3.Function("in_polygon_%d" % n, *([z3.RealSort()] * (2 * n + 2)), z3.BoolSort())
        _INPOLY[n] = f
    return f


def hits_fn(sig):
    f = _POLYHITS.get(sig)
    if f is None:
        n = sum(sig)
        f = z3.Function("intersects_" + "_".join(str(s) for s in sig), *([z3.RealSort()] * n), z3.BoolSort())
        _POLYHITS[sig] = f
    return f


class Geom:
    """kind: 'point' (x,y) | 'disc' (x,y,r) | 'polygon' (ring: list of (x,y), closed; denot: list of reals)"""

    def __init__(self, kind, **kw):
        self.kind = kind
        self.__dict__.update(kw)

    def params(self):
        if self.kind == "point":
            return [real_term(self.x), real_term(self.y)]
        if self.kind == "disc":
            return [real_term(self.x), real_term(self.y), real_term(self.r)]
        return list(self.denot)

    def __repr__(self):
        return "<Geom %s>" % self.kind


def _ring_from(interp, v):
    a = v if type(v) is NDArr else to_ndarr(interp, v)
    if a.ndim != 2 or a.shape[1] < 2:
        raise PyExc(ValueError, ("A linearring requires at least 4 coordinates.",))
    pts = [(r[0], r[1]) for r in a.data]
    return pts


def make_polygon(interp, args, kwargs):
    ctx = interp.ctx
    if not args:
        raise Unsupported("empty shapely Polygon")
    shell = args[0]
    if isinstance(shell, Geom) and shell.kind == "polygon":
        return shell
    pts = _ring_from(interp, shell)
    if len(pts) < 3:
        raise PyExc(ValueError, ("A linearring requires at least 4 coordinates.",))
    # shapely closes the ring if needed
    fx, fy = pts[0]
    lx, ly = pts[-1]
    closed = interp.bool_and(interp.compare(ast.Eq, fx, lx), interp.compare(ast.Eq, fy, ly))
    if not interp.truth(closed):
        pts = pts + [pts[0]]
    elif len(pts) < 4:
        raise PyExc(ValueError, ("A linearring requires at least 4 coordinates.",))
    ctx.used_models.add("shapely Polygon(ring): denotes poly(ring); ring closed if open; predicates uninterpreted on the denotation")
    denot = [real_term(c) for p in pts for c in p]
    return Geom("polygon", ring=pts, denot=denot)


def make_point(interp, args, kwargs):
    if len(args) == 1:
        a = args[0] if type(args[0]) is NDArr else to_ndarr(interp, args[0])
        x, y = a.data[0], a.data[1]
    else:
        x, y = args[0], args[1]
    return Geom("point", x=x, y=y)


def make_linestring(interp, args, kwargs):
    """shapely LineString(coords): the coordinates are copied (as shapely does).  project / interpolate are not
    modelled geometrically: their results are unconstrained reals (sound for frame conditions, which is all they are
    used for: C18 drawing)"""
    a = args[0] if type(args[0]) is NDArr else to_ndarr(interp, args[0])
    if a.ndim != 2 or a.shape[1] not in (2, 3):
        raise Unsupported("LineString of shape %s" % (a.shape,))
    if a.shape[0] < 2:
        raise PyExc(ValueError, ("LineStrings must have at least 2 coordinate tuples",))
    interp.ctx.used_models.add("shapely LineString: project / interpolate return unconstrained values (only frame conditions rely on them)")
    return Geom("linestring", pts=[tuple(r) for r in a.copy().data])


def signed_area2(pts):
    """twice the signed area of a closed ring"""
    acc = None
    for (x0, y0), (x1, y1) in zip(pts[:-1], pts[1:]):
        t = real_term(x0) * real_term(y1) - real_term(x1) * real_term(y0)
        acc = t if acc is None else acc + t
    return acc


def orient(interp, args, kwargs):
    g = args[0]
    sign = kwargs.get("sign", args[1] if len(args) > 1 else 1.0)
    if not isinstance(g, Geom) or g.kind != "polygon":
        raise Unsupported("orient of non-polygon")
    from .poly import canon
    import hashlib

    # The ring orientation is the sign of the signed area.  The area polynomial is put into canonical form
    # (modulo sin^2+cos^2=1) and the sign of each distinct canonical polynomial is an uninterpreted Bool:
    # rings with identical area polynomial (e.g. a ring and its rigid image) get the same orientation, and
    # the path condition stays free of nonlinear constraints.
    area2 = canon(signed_area2(g.ring))
    c = z3.simplify(area2 > 0)
    if z3.is_true(c) or z3.is_false(c):
        is_ccw = z3.is_true(c)
    else:
        is_ccw = interp.ctx.branch(RING_CCW(area2))
    interp.ctx.used_models.add("shapely orient(): reverses the ring iff its signed area disagrees with `sign`; denotation unchanged")
    want_ccw = float(sign) >= 0.0
    if is_ccw != want_ccw:
        return Geom("polygon", ring=list(reversed(g.ring)), denot=g.denot)
    return Geom("polygon", ring=list(g.ring), denot=g.denot)


def rotate(interp, args, kwargs):
    raise Unsupported("shapely.affinity.rotate (centroid) is outside the model")


class _Coords:
    def __init__(self, pts):
        self.pts = pts


class _Exterior:
    def __init__(self, pts):
        self.pts = pts


def geom_attr(interp, g, name):
    from .interp import ModelFn

    ctx = interp.ctx
    if isinstance(g, _Exterior):
        if name == "coords":
            return _Coords(g.pts)
        raise Unsupported("exterior.%s" % name)
    if g.kind == "linestring":
        if name == "project":
            def proj(it, args, kwargs):
                d = ctx.fresh("ls_project", float)
                ctx.assume(d.t >= 0)
                return d
            return ModelFn(proj, "LineString.project")
        if name == "interpolate":
            return ModelFn(lambda it, args, kwargs: Geom("point", x=ctx.fresh("ls_ix", float), y=ctx.fresh("ls_iy", float)), "LineString.interpolate")
        if name == "coords":
            return _Coords([p[:2] for p in g.pts])
        if name == "length":
            d = ctx.fresh("ls_length", float)
            ctx.assume(d.t >= 0)
            return d
        raise Unsupported("LineString.%s" % name)
    if g.kind == "point" and name == "coords":
        return _Coords([(g.x, g.y)])
    if g.kind == "point" and name in ("x", "y"):
        return getattr(g, name)
    if name == "exterior" and g.kind == "polygon":
        return _Exterior(g.ring)
    if name == "buffer" and g.kind == "point":
        def buf(it, args, kwargs):
            ctx.used_models.add("shapely Point(c).buffer(d): denotes the disc of radius d around c (polygonal approximation ignored)")
            return Geom("disc", x=g.x, y=g.y, r=args[0])
        return ModelFn(buf, "Point.buffer")
    if name == "intersects":
        def inter(it, args, kwargs):
            o = args[0]
            if not isinstance(o, Geom):
                raise Unsupported("intersects with %r" % type(o))
            return intersects(interp, g, o)
        return ModelFn(inter, "intersects")
    if name == "bounds":
        if g.kind == "polygon":
            xs = [p[0] for p in g.ring]
            ys = [p[1] for p in g.ring]
            from .libmodels import _fold_minmax
            return (_fold_minmax(interp, xs, False), _fold_minmax(interp, ys, False), _fold_minmax(interp, xs, True), _fold_minmax(interp, ys, True))
        if g.kind == "disc":
            b = interp.binop
            return (b(ast.Sub, g.x, g.r), b(ast.Sub, g.y, g.r), b(ast.Add, g.x, g.r), b(ast.Add, g.y, g.r))
    if name == "centroid":
        raise Unsupported("shapely centroid is outside the model")
    if name == "area" and g.kind == "polygon":
        a2 = signed_area2(g.ring)
        return Sym(z3.If(a2 >= 0, a2, -a2) / 2, float)
    raise Unsupported("shapely attribute %s on %s" % (name, g.kind))


def intersects(interp, a, b):
    ctx = interp.ctx
    ctx.used_models.add("shapely intersects(): uninterpreted predicate on denotations (point-in-disc is exact: |p-c| <= r)")
    if a.kind == "point" and b.kind != "point":
        a, b = b, a
    if b.kind == "point":
        px, py = real_term(b.x), real_term(b.y)
        if a.kind == "polygon":
            n = len(a.denot) // 2
            return mk(inpoly_fn(n)(*a.denot, px, py), bool)
        if a.kind == "disc":
            dx, dy = px - real_term(a.x), py - real_term(a.y)
            return mk(dx * dx + dy * dy <= real_term(a.r) * real_term(a.r), bool)
        if a.kind == "point":
            return mk(z3.And(px == real_term(a.x), py == real_term(a.y)), bool)
    # region/region: uninterpreted, symmetric by ordering of the kinds
    ka = (a.kind, len(a.params()))
    kb = (b.kind, len(b.params()))
    if (kb, id(b)) < (ka, id(a)) and ka != kb:
        a, b = b, a
    f = hits_fn((len(a.params()), len(b.params())))
    return mk(f(*a.params(), *b.params()), bool)


class STRtreeModel:
    """shapely.strtree.STRtree over model geometries.
    Assumptions (trusted base): query(g) without predicate returns a superset of the geometries intersecting g (the
    model returns all indices; callers filter with intersects()); query(points, predicate='dwithin', distance<=1e-9)
    returns exactly the (point, geometry) pairs for which the geometry contains/touches the point."""

    def __init__(self, geoms):
        self.geometries = list(geoms)


def make_strtree(interp, args, kwargs):
    geoms = list(interp.iterate(args[0])) if args else []
    for g in geoms:
        if not isinstance(g, Geom):
            raise Unsupported("STRtree over %r" % type(g))
    interp.ctx.used_models.add("shapely STRtree: query() exact w.r.t. the (uninterpreted) geometric predicates; candidate pre-filter by bounding boxes not modelled")
    return STRtreeModel(geoms)


def strtree_attr(interp, tree, name):
    from .interp import ModelFn

    if name == "geometries":
        return tree.geometries

    def query(it, args, kwargs):
        g = args[0]
        pred = kwargs.get("predicate", args[1] if len(args) > 1 else None)
        if isinstance(g, Geom):
            if pred is None:
                return list(range(len(tree.geometries)))
            if pred == "intersects":
                return [j for j, t in enumerate(tree.geometries) if interp.truth(intersects(interp, t, g))]
            raise Unsupported("STRtree.query predicate %r" % pred)
        pts = list(interp.iterate(g))
        if pred not in ("dwithin", "intersects"):
            raise Unsupported("STRtree.query(list) predicate %r" % pred)
        if pred == "dwithin":
            d = kwargs.get("distance")
            if not isinstance(d, float) or d > 1e-9:
                raise Unsupported("dwithin with distance %r" % (d,))
        ii, jj = [], []
        for i, p_ in enumerate(pts):
            for j, t in enumerate(tree.geometries):
                if interp.truth(intersects(interp, t, p_)):
                    ii.append(i)
                    jj.append(j)
        return (ii, jj)

    if name == "query":
        return ModelFn(query, "STRtree.query")
    raise Unsupported("STRtree.%s" % name)


def coords_to_array(interp, c):
    pts = c.pts
    return NDArr([[x, y] for x, y in pts], (len(pts), 2), "f")


def install(models):
    models[shapely.geometry.Polygon] = make_polygon
    models[shapely.geometry.Point] = make_point
    models[shapely.geometry.LineString] = make_linestring
    models[shapely.geometry.polygon.orient] = orient
    models[shapely.affinity.rotate] = rotate
    from shapely.strtree import STRtree as _STRtree

    models[_STRtree] = make_strtree
