"""pyvc.contract -- sidecar contracts, the two factories (symbolic / native) and outcomes.

A contract names a real function of /repo, builds its (symbolic) inputs through a factory `F`,
and states postconditions over inputs and outcome.  The same contract text is evaluated
  * symbolically: inputs are z3 symbols, the body of the real function is executed by pyvc.interp,
    every postcondition becomes an obligation discharged by the solver for all inputs;
  * natively (replay): inputs are the numbers of a counter-model, the real function runs in CPython,
    the postconditions are evaluated on the real result.
"""
from __future__ import annotations

import os
import copy
import importlib
import math
from fractions import Fraction

import numpy as np
import z3

from .core import PI, PathEnd, PyExc, Sym, Unsupported, is_float_type, is_int_type, mk, num_term, pytype, real_term, term, to_real
from .objects import NDArr, SObj

REGISTRY = []  # list of Contract instances

# declared caches: derived data that is outside the observable view (coherence of these is property C11)
CACHE_ATTRS = ("_vertices", "_Rectangle__shapely_polygon", "_cycle_init_timesteps", "_distance", "_inner_distance",
               "occupancy_set", "_strtee", "_buffered_polygons", "_lanelet_id_index_by_id",
               # derived geometry (functions of the primary attributes of the same object)
               "_initial_occupancy_shape", "_shapely_polygon", "_shapely_circle", "_min", "_max", "_polygon")


def resolve(qualname):
    """'pkg.mod.Class.func' -> (python object, owner class or None)"""
    parts = qualname.split(".")
    for i in range(len(parts), 0, -1):
        try:
            mod = importlib.import_module(".".join(parts[:i]))
        except ImportError:
            continue
        obj = mod
        owner = None
        for p in parts[i:]:
            owner = obj if isinstance(obj, type) else None
            if isinstance(obj, type):
                obj = obj.__dict__[p] if p in obj.__dict__ else getattr(obj, p)
            else:
                obj = getattr(obj, p)
        return obj, owner
    raise ImportError(qualname)


class LoopSpec:
    def __init__(self, inv, variant=None, ghost=None, variant_step=0, heap_ok=False):
        self.inv = inv  # (env, entry_env, ghost) -> z3 Bool
        self.variant = variant
        self.ghost = ghost or {}  # name -> (init, update(g, env))
        self.variant_step = variant_step
        self.heap_ok = heap_ok


class Outcome:
    def __init__(self, value=None, exc=None):
        self.value = value
        self.exc = exc  # PyExc (symbolic run) or real exception (native run)

    @property
    def returned(self):
        return self.exc is None

    def raised(self, *classes):
        if self.exc is None:
            return False
        cls = self.exc.cls if isinstance(self.exc, PyExc) else type(self.exc)
        return issubclass(cls, classes) if classes else True

    def describe(self):
        if self.exc is None:
            return "returned %s" % (_short(self.value),)
        if isinstance(self.exc, PyExc):
            return "raised %s%s at %s:%s" % (self.exc.cls.__name__, _short(self.exc.exc_args), self.exc.where, self.exc.line)
        return "raised %s(%s)" % (type(self.exc).__name__, str(self.exc)[:120])


def _short(v):
    s = repr(v)
    return s if len(s) < 200 else s[:200] + "..."


class Contract:
    """Base class.  Subclasses set `prop`, `target`, optional `case`, and implement build/post."""

    prop = None
    target = None
    case = ""
    unroll = {}  # qualname -> bound for symbolic while loops (with unwinding assertion)
    loopspecs = {}  # (qualname, header) -> LoopSpec
    summaries = ()  # names of summary providers used for callees (modular calls)
    kind = "function"  # or 'lemma' (no code run; post states a fact about spec functions / other contracts)
    timeout_ms = None
    expect_paths_min = 1
    describe = ""

    @property
    def cid(self):
        return "%s/%s%s" % (self.prop, self.target, ("[" + self.case + "]") if self.case else "")

    # -- to be provided ---------------------------------------------------------------
    def build(self, F):
        """returns dict with 'args' (list), optional 'kwargs', and anything post() wants to see"""
        raise NotImplementedError

    def invoke(self, F, inp):
        """default: call the target with inp['args'], inp.get('kwargs')"""
        return F.call_target(self.target, inp["args"], inp.get("kwargs") or {})

    def post(self, F, inp, out):
        """yield (label, condition) pairs; condition: z3 Bool / python bool"""
        raise NotImplementedError

    def canaries(self, F, inp, out):
        """optional: (label, condition) pairs that MUST be refutable on at least one path"""
        return []


_SCRATCH = []


def scratch_dir(prefix="verif_"):
    """a fresh directory for files the native replay (or a precondition such as 'the file exists') needs; everything is
    removed when the process ends, so no check leaves anything behind under the temp directory"""
    import atexit
    import shutil
    import tempfile

    if not _SCRATCH:
        root = os.environ.get("PYVC_SCRATCH_ROOT")
        if root and os.path.isdir(root):
            _SCRATCH.append(root)
        else:
            root = tempfile.mkdtemp(prefix="pyvc_scratch_")
            _SCRATCH.append(root)
            atexit.register(shutil.rmtree, root, True)
    return tempfile.mkdtemp(prefix=prefix, dir=_SCRATCH[0])


def register(c):
    inst = c() if isinstance(c, type) else c
    REGISTRY.append(inst)
    return c


# ------------------------------------------------------------------------------ factories


class SymFactory:
    native = False

    def __init__(self, interp):
        self.interp = interp
        self.ctx = interp.ctx

    # scalars
    def real(self, name, np_style=False):
        return self.ctx.input(name, np.float64 if np_style else float)

    def int(self, name, np_style=False):
        return self.ctx.input(name, np.int64 if np_style else int)

    def bool(self, name):
        return self.ctx.input(name, bool)

    def num(self, name, ty):
        return self.ctx.input(name, ty)

    def atom(self, name, rx=None, domain=None, sample=None):
        """an opaque string standing for every string of a regular language (regex) or of a finite domain"""
        from .tokstr import Atom

        self.ctx.options["tokstr"] = True
        return Atom(name, rx, domain, sample)

    def conforms(self, pattern, s):
        """does EVERY string of this form match the pattern?  (automata inclusion; a counterexample becomes a replay hint)"""
        from . import reglang, tokstr

        if isinstance(s, str):
            return pattern.fullmatch(s) is not None
        ts = s if isinstance(s, tokstr.TokStr) else tokstr.TokStr([s])
        tmpl = tokstr.template_of(self.ctx, ts)
        inc, w = reglang.included_erased(reglang.printed_nfa(tmpl), reglang.pattern_nfa(pattern))
        self.ctx.used_models.add("regular languages: inclusion of the printed form in the pattern decided by automata (pyvc.reglang)")
        if not inc:
            self.ctx.options.setdefault("__replay_hints__", {}).update(tokstr.align(self.ctx, ts, w))
        return inc

    def assume(self, cond):
        self.ctx.assume(cond if not isinstance(cond, Sym) else cond.t)

    def assume_feasible(self):
        if not self.ctx.feasible():
            raise PathEnd()

    def lemma(self, label, cond):
        return self.ctx.lemma(label, cond)

    # objects
    def new(self, cls, *args, **kwargs):
        """construct through the real constructor (interpreted); a raising constructor means the
        inputs are not admissible -> the path is dropped"""
        try:
            return self.interp.instantiate(cls, list(args), kwargs)
        except PyExc:
            raise PathEnd()

    def try_new(self, cls, *args, **kwargs):
        """like new() but returns an Outcome"""
        try:
            return Outcome(self.interp.instantiate(cls, list(args), kwargs))
        except PyExc as e:
            return Outcome(exc=e)

    def raw(self, cls, **attrs):
        o = SObj(cls)
        o.attrs.update(attrs)
        return o

    def array(self, data, dtype=None):
        from .libmodels import to_ndarr

        return to_ndarr(self.interp, data, dtype)

    def attr(self, obj, name):
        try:
            return self.interp.getattr(obj, name)
        except PyExc as e:
            raise Unsupported("contract reads attribute %s that raises %s" % (name, e.cls.__name__))

    def has(self, obj, name):
        return self.interp.hasattr(obj, name)

    def call(self, f, *args, **kwargs):
        return self.interp.call(f, list(args), kwargs)

    def call_target(self, target, args, kwargs):
        f, owner = resolve(target)
        from .interp import closure_of
        import types

        if isinstance(f, property):
            raise Unsupported("property target needs explicit invoke()")
        if isinstance(f, (classmethod, staticmethod)):
            fn = f.__func__
            if isinstance(f, classmethod):
                args = [owner] + list(args)
            c = closure_of(fn, owner)
        else:
            c = closure_of(f, owner)
        return self.interp.call(c, args, kwargs)

    def method(self, obj, name, *args, **kwargs):
        return self.interp.call(self.interp.getattr(obj, name), list(args), kwargs)

    def setattr(self, obj, name, value):
        self.interp.setattr(obj, name, value)

    def attempt(self, fn):
        """run fn(); returns an Outcome (the exception of the program, if any, is captured)"""
        try:
            return Outcome(fn())
        except PyExc as e:
            return Outcome(exc=e)

    def ok(self, fn):
        """run fn() as part of building the inputs: an exception means the inputs are inadmissible"""
        try:
            return fn()
        except PyExc:
            raise PathEnd()

    def set(self, items=()):
        return self.interp.make_set(list(items))

    def keys(self, container):
        """the members of a set / keys of a dict as values (symbolic members unwrapped)"""
        from .interp import unkey

        return [unkey(k) for k in container]

    def add(self, a, b):
        import ast as _ast

        return self.interp.binop(_ast.Add, a, b)

    def isinstance(self, v, cls):
        return issubclass(pytype(v), cls)

    def type(self, v):
        return pytype(v)

    def elems(self, arr):
        """flat list of the elements of an array value"""
        if type(arr) is NDArr:
            return arr.flat()
        return list(np.asarray(arr, dtype=float).flat)

    def shape(self, arr):
        return tuple(arr.shape)

    def snapshot(self, v):
        return snapshot(v)

    def same(self, snap, v, ignore=CACHE_ATTRS):
        return deep_eq(snap, v, self, ignore)

    def is_none(self, v):
        return v is None

    def items(self, v):
        return list(v)


class NativeFactory:
    """replays a counter-model on the real code"""

    native = True

    def __init__(self, values):
        self.values = values  # name -> python number
        self.infeasible = False
        self.counter = {}

    def _fresh(self, base):
        n = self.counter.get(base, 0)
        self.counter[base] = n + 1
        return "%s!%d" % (base, n) if n else base

    def _val(self, name, ty):
        v = self.values.get(self._fresh(name))
        if v is None:
            v = 0
        if ty is bool:
            return bool(v)
        if is_int_type(ty):
            return ty(int(v))
        return ty(float(v))

    def real(self, name, np_style=False):
        return self._val(name, np.float64 if np_style else float)

    def int(self, name, np_style=False):
        return self._val(name, np.int64 if np_style else int)

    def bool(self, name):
        return self._val(name, bool)

    def atom(self, name, rx=None, domain=None, sample=None):
        v = self.values.get("atom:" + name)
        if v is not None:
            return v
        return sample if sample is not None else sorted(domain)[0]

    def conforms(self, pattern, s):
        return pattern.fullmatch(s) is not None

    def num(self, name, ty):
        return self._val(name, ty)

    def assume(self, cond):
        from .replay import eval_ground

        if eval_ground(cond) is False:
            self.infeasible = True

    def assume_feasible(self):
        pass

    def lemma(self, label, cond):
        return None

    def new(self, cls, *args, **kwargs):
        return cls(*args, **kwargs)

    def try_new(self, cls, *args, **kwargs):
        try:
            return Outcome(cls(*args, **kwargs))
        except Exception as e:
            return Outcome(exc=e)

    def raw(self, cls, **attrs):
        o = cls.__new__(cls)
        for k, v in attrs.items():
            object.__setattr__(o, k, v)
        return o

    def array(self, data, dtype=None):
        return np.array(data, dtype=dtype)

    def attr(self, obj, name):
        return getattr(obj, name)

    def has(self, obj, name):
        return hasattr(obj, name)

    def call(self, f, *args, **kwargs):
        return f(*args, **kwargs)

    def call_target(self, target, args, kwargs):
        f, owner = resolve(target)
        if isinstance(f, classmethod):
            return f.__func__(owner, *args, **kwargs)
        if isinstance(f, staticmethod):
            return f.__func__(*args, **kwargs)
        return f(*args, **kwargs)

    def method(self, obj, name, *args, **kwargs):
        return getattr(obj, name)(*args, **kwargs)

    def setattr(self, obj, name, value):
        setattr(obj, name, value)

    def attempt(self, fn):
        try:
            return Outcome(fn())
        except Exception as e:
            return Outcome(exc=e)

    def ok(self, fn):
        try:
            return fn()
        except Exception:
            self.infeasible = True
            return None

    def set(self, items=()):
        return set(items)

    def keys(self, container):
        return list(container)

    def add(self, a, b):
        return a + b

    def isinstance(self, v, cls):
        return isinstance(v, cls)

    def type(self, v):
        return type(v)

    def elems(self, arr):
        return [x for x in np.asarray(arr).flat]

    def shape(self, arr):
        return tuple(np.asarray(arr).shape)

    def snapshot(self, v):
        return copy.deepcopy(v)

    def same(self, snap, v, ignore=CACHE_ATTRS):
        return deep_eq(snap, v, self, ignore)

    def is_none(self, v):
        return v is None

    def items(self, v):
        return list(v)


# ------------------------------------------------------------------------------ structural equality


def snapshot(v, memo=None):
    """deep structural copy of the object graph (Sym terms are immutable and shared)"""
    if memo is None:
        memo = {}
    if id(v) in memo:
        return memo[id(v)]
    if type(v) is SObj:
        o = SObj(v.cls)
        memo[id(v)] = o
        for k, x in v.attrs.items():
            o.attrs[k] = snapshot(x, memo)
        return o
    if type(v) is NDArr:
        return v.copy()
    if isinstance(v, list):
        r = []
        memo[id(v)] = r
        r.extend(snapshot(x, memo) for x in v)
        return r
    if isinstance(v, tuple):
        return tuple(snapshot(x, memo) for x in v)
    if isinstance(v, dict):
        r = {}
        memo[id(v)] = r
        for k, x in v.items():
            r[k] = snapshot(x, memo)
        return r
    if isinstance(v, (set, frozenset)):
        return type(v)(v)
    return v


def T(v):
    """z3 term of a python/Sym scalar"""
    return term(v)


def R(v):
    return real_term(v)


def conj(conds):
    cs = []
    for c in conds:
        if isinstance(c, (bool, np.bool_)):
            if not c:
                return z3.BoolVal(False)
            continue
        cs.append(c.t if type(c) is Sym else c)
    if not cs:
        return z3.BoolVal(True)
    return z3.And(*cs) if len(cs) > 1 else cs[0]


def disj(conds):
    cs = []
    for c in conds:
        if isinstance(c, (bool, np.bool_)):
            if c:
                return z3.BoolVal(True)
            continue
        cs.append(c.t if type(c) is Sym else c)
    if not cs:
        return z3.BoolVal(False)
    return z3.Or(*cs) if len(cs) > 1 else cs[0]


def B(v):
    """z3 Bool of a python bool / Sym bool / z3 Bool"""
    if isinstance(v, (bool, np.bool_)):
        return z3.BoolVal(bool(v))
    if type(v) is Sym:
        return v.t if v.ty is bool else v.t != 0
    return v


def _is_num(v):
    return type(v) is Sym or isinstance(v, (int, float, np.number, bool, np.bool_, Fraction))


def _attrs_of(o):
    if type(o) is SObj:
        return o.attrs
    d = getattr(o, "__dict__", None)
    if d is not None:
        return d
    if hasattr(o, "__slots__"):
        return {k: getattr(o, k) for k in o.__slots__ if hasattr(o, k)}
    return None


POLYGON_VERTICES_PRIMARY = [False]  # switched on by contracts/c18.py (frame comparisons), see spec/approx.py


def deep_eq(a, b, F=None, ignore=(), _depth=0):
    """structural equality as a z3 Bool (numbers by value, containers element-wise, objects by class
    and attributes; attributes named in `ignore` are skipped)."""
    if _depth > 40:
        raise Unsupported("deep_eq depth")
    if a is b and not _is_num(a):
        return z3.BoolVal(True)
    if _is_num(a) and _is_num(b):
        ka = isinstance(a, (bool, np.bool_)) or (type(a) is Sym and a.ty is bool)
        kb = isinstance(b, (bool, np.bool_)) or (type(b) is Sym and b.ty is bool)
        if ka != kb:
            return z3.BoolVal(False)
        if ka:
            return B(a) == B(b)
        return R(a) == R(b)
    if _is_num(a) or _is_num(b):
        return z3.BoolVal(False)
    if a is None or b is None:
        return z3.BoolVal(a is None and b is None)
    if isinstance(a, (str, bytes, type)) or isinstance(b, (str, bytes, type)):
        return z3.BoolVal(a == b)
    import enum

    if isinstance(a, enum.Enum) or isinstance(b, enum.Enum):
        return z3.BoolVal(a is b)
    arr_a = type(a) is NDArr or isinstance(a, np.ndarray)
    arr_b = type(b) is NDArr or isinstance(b, np.ndarray)
    if arr_a or arr_b:
        if not (arr_a and arr_b):
            return z3.BoolVal(False)
        sa = tuple(a.shape)
        sb = tuple(b.shape)
        if sa != sb:
            return z3.BoolVal(False)
        fa = a.flat() if type(a) is NDArr else list(a.flat)
        fb = b.flat() if type(b) is NDArr else list(b.flat)
        return conj(R(x) == R(y) for x, y in zip(fa, fb))
    if isinstance(a, (list, tuple)) and isinstance(b, (list, tuple)):
        if len(a) != len(b) or isinstance(a, list) != isinstance(b, list):
            return z3.BoolVal(False)
        return conj(deep_eq(x, y, F, ignore, _depth + 1) for x, y in zip(a, b))
    if isinstance(a, dict) and isinstance(b, dict):
        if set(a.keys()) != set(b.keys()):
            return z3.BoolVal(False)
        return conj(deep_eq(a[k], b[k], F, ignore, _depth + 1) for k in a)
    if isinstance(a, (set, frozenset)) and isinstance(b, (set, frozenset)):
        try:
            return z3.BoolVal(a == b)
        except Exception:
            if len(a) != len(b):
                return z3.BoolVal(False)
            raise Unsupported("deep_eq on sets of model objects")
    ca = a.cls if type(a) is SObj else type(a)
    cb = b.cls if type(b) is SObj else type(b)
    if ca is not cb:
        return z3.BoolVal(False)
    da, db = _attrs_of(a), _attrs_of(b)
    if da is None or db is None:
        try:
            return z3.BoolVal(bool(a == b))
        except Exception:
            raise Unsupported("deep_eq on %r" % ca)
    ig = ignore
    if POLYGON_VERTICES_PRIMARY[0] and getattr(ca, "__name__", "") == "Polygon" and "_vertices" in ignore:
        ig = tuple(k for k in ignore if k != "_vertices")  # primary data of a Polygon (a derived cache only for Rectangle)
    ka = {k for k in da if k not in ig}
    kb = {k for k in db if k not in ig}
    if ka != kb:
        return z3.BoolVal(False)
    return conj(deep_eq(da[k], db[k], F, ignore, _depth + 1) for k in sorted(ka))
