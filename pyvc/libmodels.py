"""pyvc.libmodels -- models of builtins, math, numpy, copy, warnings (the trusted base of section 2.6).

Every entry is an *assumed contract* on a library function; the set actually used on a run
is reported in the evidence (ctx.used_models)."""
from __future__ import annotations

import ast
import builtins
import copy as _copy
import math
import typing
import warnings

import numpy as np
import z3

from . import ops
from .core import PI, PyExc, Sym, SymLeak, Unsupported, is_float_type, is_int_type, mk, num_term, pytype, real_term, term, to_real
from .objects import NDArr, SObj, SymStr


def _np_elem(x, dtype):
    """element as seen by python code when taken out of an array"""
    if type(x) is Sym:
        if dtype == "f" and x.ty is not np.float64:
            return Sym(to_real(num_term(x)), np.float64)
        if dtype == "i" and x.ty is not np.int64:
            return Sym(x.t, np.int64)
        if dtype == "b" and x.ty is not bool:
            return x
        return x
    if dtype == "f":
        return np.float64(x)
    if dtype == "i":
        return np.int64(x)
    if dtype == "b":
        return np.bool_(x)
    return x


def _elem_kind(x):
    t = x.ty if type(x) is Sym else type(x)
    if t is bool or t is np.bool_:
        return "b"
    if is_float_type(t) or (isinstance(t, type) and issubclass(t, np.floating)):
        return "f"
    if is_int_type(t) or (isinstance(t, type) and issubclass(t, np.integer)):
        return "i"
    return "O"


def _join_kind(kinds):
    if "O" in kinds:
        return "O"
    if "f" in kinds:
        return "f"
    if "i" in kinds:
        return "i"
    if "b" in kinds:
        return "b"
    return "f"


def to_ndarr(interp, v, dtype=None):
    """np.array(v)"""
    if type(v) is NDArr:
        out = v.copy()
    elif isinstance(v, np.ndarray):
        from .interp import _lift_ndarray

        out = _lift_ndarray(v)
    elif isinstance(v, (list, tuple)):
        def conv(x):
            if type(x) is NDArr:
                return x.copy().data if x.shape else x.data
            if isinstance(x, np.ndarray):
                return x.tolist()
            if isinstance(x, (list, tuple)):
                return [conv(y) for y in x]
            if type(x) is Sym or isinstance(x, (int, float, bool, np.number, np.bool_)):
                return x
            if type(x) is SObj or x is None or isinstance(x, str):
                raise Unsupported("object/None/str element in np.array")
            raise Unsupported("np.array element %r" % type(x))

        data = conv(v)
        out = NDArr(data)
        # ragged check
        def check(d, shape):
            if not shape:
                if isinstance(d, list):
                    raise Unsupported("ragged array")
                return
            if not isinstance(d, list) or len(d) != shape[0]:
                raise Unsupported("ragged array")
            for x in d:
                check(x, shape[1:])

        check(out.data, out.shape)
        kinds = {_elem_kind(x) for x in out.flat()} or {"f"}
        out.dtype = _join_kind(kinds)
    elif type(v) is Sym or isinstance(v, (int, float, bool, np.number)):
        out = NDArr(v, (), _elem_kind(v))
    elif type(v).__name__ == "_Coords":
        from . import shapely_model

        out = shapely_model.coords_to_array(interp, v)
    else:
        raise Unsupported("np.array of %r" % type(v))
    if dtype is not None:
        k = _dtype_kind(dtype)
        out = astype(out, k)
    else:
        out = astype(out, out.dtype)
    return out


def _dtype_kind(dtype):
    if dtype in (float, np.float64, "float", "float64", np.double):
        return "f"
    if dtype in (int, np.int64, "int", "int64", np.int32, np.int_):
        return "i"
    if dtype in (bool, np.bool_):
        return "b"
    if isinstance(dtype, np.dtype):
        return "f" if dtype.kind == "f" else ("i" if dtype.kind in "iu" else "b")
    raise Unsupported("dtype %r" % (dtype,))


def astype(a, kind):
    def conv(x):
        if kind == "f":
            if type(x) is Sym:
                return Sym(to_real(num_term(x)), np.float64)
            return float(x)
        if kind == "i":
            if type(x) is Sym:
                if is_float_type(x.ty):
                    raise Unsupported("float->int array cast of symbolic")
                return Sym(num_term(x), np.int64)
            return int(x)
        if kind == "b":
            if type(x) is Sym:
                if x.ty is bool:
                    return x
                return mk(x.t != 0, bool)
            return bool(x)
        return x

    r = a.map(conv, kind)
    return r


def _scalar(x):
    return type(x) is Sym or isinstance(x, (int, float, bool, np.number, np.bool_))


def _sbin(interp, opcls, x, y):
    if type(x) is Sym or type(y) is Sym:
        return ops.binop(interp.ctx, opcls, x, y)
    from .interp import _NATIVE

    return _NATIVE[opcls](x, y)


def _broadcast(a, b):
    """returns (A, B) NDArr of equal shape"""
    if _scalar(a):
        a = NDArr(a, (), _elem_kind(a))
    if _scalar(b):
        b = NDArr(b, (), _elem_kind(b))
    if isinstance(a, (list, tuple)):
        a = to_ndarr(None, a)
    if isinstance(b, (list, tuple)):
        b = to_ndarr(None, b)
    if isinstance(a, np.ndarray):
        a = to_ndarr(None, a)
    if isinstance(b, np.ndarray):
        b = to_ndarr(None, b)
    if type(a) is not NDArr or type(b) is not NDArr:
        raise Unsupported("broadcast of %r and %r" % (type(a), type(b)))
    if a.shape == b.shape:
        return a, b
    nd = max(len(a.shape), len(b.shape))
    sa = (1,) * (nd - len(a.shape)) + a.shape
    sb = (1,) * (nd - len(b.shape)) + b.shape
    shape = []
    for x, y in zip(sa, sb):
        if x == y or y == 1:
            shape.append(x)
        elif x == 1:
            shape.append(y)
        else:
            raise PyExc(ValueError, ("operands could not be broadcast together with shapes %s %s" % (a.shape, b.shape),))
    shape = tuple(shape)

    def expand(arr, s_from):
        def build(d, sf, st):
            if not st:
                return d
            if sf[0] == st[0]:
                return [build(d[i], sf[1:], st[1:]) for i in range(st[0])]
            return [build(d[0], sf[1:], st[1:]) for _ in range(st[0])]

        # reshape data to s_from nesting
        d = arr.data
        for _ in range(len(s_from) - len(arr.shape)):
            d = [d]
        return NDArr(build(d, s_from, shape), shape, arr.dtype)

    return expand(a, sa), expand(b, sb)


def nd_binop(interp, opcls, a, b):
    if opcls is ast.MatMult:
        return dot(interp, a, b)
    A, B = _broadcast(a, b)
    kind = _join_kind({A.dtype, B.dtype})
    if opcls is ast.Div:
        kind = "f"
    r = NDArr.zip_map(A, B, lambda x, y: _sbin(interp, opcls, x, y), kind)
    return astype(r, kind) if kind in "fi" else r


def nd_compare(interp, opcls, a, b):
    A, B = _broadcast(a, b)

    def cmp(x, y):
        if type(x) is Sym or type(y) is Sym:
            return ops.compare(opcls, x, y)
        from .interp import _NATIVE_CMP

        return bool(_NATIVE_CMP[opcls](x, y))

    return NDArr.zip_map(A, B, cmp, "b")


def nd_getitem(interp, o, i):
    if type(i) is NDArr:
        if i.dtype == "b":
            if has_symbolic(i):
                raise Unsupported("boolean mask indexing with symbolic mask")
            rows = o.rows()
            sel = [r for r, m in zip(rows, i.flat())]
            sel = [r for r, m in zip(rows, i.flat()) if m]
            return to_ndarr(interp, sel) if sel else NDArr([], (0,) + o.shape[1:], o.dtype)
        raise Unsupported("fancy indexing")
    if type(i) is Sym or (isinstance(i, tuple) and any(type(x) is Sym for x in i)):
        if type(i) is Sym and len(o.shape) >= 1:
            n = o.shape[0]
            t = term(i)
            for k in range(n):
                if interp.ctx.branch(z3.Or(t == k, t == k - n)):
                    r = o.getitem(k)
                    return _np_elem(r, o.dtype) if not isinstance(r, NDArr) else r
            raise PyExc(IndexError, ("index out of bounds",))
        raise Unsupported("symbolic tuple index into ndarray")
    try:
        r = o.getitem(i)
    except IndexError as e:
        raise PyExc(IndexError, e.args)
    if isinstance(r, NDArr):
        return r
    return _np_elem(r, o.dtype)


def _cast_elem(x, kind):
    """numpy's cast on assignment into an array of dtype `kind`"""
    if kind == "f":
        if type(x) is Sym:
            return Sym(to_real(num_term(x)), np.float64)
        return float(x)
    if kind == "i":
        if type(x) is Sym:
            if is_float_type(x.ty):
                t = x.t
                return mk(z3.If(t >= 0, z3.ToInt(t), -z3.ToInt(-t)), np.int64)  # truncation toward zero
            return Sym(num_term(x), np.int64)
        return int(x)
    if kind == "b":
        if type(x) is Sym:
            return x if x.ty is bool else mk(x.t != 0, bool)
        return bool(x)
    return x


def nd_setitem(interp, arr, idx, value):
    """arr[idx] = value for integer / slice indices, with broadcasting and dtype cast"""
    if not isinstance(idx, tuple):
        idx = (idx,)
    if any(type(i) is Sym for i in idx):
        raise Unsupported("symbolic index assignment into ndarray")
    if len(idx) > len(arr.shape):
        raise PyExc(IndexError, ("too many indices for array",))
    idx = idx + (slice(None),) * (len(arr.shape) - len(idx))
    sel = []
    out_shape = []
    for i, n in zip(idx, arr.shape):
        if isinstance(i, slice):
            r = list(range(*i.indices(n)))
            sel.append(r)
            out_shape.append(len(r))
        elif isinstance(i, (int, np.integer)) and not isinstance(i, bool):
            j = int(i)
            if j < -n or j >= n:
                raise PyExc(IndexError, ("index %d is out of bounds for axis with size %d" % (j, n),))
            sel.append([j % n])
        else:
            raise Unsupported("ndarray index %r in assignment" % (i,))
    # broadcast the value to out_shape
    if _scalar(value):
        V = None
    else:
        v = value if type(value) is NDArr else to_ndarr(interp, value)
        while v.ndim > len(out_shape) and v.shape[0] == 1:  # numpy drops leading axes of length 1 of the assigned value
            v = NDArr(v.data[0], v.shape[1:], v.dtype)
        tgt = NDArr(_zeros_nested(tuple(out_shape)), tuple(out_shape), "f")
        _, V = _broadcast(tgt, v)
        if V.shape != tuple(out_shape):
            raise PyExc(ValueError, ("could not broadcast input array from shape %s into shape %s" % (v.shape, tuple(out_shape)),))
    import itertools

    slice_axes = [k for k, i in enumerate(idx) if isinstance(i, slice)]
    for combo in itertools.product(*[range(len(s_)) for s_ in sel]):
        coords = [sel[k][c] for k, c in enumerate(combo)]
        if V is None:
            x = value
        else:
            d = V.data
            for k in slice_axes:
                d = d[combo[k]]
            x = d
        arr.poke(tuple(coords), _cast_elem(x, arr.dtype))  # writes through to the array(s) `arr` is a view of


def _zeros_nested(shape):
    if not shape:
        return 0.0
    return [_zeros_nested(shape[1:]) for _ in range(shape[0])]


def has_symbolic(a):
    return any(type(x) is Sym for x in a.flat())


def dot(interp, a, b):
    a = a if type(a) is NDArr else to_ndarr(interp, a)
    b = b if type(b) is NDArr else to_ndarr(interp, b)
    kind = _join_kind({a.dtype, b.dtype})

    def sdot(u, v):
        acc = None
        for x, y in zip(u, v):
            p = _sbin(interp, ast.Mult, x, y)
            acc = p if acc is None else _sbin(interp, ast.Add, acc, p)
        return acc if acc is not None else 0.0

    if a.ndim == 1 and b.ndim == 1:
        if a.shape != b.shape:
            raise PyExc(ValueError, ("shapes not aligned",))
        return _np_elem(sdot(a.data, b.data), kind)
    if a.ndim == 2 and b.ndim == 2:
        if a.shape[1] != b.shape[0]:
            raise PyExc(ValueError, ("shapes %s and %s not aligned" % (a.shape, b.shape),))
        bt = b.transpose()
        return NDArr([[sdot(r, c) for c in bt.data] for r in a.data], (a.shape[0], b.shape[1]), kind)
    if a.ndim == 2 and b.ndim == 1:
        if a.shape[1] != b.shape[0]:
            raise PyExc(ValueError, ("shapes not aligned",))
        return NDArr([sdot(r, b.data) for r in a.data], (a.shape[0],), kind)
    if a.ndim == 1 and b.ndim == 2:
        if a.shape[0] != b.shape[0]:
            raise PyExc(ValueError, ("shapes not aligned",))
        bt = b.transpose()
        return NDArr([sdot(a.data, c) for c in bt.data], (b.shape[1],), kind)
    raise Unsupported("dot of %d-d and %d-d arrays" % (a.ndim, b.ndim))


def _reduce_sum(interp, items):
    acc = None
    for x in items:
        acc = x if acc is None else _sbin(interp, ast.Add, acc, x)
    return acc if acc is not None else 0.0


def ndarray_attr(interp, a, name):
    from .interp import ModelFn, BoundMethod

    if name == "shape":
        return a.shape
    if name == "ndim":
        return len(a.shape)
    if name == "size":
        n = 1
        for s in a.shape:
            n *= s
        return n
    if name == "T":
        return a.transpose()
    if name == "dtype":
        return np.dtype({"f": np.float64, "i": np.int64, "b": np.bool_}.get(a.dtype, object))

    def method(fn):
        return ModelFn(lambda it, args, kwargs: fn(*args, **kwargs), "ndarray." + name)

    if name == "dot":
        return method(lambda b: dot(interp, a, b))
    if name == "transpose":
        return method(lambda: a.transpose())
    if name == "astype":
        return method(lambda dt, **kw: astype(a, _dtype_kind(dt)))
    if name == "copy":
        return method(lambda: a.copy())
    if name == "tolist":
        return method(lambda: a.copy().data)
    if name == "flatten":
        return method(lambda: NDArr(a.flat(), (len(a.flat()),), a.dtype))
    if name == "ravel":
        return method(lambda: reshape(a, (-1,)))
    if name == "view":
        return method(lambda: reshape(a, a.shape))
    if name == "reshape":
        return method(lambda *shape: reshape(a, shape[0] if len(shape) == 1 and isinstance(shape[0], (tuple, list)) else shape))
    if name == "sum":
        return method(lambda axis=None: np_sum(interp, a, axis))
    if name in ("all", "any", "min", "max", "mean"):
        return method(lambda axis=None: {"all": np_all, "any": np_any, "min": np_min, "max": np_max, "mean": np_mean}[name](interp, a, axis))
    if name == "item":
        return method(lambda: a.flat()[0] if len(a.flat()) == 1 else (_ for _ in ()).throw(Unsupported("item() of non-scalar")))
    if name == "__len__":
        return method(lambda: len(a))
    raise Unsupported("ndarray attribute %s" % name)


def scalar_attr(interp, s, name):
    from .interp import ModelFn

    if name == "__class__":
        return s.ty
    if name == "real":
        return s
    if name in ("item",):
        return ModelFn(lambda it, a, k: Sym(s.t, float if is_float_type(s.ty) else int), "scalar.item")
    if name == "astype":
        def _as(it, a, k):
            kind = _dtype_kind(a[0])
            if kind == "f":
                return Sym(to_real(num_term(s)), np.float64)
            raise Unsupported("scalar astype")
        return ModelFn(_as, "scalar.astype")
    if name == "is_integer" and is_float_type(s.ty):
        raise Unsupported("float.is_integer on symbolic")
    # attribute that does not exist on numbers
    probe = s.ty(0) if s.ty is not bool else False
    if hasattr(probe, name):
        raise Unsupported("attribute %s of symbolic %s" % (name, s.ty.__name__))
    raise PyExc(AttributeError, ("'%s' object has no attribute '%s'" % (s.ty.__name__, name),))


def reshape(a, shape):
    flat = a.flat()
    shape = list(shape)
    n = len(flat)
    if -1 in shape:
        k = 1
        for s in shape:
            if s != -1:
                k *= s
        shape[shape.index(-1)] = n // k if k else 0
    def build(items, sh):
        if not sh:
            return items[0]
        step = len(items) // sh[0] if sh[0] else 0
        return [build(items[i * step:(i + 1) * step], sh[1:]) for i in range(sh[0])]
    r = NDArr(build(flat, shape), tuple(shape), a.dtype)
    if flat:  # the model's arrays are contiguous: reshape / ravel is a view
        r.view_from(a, build(NDArr(a.index_paths(), a.shape, "O").flat(), shape))
    return r


def np_sum(interp, a, axis=None):
    if type(a) is not NDArr:
        a = to_ndarr(interp, a)
    if axis is None:
        return _np_elem(_reduce_sum(interp, a.flat()), a.dtype if a.dtype != "b" else "i")
    if a.ndim == 2:
        if axis in (1, -1):
            return NDArr([_reduce_sum(interp, r) for r in a.data], (a.shape[0],), a.dtype)
        if axis == 0:
            return NDArr([_reduce_sum(interp, c) for c in a.transpose().data], (a.shape[1],), a.dtype)
    if a.ndim == 1 and axis in (0, -1):
        return np_sum(interp, a, None)
    raise Unsupported("sum axis")


def np_mean(interp, a, axis=None):
    if type(a) is not NDArr:
        a = to_ndarr(interp, a)
    if axis is None:
        n = len(a.flat())
        return _sbin(interp, ast.Div, _np_elem(_reduce_sum(interp, a.flat()), "f"), n)
    if a.ndim == 2 and axis == 0:
        s = np_sum(interp, a, 0)
        return nd_binop(interp, ast.Div, s, a.shape[0])
    raise Unsupported("mean axis")


def _fold_bool(interp, items, is_and):
    acc = is_and
    for x in items:
        acc = interp.bool_and(acc, x) if is_and else interp.bool_or(acc, x)
    if type(acc) is Sym:
        return acc
    return np.bool_(acc)


def np_all(interp, a, axis=None):
    if type(a) is not NDArr:
        a = to_ndarr(interp, a)
    if axis is not None:
        raise Unsupported("all(axis)")
    return _fold_bool(interp, a.flat(), True)


def np_any(interp, a, axis=None):
    if type(a) is not NDArr:
        a = to_ndarr(interp, a)
    if axis is not None:
        raise Unsupported("any(axis)")
    return _fold_bool(interp, a.flat(), False)


def _fold_minmax(interp, items, is_max):
    acc = None
    for x in items:
        if acc is None:
            acc = x
        elif type(acc) is Sym or type(x) is Sym:
            acc = ops.mmax2(acc, x) if is_max else ops.mmin2(acc, x)
        else:
            acc = max(acc, x) if is_max else min(acc, x)
    if acc is None:
        raise PyExc(ValueError, ("zero-size array to reduction operation",))
    return acc


def np_min(interp, a, axis=None):
    if type(a) is not NDArr:
        a = to_ndarr(interp, a)
    if axis is None:
        return _np_elem(_fold_minmax(interp, a.flat(), False), a.dtype)
    if a.ndim == 2 and axis == 0:
        return NDArr([_fold_minmax(interp, c, False) for c in a.transpose().data], (a.shape[1],), a.dtype)
    if a.ndim == 2 and axis == 1:
        return NDArr([_fold_minmax(interp, c, False) for c in a.data], (a.shape[0],), a.dtype)
    raise Unsupported("min axis")


def np_max(interp, a, axis=None):
    if type(a) is not NDArr:
        a = to_ndarr(interp, a)
    if axis is None:
        return _np_elem(_fold_minmax(interp, a.flat(), True), a.dtype)
    if a.ndim == 2 and axis == 0:
        return NDArr([_fold_minmax(interp, c, True) for c in a.transpose().data], (a.shape[1],), a.dtype)
    if a.ndim == 2 and axis == 1:
        return NDArr([_fold_minmax(interp, c, True) for c in a.data], (a.shape[0],), a.dtype)
    raise Unsupported("max axis")


def _elementwise(fn_sym, fn_native):
    def model(interp, args, kwargs):
        x = args[0]
        if isinstance(x, (list, tuple)):
            x = to_ndarr(interp, x)
        if type(x) is NDArr:
            return x.map(lambda e: fn_sym(interp, e) if type(e) is Sym else fn_native(e), "f")
        if type(x) is Sym:
            return fn_sym(interp, x)
        return fn_native(x)

    return model


# ------------------------------------------------------------------------------ builtins


def _isinstance(interp, args, kwargs):
    v, T = args
    pt = pytype(v)
    if isinstance(v, PyExc):
        pt = v.cls

    def one(t):
        if t is typing.Any:
            return True
        try:
            return issubclass(pt, t)
        except TypeError:
            origin = typing.get_origin(t)
            if origin is not None:
                return issubclass(pt, origin)
            raise PyExc(TypeError, ("isinstance() arg 2 must be a type, a tuple of types, or a union",))

    if isinstance(T, tuple):
        return any(one(t) for t in T)
    return one(T)


def _type(interp, args, kwargs):
    if len(args) == 1:
        return pytype(args[0])
    raise Unsupported("3-argument type()")


def _len(interp, args, kwargs):
    (v,) = args
    if type(v) is NDArr:
        try:
            return len(v)
        except TypeError as e:
            raise PyExc(TypeError, e.args)
    if type(v) is SObj:
        f = interp.lookup_class_attr(v.cls, "__len__")
        if f is None:
            raise PyExc(TypeError, ("object of type '%s' has no len()" % v.cls.__name__,))
        return interp.call(interp.bind(f[0], v, f[1]), [], {})
    if type(v) is Sym or v is None or isinstance(v, (int, float)):
        raise PyExc(TypeError, ("object of type '%s' has no len()" % pytype(v).__name__,))
    try:
        return len(v)
    except TypeError as e:
        raise PyExc(TypeError, e.args)


def _abs(interp, args, kwargs):
    (v,) = args
    if type(v) is NDArr:
        return v.map(lambda e: ops.mabs(e))
    if type(v) is SObj:
        f = interp.lookup_class_attr(v.cls, "__abs__")
        if f is None:
            raise PyExc(TypeError, ("bad operand type for abs()",))
        return interp.call(interp.bind(f[0], v, f[1]), [], {})
    try:
        return ops.mabs(v)
    except TypeError as e:
        raise PyExc(TypeError, e.args)


def _minmax(is_max):
    def model(interp, args, kwargs):
        key = kwargs.get("key")
        if len(args) == 1:
            items = list(interp.iterate(args[0]))
            if not items:
                if "default" in kwargs:
                    return kwargs["default"]
                raise PyExc(ValueError, ("%s() arg is an empty sequence" % ("max" if is_max else "min"),))
        else:
            items = list(args)
        if key is not None:
            keyed = [(interp.call(key, [x], {}), x) for x in items]
        else:
            keyed = [(x, x) for x in items]
        if not any(has_sym_scalar(k) for k, _ in keyed):
            try:
                ks = [k for k, _ in keyed]
                best = max(range(len(ks)), key=lambda i: ks[i]) if is_max else min(range(len(ks)), key=lambda i: ks[i])
                return keyed[best][1]
            except SymLeak as e:
                raise Unsupported("min/max needs model: %s" % e)
            except TypeError as e:
                raise PyExc(TypeError, e.args)
        if key is None and all(_scalar(x) for x in items):
            acc = items[0]
            for x in items[1:]:
                acc = ops.mmax2(acc, x) if is_max else ops.mmin2(acc, x)
            return acc
        # general: fork on comparisons, python semantics (first extremal element)
        bk, bv = keyed[0]
        for k, v in keyed[1:]:
            c = interp.compare(ast.Gt if is_max else ast.Lt, k, bk)
            if interp.truth(c):
                bk, bv = k, v
        return bv

    return model


def has_sym_scalar(v):
    return type(v) is Sym


def _sum(interp, args, kwargs):
    items = list(interp.iterate(args[0]))
    acc = args[1] if len(args) > 1 else kwargs.get("start", 0)
    for x in items:
        acc = interp.binop(ast.Add, acc, x)
    return acc


def _round(interp, args, kwargs):
    v = args[0]
    n = args[1] if len(args) > 1 else kwargs.get("ndigits")
    if type(v) is SObj:
        f = interp.lookup_class_attr(v.cls, "__round__")
        if f is None:
            raise PyExc(TypeError, ("type %s doesn't define __round__ method" % v.cls.__name__,))
        return interp.call(interp.bind(f[0], v, f[1]), [n] if n is not None or len(args) > 1 else [], {})
    if type(v) is Sym:
        return ops.mround(interp.ctx, v, n)
    if type(n) is Sym:
        raise Unsupported("round with symbolic ndigits")
    try:
        return round(v, n) if n is not None else round(v)
    except TypeError as e:
        raise PyExc(TypeError, e.args)


def _float(interp, args, kwargs):
    if not args:
        return 0.0
    (v,) = args
    if type(v).__name__ == "NumText":
        x = v.value
        if type(x) is Sym:
            return mk(to_real(num_term(x)), float)
        return float(x)
    if type(v) is Sym:
        return mk(to_real(num_term(v)), float)
    if type(v) is SObj:
        f = interp.lookup_class_attr(v.cls, "__float__")
        if f is None:
            raise PyExc(TypeError, ("float() argument must be a string or a real number, not '%s'" % v.cls.__name__,))
        return interp.call(interp.bind(f[0], v, f[1]), [], {})
    if type(v) is NDArr:
        if len(v.flat()) == 1:
            return _float(interp, [v.flat()[0]], {})
        raise PyExc(TypeError, ("only length-1 arrays can be converted to Python scalars",))
    try:
        return float(v)
    except (TypeError, ValueError) as e:
        raise PyExc(type(e), e.args)


def _np_float64(interp, args, kwargs):
    (v,) = args
    if type(v).__name__ == "NumText":
        x = v.value
        return Sym(to_real(num_term(x)), np.float64) if type(x) is Sym else np.float64(x)
    if type(v) is Sym:
        return Sym(to_real(num_term(v)), np.float64)
    try:
        return np.float64(v)
    except (TypeError, ValueError) as e:
        raise PyExc(type(e), e.args)


def _int(interp, args, kwargs):
    if not args:
        return 0
    v = args[0]
    if type(v).__module__ == "pyvc.tokstr":
        v = v.simplify() if hasattr(v, "simplify") else v
        if type(v).__name__ != "NumText":
            raise Unsupported("int() of a token string that is not a single number text: %r" % (v,))
    if type(v).__name__ == "NumText":
        if v.cls != "int":
            raise PyExc(ValueError, ("invalid literal for int() with base 10: <text of a float>",))
        return v.value if type(v.value) is not Sym else mk(num_term(v.value), int)
    if type(v) is Sym:
        t = num_term(v)
        if t.sort() == z3.IntSort():
            return mk(t, int)
        return mk(z3.If(t >= 0, z3.ToInt(t), -z3.ToInt(-t)), int)
    if type(v) is SObj:
        raise Unsupported("int() of object")
    try:
        return int(*args, **kwargs)
    except (TypeError, ValueError) as e:
        raise PyExc(type(e), e.args)


def _bool(interp, args, kwargs):
    if not args:
        return False
    return interp.to_boolsym(args[0]) if type(args[0]) is Sym else interp.truth(args[0])


def _str(interp, args, kwargs):
    if not args:
        return ""
    v = args[0]
    if type(v) is Sym and v.ty is not bool:
        from .xmlmodel import NumText

        interp.ctx.used_models.add("str(number): text denoting exactly that number (repr round-trips); floats may print in exponent form")
        t = NumText(v, "int" if is_int_type(v.ty) else "pyrepr", v)
        t.ctx = interp.ctx
        return t
    if type(v) is Sym and v.ty is bool:
        return "True" if interp.truth(v) else "False"
    if type(v).__name__ == "NumText" or type(v).__module__ == "pyvc.tokstr":
        return v
    if type(v) is SObj:
        for name in ("__str__", "__repr__"):
            f = interp.lookup_class_attr(v.cls, name)
            if f is not None and f[1] is not object and hasattr(f[0], "__code__"):
                return interp.call(interp.bind(f[0], v, f[1]), [], {})
        return SymStr(["<obj>"])
    if has_sym_deep(v):
        return SymStr(["<sym>"])
    if isinstance(v, PyExc):
        return str(v.exc_args[0]) if v.exc_args else ""
    return str(*args, **kwargs)


def _format(interp, args, kwargs):
    """builtins.format(f, '.<d>f') of a symbolic float: plain decimal text denoting f rounded to d decimals (T3)"""
    import re as _re

    v, spec = args[0], (args[1] if len(args) > 1 else "")
    if type(v) is not Sym:
        if has_sym_deep(v):
            raise Unsupported("format() of a model value")
        return format(*args, **kwargs)
    m = _re.fullmatch(r"\.(\d+)f", spec) if isinstance(spec, str) else None
    if m is None or not is_float_type(v.ty):
        raise Unsupported("format(%s, %r)" % (v.ty, spec))
    from .xmlmodel import NumText

    d = int(m.group(1))
    k = 10 ** d
    ctx = interp.ctx
    f = z3.simplify(real_term(v))
    n = z3.Function("format_round_%d" % d, z3.RealSort(), z3.IntSort())(f)  # a function of the value: deterministic
    r = z3.ToReal(n) / k
    a = z3.If(f >= 0, f, -f)
    ctx.solver.add(r - f <= z3.Q(1, 2 * k), f - r <= z3.Q(1, 2 * k), z3.Implies(a >= z3.RealVal(2 ** 53), r == f))
    ctx.used_models.add("format(f, '.<d>f'): plain decimal text denoting f rounded to d decimals; a float >= 2^53 is an integer and prints exactly")
    out = NumText(Sym(r, float), "plain", v, note="format .%df" % d)
    out.scaled = (n, k)
    return out


def has_sym_deep(v):
    from .interp import has_sym

    return has_sym(v)


def _hasattr(interp, args, kwargs):
    return interp.hasattr(args[0], args[1])


def _getattr(interp, args, kwargs):
    if len(args) == 3:
        try:
            return interp.getattr(args[0], args[1])
        except PyExc as e:
            if issubclass(e.cls, AttributeError):
                return args[2]
            raise
    return interp.getattr(args[0], args[1])


def _setattr(interp, args, kwargs):
    interp.setattr(args[0], args[1], args[2])


def _delattr(interp, args, kwargs):
    interp.delattr(args[0], args[1])


def _all(interp, args, kwargs):
    for x in interp.iterate(args[0]):
        if not interp.truth(x):
            return False
    return True


def _any(interp, args, kwargs):
    for x in interp.iterate(args[0]):
        if interp.truth(x):
            return True
    return False


def _list(interp, args, kwargs):
    if not args:
        return []
    return list(interp.iterate(args[0]))


def _tuple(interp, args, kwargs):
    if not args:
        return ()
    return tuple(interp.iterate(args[0]))


def _set(interp, args, kwargs):
    if not args:
        return set()
    return interp.make_set(list(interp.iterate(args[0])))


def _frozenset(interp, args, kwargs):
    if not args:
        return frozenset()
    items = list(interp.iterate(args[0]))
    return frozenset(interp.make_set(items))


def _sorted(interp, args, kwargs):
    items = list(interp.iterate(args[0]))
    if has_sym_deep(items) or kwargs.get("key") is not None and not isinstance(kwargs.get("key"), type(len)):
        key = kwargs.get("key")
        if key is not None:
            keys = [interp.call(key, [x], {}) for x in items]
        else:
            keys = items
        if has_sym_deep(keys):
            # insertion sort with forking comparisons (python's sort is stable)
            order = []
            for idx in range(len(items)):
                pos = len(order)
                for j, oidx in enumerate(order):
                    if interp.truth(interp.compare(ast.Lt, keys[idx], keys[oidx])):
                        pos = j
                        break
                order.insert(pos, idx)
            res = [items[i] for i in order]
            if kwargs.get("reverse"):
                raise Unsupported("sorted(reverse=True) on symbolic keys")
            return res
        order = sorted(range(len(items)), key=lambda i: keys[i], reverse=bool(kwargs.get("reverse")))
        return [items[i] for i in order]
    try:
        return sorted(items, **kwargs)
    except TypeError as e:
        raise PyExc(TypeError, e.args)


def _id(interp, args, kwargs):
    return id(args[0])


def _print(interp, args, kwargs):
    return None


def _warn(interp, args, kwargs):
    return None


def _callable(interp, args, kwargs):
    from .interp import Closure, BoundMethod, ModelFn

    v = args[0]
    return isinstance(v, (Closure, BoundMethod, ModelFn)) or callable(v)


# ------------------------------------------------------------------------------ hash model

HASH_NUM = z3.Function("hash_num", z3.RealSort(), z3.IntSort())
HASH_PAIR = z3.Function("hash_pair", z3.IntSort(), z3.IntSort(), z3.IntSort())
HASH_FS = z3.Function("hash_fs_member", z3.IntSort(), z3.IntSort())


def hash_term(interp, v):
    """z3 Int term for hash(v).  hash of numbers is a function of the numeric value (so 1 == 1.0 hash
    alike, as in Python); tuples fold HASH_PAIR; everything concrete uses the native hash."""
    if type(v) is Sym:
        if v.ty is bool:
            return z3.If(v.t, z3.IntVal(1), z3.IntVal(0))
        return HASH_NUM(real_term(v))
    if isinstance(v, (bool, int, float, np.number)):
        return HASH_NUM(real_term(v))
    if isinstance(v, tuple):
        acc = z3.IntVal(len(v) + 7919)
        for x in v:
            acc = HASH_PAIR(acc, hash_term(interp, x))
        return acc
    if type(v) is SObj:
        f = interp.lookup_class_attr(v.cls, "__hash__")
        if f is None or f[0] is None:
            raise PyExc(TypeError, ("unhashable type: '%s'" % v.cls.__name__,))
        if f[1] is object:
            return z3.IntVal(id(v) % (1 << 61))
        r = interp.call(interp.bind(f[0], v, f[1]), [], {})
        return num_term(r)
    if type(v) is NDArr:
        raise PyExc(TypeError, ("unhashable type: 'numpy.ndarray'",))
    if isinstance(v, frozenset):
        from .interp import SymKey, unkey

        if any(type(k) is SymKey for k in v):
            interp.ctx.used_models.add("hash(frozenset): commutative combination of the member hashes")
            acc = z3.IntVal(1927868237)
            for k in v:
                acc = acc + HASH_FS(hash_term(interp, unkey(k)))
            return acc
        return z3.IntVal(hash(v))
    if type(v).__name__ == "ArrStr":
        return hash_term(interp, tuple(v.items) + (v.shape,))
    if type(v).__name__ == "NumText":
        return HASH_PAIR(z3.IntVal(11 if v.cls == "int" else 7), HASH_NUM(real_term(v.value)))
    if isinstance(v, (list, dict, set)):
        raise PyExc(TypeError, ("unhashable type: '%s'" % type(v).__name__,))
    if type(v).__name__ in ("dict_items", "dict_keys", "dict_values"):
        if type(v).__name__ == "dict_values":
            return z3.IntVal(hash(v))
        if type(v).__name__ == "dict_items":
            raise PyExc(TypeError, ("unhashable type: 'dict_items'",))
        raise PyExc(TypeError, ("unhashable type: '%s'" % type(v).__name__,))
    if isinstance(v, SymStr):
        raise Unsupported("hash of symbolic string")
    try:
        return z3.IntVal(hash(v))
    except SymLeak as e:
        raise Unsupported("hash needs model: %s" % e)
    except TypeError as e:
        raise PyExc(TypeError, e.args)


def _hash(interp, args, kwargs):
    t = hash_term(interp, args[0])
    return mk(t, int)


# ------------------------------------------------------------------------------ copy


def _copy_copy(interp, args, kwargs):
    (v,) = args
    if type(v) is SObj:
        f = interp.lookup_class_attr(v.cls, "__copy__")
        if f is not None:
            return interp.call(interp.bind(f[0], v, f[1]), [], {})
        o = SObj(v.cls)
        o.attrs.update(v.attrs)
        return o
    if type(v) is NDArr:
        return v.copy()
    if type(v) is Sym:
        return v
    if isinstance(v, (list, dict, set)):
        return v.copy()
    return _copy.copy(v)


def deepcopy(interp, v, memo=None):
    if memo is None:
        memo = {}
    if id(v) in memo:
        return memo[id(v)]
    if type(v) is Sym or v is None or isinstance(v, (int, float, str, bool, bytes, np.number, type)) :
        return v
    if type(v).__name__ == "SymKey":
        from .interp import SymKey

        return SymKey(deepcopy(interp, v.v, memo))
    import enum as _enum

    if isinstance(v, _enum.Enum):
        return v
    if type(v) is SObj:
        f = interp.lookup_class_attr(v.cls, "__deepcopy__")
        if f is not None:
            r = interp.call(interp.bind(f[0], v, f[1]), [memo], {})
            memo[id(v)] = r
            return r
        gs = interp.lookup_class_attr(v.cls, "__getstate__")
        ss = interp.lookup_class_attr(v.cls, "__setstate__")
        o = SObj(v.cls)
        memo[id(v)] = o
        if (gs is not None and gs[1] is not object) or ss is not None:
            state = interp.call(interp.bind(gs[0], v, gs[1]), [], {}) if gs is not None and gs[1] is not object else v.attrs
            state = deepcopy(interp, state, memo)
            if ss is not None:
                interp.call(interp.bind(ss[0], o, ss[1]), [state], {})
            else:
                o.attrs.update(state)
            return o
        for k, x in v.attrs.items():
            o.attrs[k] = deepcopy(interp, x, memo)
        return o
    if type(v) is NDArr:
        r = v.copy()
        memo[id(v)] = r
        return r
    if isinstance(v, list):
        r = []
        memo[id(v)] = r
        r.extend(deepcopy(interp, x, memo) for x in v)
        return r
    if isinstance(v, tuple):
        return tuple(deepcopy(interp, x, memo) for x in v)
    if isinstance(v, dict):
        r = type(v)() if type(v) is dict else _copy.copy(v)
        if type(v) is not dict:
            r.clear()
        memo[id(v)] = r
        for k, x in v.items():
            r[deepcopy(interp, k, memo)] = deepcopy(interp, x, memo)
        return r
    if isinstance(v, (set, frozenset)):
        try:
            return type(v)(deepcopy(interp, x, memo) for x in v)
        except SymLeak as e:
            raise Unsupported("deepcopy of set needs hashing of model objects: %s" % e)
    from .interp import has_sym

    if type(v).__module__ == "pyvc.shapely_model":
        return v  # geometry values are immutable in the model
    if has_sym(v):
        raise Unsupported("deepcopy of %r" % type(v))
    return _copy.deepcopy(v)


def _copy_deepcopy(interp, args, kwargs):
    return deepcopy(interp, args[0], args[1] if len(args) > 1 else kwargs.get("memo"))


# ------------------------------------------------------------------------------ numpy


def _np_array(interp, args, kwargs):
    dtype = kwargs.get("dtype", args[1] if len(args) > 1 else None)
    return to_ndarr(interp, args[0], dtype)


def _np_asarray(interp, args, kwargs):
    """np.asarray / asanyarray / ascontiguousarray: an ndarray of the requested dtype is returned as it is (same object,
    no copy); everything else is converted like np.array (the model's arrays are always contiguous)"""
    dtype = kwargs.get("dtype", args[1] if len(args) > 1 else None)
    if type(args[0]) is NDArr and (dtype is None or _dtype_kind(dtype) == args[0].dtype):
        return args[0]
    return to_ndarr(interp, args[0], dtype)


def nd_inplace(interp, opcls, a, b):
    """a op= b on an ndarray: the result is written into a's own elements (and through a's bases), a stays the same object"""
    r = nd_binop(interp, opcls, a, b)
    if type(r) is not NDArr or r.shape != a.shape:
        raise PyExc(ValueError, ("non-broadcastable output operand with shape %s doesn't match the broadcast shape %s" % (a.shape, getattr(r, "shape", ())),))
    if a.dtype != r.dtype and (a.dtype, r.dtype) != ("f", "i") and (a.dtype, r.dtype) != ("f", "b") and (a.dtype, r.dtype) != ("i", "b"):
        raise PyExc(TypeError, ("Cannot cast ufunc output from dtype %r to dtype %r with casting rule 'same_kind'" % (r.dtype, a.dtype),))
    if not a.shape:
        raise Unsupported("in-place operation on a 0-d array")
    import itertools

    for path in itertools.product(*[range(n) for n in a.shape]):
        d = r.data
        for i in path:
            d = d[i]
        a.poke(path, _cast_elem(d, a.dtype))
    return a


def _np_zeros(fill):
    def model(interp, args, kwargs):
        shape = args[0]
        if isinstance(shape, (int, np.integer)):
            shape = (int(shape),)
        if has_sym_deep(list(shape)):
            raise Unsupported("np.zeros/ones with symbolic shape")
        dtype = kwargs.get("dtype", args[1] if len(args) > 1 else None)
        kind = _dtype_kind(dtype) if dtype is not None else "f"
        f = fill if kind == "f" else (int(fill) if kind == "i" else bool(fill))
        def build(sh):
            if not sh:
                return f
            return [build(sh[1:]) for _ in range(sh[0])]
        return NDArr(build(tuple(shape)), tuple(shape), kind)
    return model


def _np_like(fill):
    """zeros_like / ones_like / empty_like: shape and dtype of the prototype unless given"""
    def model(interp, args, kwargs):
        proto = args[0] if type(args[0]) is NDArr else to_ndarr(interp, args[0])
        shape = kwargs.get("shape", proto.shape)
        if isinstance(shape, (int, np.integer)):
            shape = (int(shape),)
        if has_sym_deep(list(shape)):
            raise Unsupported("np.*_like with symbolic shape")
        dtype = kwargs.get("dtype", args[1] if len(args) > 1 else None)
        kind = _dtype_kind(dtype) if dtype is not None else proto.dtype
        f = fill if kind == "f" else (int(fill) if kind == "i" else bool(fill))

        def build(sh):
            if not sh:
                return f
            return [build(sh[1:]) for _ in range(sh[0])]
        return NDArr(build(tuple(shape)), tuple(shape), kind)
    return model


def _np_hstack(interp, args, kwargs):
    arrs = [x if type(x) is NDArr else to_ndarr(interp, x) for x in interp.iterate(args[0])]
    kind = _join_kind({a.dtype for a in arrs})
    if all(a.ndim == 1 for a in arrs):
        data = []
        for a in arrs:
            data.extend(a.data)
        return astype(NDArr(data, (len(data),), kind), kind)
    if all(a.ndim == 2 for a in arrs):
        n = arrs[0].shape[0]
        if any(a.shape[0] != n for a in arrs):
            raise PyExc(ValueError, ("all the input array dimensions except for the concatenation axis must match exactly",))
        data = [sum((list(a.data[i]) for a in arrs), []) for i in range(n)]
        return astype(NDArr(data, (n, sum(a.shape[1] for a in arrs)), kind), kind)
    raise Unsupported("hstack of mixed dims")


def _np_vstack(interp, args, kwargs):
    arrs = [x if type(x) is NDArr else to_ndarr(interp, x) for x in interp.iterate(args[0])]
    kind = _join_kind({a.dtype for a in arrs})
    rows = []
    width = None
    for a in arrs:
        if a.ndim == 1:
            rs = [list(a.data)]
        elif a.ndim == 2:
            rs = [list(r) for r in a.data]
            if a.shape[0] == 0:
                width = width if width is not None else a.shape[1]
        else:
            raise Unsupported("vstack dims")
        for r in rs:
            if width is None:
                width = len(r)
            elif len(r) != width:
                raise PyExc(ValueError, ("all the input array dimensions except for the concatenation axis must match exactly",))
            rows.append(r)
    return astype(NDArr(rows, (len(rows), width or 0), kind), kind)


def _np_concatenate(interp, args, kwargs):
    axis = kwargs.get("axis", args[1] if len(args) > 1 else 0)
    arrs = [x if type(x) is NDArr else to_ndarr(interp, x) for x in interp.iterate(args[0])]
    if axis == 0:
        if all(a.ndim == 1 for a in arrs):
            return _np_hstack(interp, [arrs], {})
        return _np_vstack(interp, [arrs], {})
    if axis == 1:
        return _np_hstack(interp, [arrs], {})
    raise Unsupported("concatenate axis")


def _np_cumsum(interp, args, kwargs):
    a = args[0] if type(args[0]) is NDArr else to_ndarr(interp, args[0])
    if a.ndim != 1:
        raise Unsupported("cumsum of non-1d")
    out = []
    acc = None
    for x in a.data:
        acc = x if acc is None else _sbin(interp, ast.Add, acc, x)
        out.append(acc)
    return NDArr(out, (len(out),), a.dtype)


def _np_diff(interp, args, kwargs):
    a = args[0] if type(args[0]) is NDArr else to_ndarr(interp, args[0])
    axis = kwargs.get("axis", -1)
    if a.ndim == 1:
        return NDArr([_sbin(interp, ast.Sub, a.data[i + 1], a.data[i]) for i in range(len(a.data) - 1)], (max(len(a.data) - 1, 0),), a.dtype)
    if a.ndim == 2 and axis == 0:
        rows = [[_sbin(interp, ast.Sub, a.data[i + 1][j], a.data[i][j]) for j in range(a.shape[1])] for i in range(a.shape[0] - 1)]
        return NDArr(rows, (max(a.shape[0] - 1, 0), a.shape[1]), a.dtype)
    raise Unsupported("diff axis")


def _np_insert(interp, args, kwargs):
    a = args[0] if type(args[0]) is NDArr else to_ndarr(interp, args[0])
    idx, val = args[1], args[2]
    if a.ndim != 1 or type(idx) is Sym:
        raise Unsupported("np.insert form")
    data = list(a.data)
    if idx < 0:
        idx += len(data)
    kind = _join_kind({a.dtype, _elem_kind(val)}) if a.dtype != "i" else "i"
    if a.dtype == "i" and _elem_kind(val) == "f":
        raise Unsupported("np.insert float into int array (truncation)")
    data.insert(idx, val)
    return astype(NDArr(data, (len(data),), kind), kind)


def _np_append(interp, args, kwargs):
    a = args[0] if type(args[0]) is NDArr else to_ndarr(interp, args[0])
    b = args[1]
    axis = kwargs.get("axis")
    if axis is None:
        items = a.flat() + (b.flat() if type(b) is NDArr else (to_ndarr(interp, b).flat()))
        kind = _join_kind({_elem_kind(x) for x in items} or {"f"})
        return astype(NDArr(items, (len(items),), kind), kind)
    if axis == 0:
        return _np_vstack(interp, [[a, b]], {})
    raise Unsupported("append axis")


def _np_argmax(interp, args, kwargs):
    a = args[0] if type(args[0]) is NDArr else to_ndarr(interp, args[0])
    if a.ndim != 1 or not a.data:
        raise Unsupported("argmax form")
    if a.dtype == "b":
        # least index of a True element, 0 if none
        for i, x in enumerate(a.data):
            if interp.truth(x):
                return np.int64(i)
        return np.int64(0)
    best = 0
    for i in range(1, len(a.data)):
        if interp.truth(interp.compare(ast.Gt, a.data[i], a.data[best])):
            best = i
    return np.int64(best)


def _np_argmin(interp, args, kwargs):
    a = args[0] if type(args[0]) is NDArr else to_ndarr(interp, args[0])
    if a.ndim != 1 or not a.data:
        raise Unsupported("argmin form")
    best = 0
    for i in range(1, len(a.data)):
        if interp.truth(interp.compare(ast.Lt, a.data[i], a.data[best])):
            best = i
    return np.int64(best)


def _np_searchsorted(interp, args, kwargs):
    a = args[0] if type(args[0]) is NDArr else to_ndarr(interp, args[0])
    v = args[1]
    side = kwargs.get("side", args[2] if len(args) > 2 else "left")
    if a.ndim != 1 or not _scalar(v):
        raise Unsupported("searchsorted form")
    interp.ctx.used_models.add("np.searchsorted on a sorted 1-d array: least i with a[i] >= v (left) / a[i] > v (right)")
    for i, x in enumerate(a.data):
        c = interp.compare(ast.GtE if side == "left" else ast.Gt, x, v)
        if interp.truth(c):
            return np.int64(i)
    return np.int64(len(a.data))


def _np_norm(interp, args, kwargs):
    a = args[0] if type(args[0]) is NDArr else to_ndarr(interp, args[0])
    axis = kwargs.get("axis")
    def nrm(items):
        s = _reduce_sum(interp, [_sbin(interp, ast.Mult, x, x) for x in items])
        if type(s) is Sym:
            return ops.msqrt(interp.ctx, s, np_style=True, nonneg=True)  # a sum of squares
        return np.float64(math.sqrt(s))
    if axis is None:
        return nrm(a.flat())
    if a.ndim == 2 and axis == 1:
        return NDArr([nrm(r) for r in a.data], (a.shape[0],), "f")
    raise Unsupported("norm axis")


def _np_around(interp, args, kwargs):
    a = args[0]
    dec = args[1] if len(args) > 1 else kwargs.get("decimals", 0)
    if type(a) is NDArr:
        return a.map(lambda x: ops.mround(interp.ctx, x, dec) if type(x) is Sym else round(float(x), dec), a.dtype)
    if type(a) is Sym:
        return ops.mround(interp.ctx, a, dec)
    return np.around(a, dec)


def _np_isclose(interp, args, kwargs):
    a, b = args[0], args[1]
    rtol = kwargs.get("rtol", 1e-05)
    atol = kwargs.get("atol", 1e-08)
    def one(x, y):
        d = ops.mabs(_sbin(interp, ast.Sub, x, y)) if (type(x) is Sym or type(y) is Sym) else abs(x - y)
        lim = _sbin(interp, ast.Add, atol, _sbin(interp, ast.Mult, rtol, ops.mabs(y) if type(y) is Sym else abs(y)))
        if type(d) is Sym or type(lim) is Sym:
            return ops.compare(ast.LtE, d, lim)
        return bool(d <= lim)
    if type(a) is NDArr or type(b) is NDArr:
        A, B = _broadcast(a, b)
        return NDArr.zip_map(A, B, one, "b")
    return one(a, b)


def _np_allclose(interp, args, kwargs):
    r = _np_isclose(interp, args, kwargs)
    if type(r) is NDArr:
        return np_all(interp, r)
    return r


def _np_array_equal(interp, args, kwargs):
    a = args[0] if type(args[0]) is NDArr else to_ndarr(interp, args[0])
    b = args[1] if type(args[1]) is NDArr else to_ndarr(interp, args[1])
    if a.shape != b.shape:
        return False
    return np_all(interp, nd_compare(interp, ast.Eq, a, b))


def _np_flip(interp, args, kwargs):
    a = args[0] if type(args[0]) is NDArr else to_ndarr(interp, args[0])
    axis = kwargs.get("axis", args[1] if len(args) > 1 else None)
    if a.ndim == 1 or axis == 0:
        return NDArr(list(reversed(a.copy().data)), a.shape, a.dtype)
    if a.ndim == 2 and axis is None:
        return NDArr([list(reversed(r)) for r in reversed(a.copy().data)], a.shape, a.dtype)
    if a.ndim == 2 and axis == 1:
        return NDArr([list(reversed(r)) for r in a.copy().data], a.shape, a.dtype)
    raise Unsupported("flip axis")


def _np_square(interp, args, kwargs):
    a = args[0]
    if type(a) is NDArr:
        return a.map(lambda x: _sbin(interp, ast.Mult, x, x))
    return _sbin(interp, ast.Mult, a, a)


def _np_fmod(interp, args, kwargs):
    """np.fmod / math.fmod on integers and floats: remainder with the sign of the dividend (truncated division)"""
    x, y = args[0], args[1]
    if type(x) is not Sym and type(y) is not Sym:
        return np.fmod(x, y)
    ix = (type(x) is Sym and is_int_type(x.ty)) or (type(x) is not Sym and isinstance(x, (int, np.integer)))
    iy = (type(y) is Sym and is_int_type(y.ty)) or (type(y) is not Sym and isinstance(y, (int, np.integer)))
    if ix and iy:
        xt, yt = num_term(x), num_term(y)
        if interp.ctx.branch(yt == 0):
            raise Unsupported("np.fmod by zero")
        ay = z3.If(yt >= 0, yt, -yt)
        interp.ctx.used_models.add("np.fmod on integers: x - y*trunc(x/y)")
        return mk(z3.If(xt >= 0, xt % ay, -((-xt) % ay)), np.int64)
    return ops.mfmod(interp.ctx, x, y)


def _np_format_float_positional(interp, args, kwargs):
    v = args[0]
    if type(v).__name__ == "NumText":
        v = v.value
    if type(v) is Sym:
        from .xmlmodel import NumText

        interp.ctx.used_models.add("np.format_float_positional: plain decimal text denoting exactly the float")
        return NumText(Sym(to_real(num_term(v)), float), "plain", v)
    return np.format_float_positional(v, **kwargs)


def _np_cmp(opcls):
    def model(interp, args, kwargs):
        return interp.compare(opcls, args[0], args[1])
    return model


def _np_abs(interp, args, kwargs):
    return _abs(interp, args, kwargs)


def _np_empty(interp, args, kwargs):
    return _np_zeros(0.0)(interp, args, kwargs)


def _np_transpose(interp, args, kwargs):
    a = args[0] if type(args[0]) is NDArr else to_ndarr(interp, args[0])
    return a.transpose()


def _np_dot(interp, args, kwargs):
    return dot(interp, args[0], args[1])


def _np_array2string(interp, args, kwargs):
    a = args[0]
    if type(a) is NDArr and has_symbolic(a):
        # the string is an injective function of the (already rounded) array: return a canonical
        # tuple wrapper that compares element-wise (assumption listed in evidence)
        interp.ctx.used_models.add("np.array2string(around(a,10)): injective function of the rounded array")
        return ArrStr(tuple(a.flat()), a.shape)
    if type(a) is NDArr:
        return np.array2string(np.array(a.data, dtype=float), *args[1:], **kwargs)
    return np.array2string(*args, **kwargs)


class ArrStr:
    """stand-in for the text of a numeric array; equality is element-wise on the values"""

    def __init__(self, items, shape):
        self.items = items
        self.shape = shape


def _re_sub(interp, args, kwargs):
    from . import tokstr

    return tokstr.re_sub(interp, args, kwargs)


class SymRange:
    """range(a, b) with symbolic bounds (step 1): only membership tests are supported"""

    def __init__(self, lo, hi):
        self.lo, self.hi = lo, hi


def _range(interp, args, kwargs):
    if not any(type(a) is Sym for a in args):
        try:
            return range(*args)
        except (TypeError, ValueError) as e:
            raise PyExc(type(e), e.args)
    if len(args) == 1:
        return SymRange(0, args[0])
    if len(args) == 2:
        return SymRange(args[0], args[1])
    raise Unsupported("range() with a step and symbolic bounds")


def _open(interp, args, kwargs):
    from . import pbmodel

    return pbmodel.open_model(interp, args, kwargs)


class MplObj:
    """a matplotlib artist that was constructed: (kind, args, kwargs) -- recorder, see DESIGN.md 2.9"""

    def __init__(self, kind, args, kwargs):
        self.kind, self.args, self.kwargs = kind, args, kwargs

    def __repr__(self):
        return "<mpl %s>" % self.kind


def _dc_fields(interp, args, kwargs):
    import dataclasses as _dc

    o = args[0]
    return _dc.fields(o.cls if type(o) is SObj else o)


def _object_setattr(interp, args, kwargs):
    o, name, value = args
    if type(o) is SObj:
        interp.raw_setattr(o, name, value)
        return None
    raise Unsupported("object.__setattr__ on %r" % type(o))


def build_models():
    import re as _re
    import dataclasses as _dc

    M = {
        _re.sub: _re_sub,
        _dc.fields: _dc_fields,
        object.__setattr__: _object_setattr,
        builtins.open: _open,
        builtins.range: _range,
        builtins.isinstance: _isinstance,
        builtins.type: _type,
        builtins.len: _len,
        builtins.abs: _abs,
        builtins.format: _format,
        builtins.min: _minmax(False),
        builtins.max: _minmax(True),
        builtins.sum: _sum,
        builtins.round: _round,
        builtins.float: _float,
        builtins.int: _int,
        builtins.bool: _bool,
        builtins.str: _str,
        builtins.repr: _str,
        builtins.hasattr: _hasattr,
        builtins.getattr: _getattr,
        builtins.setattr: _setattr,
        builtins.delattr: _delattr,
        builtins.all: _all,
        builtins.any: _any,
        builtins.list: _list,
        builtins.tuple: _tuple,
        builtins.set: _set,
        builtins.frozenset: _frozenset,
        builtins.sorted: _sorted,
        builtins.id: _id,
        builtins.hash: _hash,
        builtins.print: _print,
        builtins.callable: _callable,
        warnings.warn: _warn,
        _copy.copy: _copy_copy,
        _copy.deepcopy: _copy_deepcopy,
        math.sin: lambda it, a, k: ops.msin(it.ctx, a[0]),
        math.cos: lambda it, a, k: ops.mcos(it.ctx, a[0]),
        math.sqrt: lambda it, a, k: ops.msqrt(it.ctx, a[0]),
        math.atan2: lambda it, a, k: ops.matan2(it.ctx, a[0], a[1]),
        math.fmod: lambda it, a, k: ops.mfmod(it.ctx, a[0], a[1]),
        math.hypot: lambda it, a, k: ops.mhypot(it.ctx, a[0], a[1]),
        math.fabs: lambda it, a, k: ops.mabs(a[0]) if type(a[0]) is Sym else math.fabs(a[0]),
        math.isclose: lambda it, a, k: _np_isclose(it, a, {"rtol": k.get("rel_tol", 1e-09), "atol": k.get("abs_tol", 0.0)}),
        np.array: _np_array,
        np.asarray: _np_asarray,
        np.asanyarray: _np_asarray,
        np.ascontiguousarray: _np_asarray,
        np.zeros_like: _np_like(0.0),
        np.ones_like: _np_like(1.0),
        np.empty_like: _np_like(0.0),
        np.zeros: _np_zeros(0.0),
        np.ones: _np_zeros(1.0),
        np.empty: _np_empty,
        np.hstack: _np_hstack,
        np.vstack: _np_vstack,
        np.concatenate: _np_concatenate,
        np.cumsum: _np_cumsum,
        np.diff: _np_diff,
        np.insert: _np_insert,
        np.append: _np_append,
        np.argmax: _np_argmax,
        np.argmin: _np_argmin,
        np.searchsorted: _np_searchsorted,
        np.linalg.norm: _np_norm,
        np.around: _np_around,
        np.round: _np_around,
        np.isclose: _np_isclose,
        np.allclose: _np_allclose,
        np.array_equal: _np_array_equal,
        np.flip: _np_flip,
        np.square: _np_square,
        np.transpose: _np_transpose,
        np.dot: _np_dot,
        np.abs: _np_abs,
        np.absolute: _np_abs,
        np.sum: lambda it, a, k: np_sum(it, a[0], k.get("axis", a[1] if len(a) > 1 else None)),
        np.mean: lambda it, a, k: np_mean(it, a[0], k.get("axis", a[1] if len(a) > 1 else None)),
        np.all: lambda it, a, k: np_all(it, a[0], k.get("axis")),
        np.any: lambda it, a, k: np_any(it, a[0], k.get("axis")),
        np.min: lambda it, a, k: np_min(it, a[0], k.get("axis", a[1] if len(a) > 1 else None)),
        np.max: lambda it, a, k: np_max(it, a[0], k.get("axis", a[1] if len(a) > 1 else None)),
        np.amin: lambda it, a, k: np_min(it, a[0], k.get("axis", a[1] if len(a) > 1 else None)),
        np.amax: lambda it, a, k: np_max(it, a[0], k.get("axis", a[1] if len(a) > 1 else None)),
        np.sin: _elementwise(lambda it, x: ops.msin(it.ctx, x, True), np.sin),
        np.cos: _elementwise(lambda it, x: ops.mcos(it.ctx, x, True), np.cos),
        np.sqrt: _elementwise(lambda it, x: ops.msqrt(it.ctx, x, True), np.sqrt),
        np.sign: _elementwise(lambda it, x: ops.msign(it.ctx, x), np.sign),
        np.arctan: lambda it, a, k: ops.matan(it.ctx, a[0], True) if type(a[0]) is Sym else np.arctan(a[0]),
        math.atan: lambda it, a, k: ops.matan(it.ctx, a[0]) if type(a[0]) is Sym else math.atan(a[0]),
        np.arctan2: lambda it, a, k: ops.matan2(it.ctx, a[0], a[1], True) if (type(a[0]) is Sym or type(a[1]) is Sym) else np.arctan2(a[0], a[1]),
        np.hypot: lambda it, a, k: ops.mhypot(it.ctx, a[0], a[1], True) if (type(a[0]) is Sym or type(a[1]) is Sym) else np.hypot(a[0], a[1]),
        np.fmod: _np_fmod,
        np.rad2deg: _elementwise(lambda it, x: Sym(real_term(x) * 180 / PI, np.float64), np.rad2deg),
        np.deg2rad: _elementwise(lambda it, x: Sym(real_term(x) * PI / 180, np.float64), np.deg2rad),
        np.format_float_positional: _np_format_float_positional,
        np.greater_equal: _np_cmp(ast.GtE),
        np.less_equal: _np_cmp(ast.LtE),
        np.greater: _np_cmp(ast.Gt),
        np.less: _np_cmp(ast.Lt),
        np.equal: _np_cmp(ast.Eq),
        np.float64: _np_float64,
        np.array2string: _np_array2string,
    }
    return M
