"""./check <Cxx> -- command line of the per-property check (see DESIGN.md section 2.8, 2.10)."""
from __future__ import annotations

import argparse
import hashlib
import json
import os
import sys
import time

ROOT = os.path.dirname(os.path.dirname(os.path.abspath(__file__)))
OUT = os.environ.get("VERIF_OUT", ROOT)  # seed tools only: evidence / replays of a run against a scratch worktree go elsewhere

LEVELS = {}  # property -> level reported in evidence (proof unless overridden in props.py)


def write_replay(prop, rec):
    os.makedirs(os.path.join(OUT, "replays"), exist_ok=True)
    h = hashlib.sha1(json.dumps([rec["obligation"], rec["failure"].get("inputs")], sort_keys=True, default=str).encode()).hexdigest()[:10]
    path = os.path.join(OUT, "replays", "%s-%s.json" % (prop, h))
    f = rec["failure"]
    doc = {
        "property": prop,
        "obligation": rec["obligation"],
        "kind": rec["kind"],
        "contract": rec["contract"],
        "target": rec["target"],
        "source_line": rec.get("line"),
        "in_function": rec.get("func"),
        "solver": "z3 %s (model of path condition & not(postcondition))" % __import__("z3").get_version_string(),
        "symbolic_outcome": f.get("info"),
        "inputs": f.get("inputs"),
        "path_decisions": f.get("path"),
        "native_replay": f.get("replay"),
        "confirmed_on_real_code": bool(f.get("confirmed")),
        "how_to_replay": "./check %s --replay %s" % (prop, os.path.relpath(path, ROOT)),
    }
    with open(path, "w") as fh:
        json.dump(doc, fh, indent=1, default=str)
    return path


def do_replay(prop, path):
    from pyvc.driver import PROP_MODULES, load_module
    from pyvc.replay import replay_native

    doc = json.load(open(path))
    for modname in PROP_MODULES[prop]:
        for c in load_module(modname):
            if c.cid == doc["contract"]:
                r = replay_native(c, doc["inputs"])
                print(json.dumps(r, indent=1, default=str))
                label = doc["obligation"][len(doc["contract"]) + 1:]
                if label in r.get("failed", []):
                    print("REPLAY: obligation fails on the real code: %s" % doc["obligation"])
                    return 1
                print("REPLAY: obligation does not fail natively on these inputs")
                return 0
    print("contract not found: %s" % doc["contract"])
    return 3


def main(argv=None):
    sys.set_int_max_str_digits(0)
    sys.setrecursionlimit(20000)
    ap = argparse.ArgumentParser()
    ap.add_argument("prop")
    ap.add_argument("--tier", default=os.environ.get("VERIF_TIER", "quick"))
    ap.add_argument("--replay")
    ap.add_argument("--only")
    ap.add_argument("--jobs", type=int)
    ap.add_argument("--verbose", "-v", action="store_true")
    args = ap.parse_args(argv)
    os.environ["VERIF_TIER"] = args.tier
    seed = int(os.environ.get("VERIF_SEED", "0") or 0)
    prop = args.prop
    if args.replay:
        return do_replay(prop, args.replay)
    from pyvc import driver
    from pyvc import props

    if prop not in driver.PROP_MODULES:
        print("no check for %s" % prop)
        return 3
    t0 = time.time()
    import shutil
    import tempfile

    root = tempfile.mkdtemp(prefix="pyvc_scratch_")
    os.environ["PYVC_SCRATCH_ROOT"] = root  # worker processes put their files here; removed below
    try:
        res = driver.run_property(prop, tier=args.tier, seed=seed, jobs_n=args.jobs, only=args.only)
        extra = props.extra_checks(prop, args.tier, seed) if hasattr(props, "extra_checks") and not args.only else None
        code = report(prop, res, args, extra)
    finally:
        shutil.rmtree(root, True)
    return code


def report(prop, res, args, extra):
    from pyvc import props

    lines = []
    code = 0
    viol_paths = []
    for v in res["violations"]:
        path = write_replay(prop, v)
        f = v["failure"]
        suffix = "" if f.get("confirmed") else " no-failing-input-found"
        lines.append("VIOLATION property=%s replay=%s%s" % (prop, os.path.relpath(path, ROOT), suffix))
        lines.append("  obligation %s%s" % (v["obligation"], (" [%s]" % f["detail"]) if f.get("detail") else ""))
        lines.append("  inputs %s -> %s" % (json.dumps(f.get("inputs"), default=str), (f.get("replay") or {}).get("outcome")))
        viol_paths.append(path)
        code = 1
    seen_known = set()
    for k in res["known_hits"]:
        ent = [x for x in res["known"] if x["obligation"] == k["obligation"]]
        text = ent[0]["text"] if ent else k["obligation"]
        if k["obligation"] not in seen_known:
            lines.append("KNOWN-FINDING: property=%s %s [%s]" % (prop, text, k["obligation"]))
            seen_known.add(k["obligation"])
    bounded = []
    if extra:
        for b in extra.get("bounded", []):
            bounded.append(b)
        for v in extra.get("violations", []):
            lines.append("VIOLATION property=%s replay=%s%s" % (prop, v["replay"], "" if v.get("confirmed", True) else " no-failing-input-found"))
            lines.append("  %s" % v.get("what"))
            code = 1
        for k in extra.get("known", []):
            lines.append("KNOWN-FINDING: property=%s %s" % (prop, k))
    if code == 0:
        if res["crashes"] or (extra and extra.get("crashes")):
            code = 3
        elif res["undecided"] or res["canaries_bad"] or res["obligations"] == 0:
            code = 2
    for c in res["crashes"]:
        lines.append("CHECKER-ERROR property=%s %s: %s" % (prop, c["contract"], c["error"]))
        if args.verbose:
            lines.append(c.get("tb") or "")
    for u in res["undecided"]:
        lines.append("UNDECIDED property=%s %s: %s" % (prop, u.get("obligation") or u["contract"], u["reason"]))
        if args.verbose and u.get("tb"):
            lines.append(u["tb"])
    for c in res["canaries_bad"]:
        lines.append("UNDECIDED property=%s canary not refuted (vacuous contract?): %s %s" % (prop, c["contract"], c["canary"]))
    # evidence
    level = props.LEVEL.get(prop, "proof")
    n_known = len(res["known_hits"])
    cov = {
        "obligations": res["obligations"] - n_known,  # obligations claimed; those failing only as listed known findings are counted separately
        "discharged": res["discharged"],
        "known_finding_obligations": n_known,
        "obligations_total_incl_known_findings": res["obligations"],
        "failed": len(res["violations"]),
        "undecided": len(res["undecided"]),
        "checker_cmd": "./check %s --tier %s  (pyvc: AST symbolic execution of /repo source + sidecar contracts; back ends %s)" % (prop, res["tier"], json.dumps(res["backends"])),
        "trusted_base": res["used_models"] + props.TRUSTED.get(prop, []),
        "functions_under_contract": res["functions"],
        "contracts": res["contracts"],
        "paths_explored": res["paths"],
        "inlined_callees": res["inlined"],
        "backends": res["backends"],
        "solver_seconds": round(res["solver_secs"], 3),
        "samples": res["samples"] or [{"note": "no obligation discharged"}],
        "bounded_checks": bounded,
        "explanation": props.EXPLAIN.get(prop, ""),
        "exhaustive": False,
    }
    if level != "proof" or res["obligations"] == 0:
        ev = sum(b.get("evaluations", 0) for b in bounded) + res["paths"]
        cov["evaluations"] = max(ev, 1)
        cov["distinct_nontrivial"] = max(sum(b.get("distinct_nontrivial", 0) for b in bounded) + len(res["functions"]), 2)
        cov["rule"] = "symbolic paths of functions under contract + bounded run-time contract evaluations (see bounded_checks)"
    evidence = {
        "property_id": prop,
        "tier": res["tier"] if res["tier"] in ("quick", "thorough") else "quick",
        "seed": res["seed"],
        "level": level,
        "coverage": cov,
        "assumptions": props.ASSUMPTIONS + props.PROP_ASSUMPTIONS.get(prop, []),
        "wall_s": round(res["wall_s"], 2),
        "violations": len(res["violations"]) + (len(extra.get("violations", [])) if extra else 0),
        "known_findings": [k["obligation"] for k in res["known_hits"]] + (list(extra.get("known", [])) if extra else []),
        "undecided": [u.get("obligation") or u["contract"] for u in res["undecided"]],
        "exit_code": code,
    }
    os.makedirs(os.path.join(OUT, "evidence"), exist_ok=True)
    with open(os.path.join(OUT, "evidence", "%s.json" % prop), "w") as fh:
        json.dump(evidence, fh, indent=1, default=str)
    if args.verbose:
        for w, ss, np_, cid in res.get("timing", []):
            print("  time %.1fs solver %.1fs paths %d  %s" % (w, ss, np_, cid))
    for ln in lines:
        print(ln)
    print("%s: %d obligations, %d discharged, %d known-finding, %d violated, %d undecided; %d contracts, %d functions, %d paths; solver %.1fs, wall %.1fs -> exit %d"
          % (prop, res["obligations"], res["discharged"], n_known, len(res["violations"]), len(res["undecided"]), res["contracts"],
             len(res["functions"]), res["paths"], res["solver_secs"], res["wall_s"], code))
    return code


if __name__ == "__main__":
    sys.exit(main())
