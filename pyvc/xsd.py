"""pyvc.xsd -- validation of abstract XML trees (pyvc.xmlmodel.XElem) against an XSD.

The schema file shipped with /repo is parsed on every run (with lxml, natively) into content models:
sequence / choice / all with minOccurs / maxOccurs, required attributes, simple types with enumerations and
numeric ranges.  Validation returns
   * structural problems (wrong order / occurrence / unknown element / missing attribute / text outside an
     enumeration / text whose LEXICAL CLASS is outside the lexical space of the XSD type), and
   * z3 side conditions for numeric ranges (e.g. positiveInteger: value >= 1) over symbolic numbers.
Lexical classes of numeric text (pyvc.xmlmodel.NumText):  'int' (digits) , 'plain' (plain decimal) ,
'pyrepr' (Python repr of a float: may be exponent notation, which xs:decimal does not admit)."""
from __future__ import annotations

import re

import z3
from lxml import etree

from .contract import R, T
from .xmlmodel import NumText, XElem

XS = "{http://www.w3.org/2001/XMLSchema}"
UNBOUNDED = 10 ** 9


class Schema:
    def __init__(self, path):
        self.path = path
        self.tree = etree.parse(path, etree.XMLParser(remove_comments=True))
        root = self.tree.getroot()
        self.types = {}
        for t in root:
            if t.tag in (XS + "complexType", XS + "simpleType") and t.get("name"):
                self.types[t.get("name")] = t
        self.elements = {e.get("name"): e for e in root if e.tag == XS + "element"}
        self.keys = []
        for e in root.iter(XS + "key", XS + "keyref", XS + "unique"):
            self.keys.append(e)

    # ---- particles ---------------------------------------------------------------------------
    def particle(self, node):
        """content model of a complexType / group node as nested tuples"""
        for c in node:
            if c.tag in (XS + "sequence", XS + "choice", XS + "all"):
                return self._model(c)
            if c.tag in (XS + "complexContent", XS + "simpleContent"):
                for ext in c:
                    return self.particle(ext)
        return ("sequence", 1, 1, [])

    def _occ(self, n):
        lo = int(n.get("minOccurs", "1"))
        hi = n.get("maxOccurs", "1")
        return lo, (UNBOUNDED if hi == "unbounded" else int(hi))

    def _model(self, n):
        lo, hi = self._occ(n)
        kind = n.tag[len(XS):]
        items = []
        for c in n:
            if c.tag == XS + "element":
                l2, h2 = self._occ(c)
                items.append(("element", l2, h2, c))
            elif c.tag in (XS + "sequence", XS + "choice", XS + "all"):
                items.append(self._model(c))
        return (kind, lo, hi, items)

    def type_of(self, edecl):
        t = edecl.get("type")
        if t:
            return t
        for c in edecl:
            if c.tag in (XS + "complexType", XS + "simpleType"):
                return c
        return "xs:anyType"


class Validator:
    def __init__(self, schema):
        self.s = schema
        self.problems = []  # structural problems (strings)
        self.conds = []  # (description, z3 condition) numeric range conditions
        self.lexical = []  # problems of lexical class (number notation)
        self.lexical_conds = []  # (description, z3 condition under which the text IS plain decimal)

    # ---------------------------------------------------------------------------------------------
    def validate_root(self, node):
        decl = self.s.elements.get(node.tag)
        if decl is None:
            self.problems.append("root element <%s> is not declared" % node.tag)
            return
        self.validate_element(node, decl, "/" + node.tag)
        self.check_keys(node)

    def validate_element(self, node, decl, path):
        t = self.s.type_of(decl)
        self.validate_type(node, t, path)

    def resolve(self, t):
        if isinstance(t, str):
            if t.startswith("xs:"):
                return t
            if t in self.s.types:
                return self.s.types[t]
            return "xs:anyType"
        return t

    def validate_type(self, node, t, path):
        t = self.resolve(t)
        if isinstance(t, str):
            if node.children:
                self.problems.append("%s: element of simple type %s has children" % (path, t))
            self.check_simple(node.text, t, path)
            return
        if t.tag == XS + "simpleType":
            if node.children:
                self.problems.append("%s: element of a simple type has children" % path)
            self.check_simple_decl(node.text, t, path)
            return
        # complexType
        self.check_attributes(node, t, path)
        simple = None
        for c in t:
            if c.tag == XS + "simpleContent":
                for ext in c:
                    simple = ext.get("base")
        if simple is not None:
            self.check_simple(node.text, simple, path)
            return
        model = self.s.particle(t)
        kids = list(node.children)
        ok, used, assign = self.match(model, kids, 0)
        if not ok or used != len(kids):
            self.problems.append("%s: children %s do not match the content model (order / occurrence); stopped at child %d" % (path, [k.tag for k in kids], used))
            return
        for kid, decl in assign:
            self.validate_element(kid, decl, path + "/" + kid.tag)
        if node.text is not None and isinstance(node.text, str) and node.text.strip() and t.get("mixed") != "true":
            self.problems.append("%s: text in an element-only content model" % path)
        if isinstance(node.text, NumText):
            self.problems.append("%s: numeric text in an element-only content model" % path)

    # -- content model matching (greedy with backtracking) --------------------------------------------
    def match(self, p, kids, i):
        kind = p[0]
        if kind == "element":
            _, lo, hi, decl = p
            name = decl.get("name") or (decl.get("ref") or "")
            n = 0
            assign = []
            while n < hi and i + n < len(kids) and kids[i + n].tag == name:
                target = decl if decl.get("name") else self.s.elements.get(name)
                assign.append((kids[i + n], target))
                n += 1
            if n < lo:
                return False, i, []
            return True, i + n, assign
        _, lo, hi, items = p
        assign = []
        count = 0
        while count < hi:
            ok, j, a = self.match_once(kind, items, kids, i)
            if not ok or j == i:
                if ok and j == i and count < lo:
                    count += 1  # an empty match satisfies an occurrence
                    continue
                break
            assign += a
            i = j
            count += 1
        if count < lo:
            ok, j, a = self.match_once(kind, items, kids, i)
            if not ok:
                return False, i, []
        return True, i, assign

    def match_once(self, kind, items, kids, i):
        if kind == "sequence":
            assign = []
            for it in items:
                ok, i, a = self.match(it, kids, i)
                if not ok:
                    return False, i, []
                assign += a
            return True, i, assign
        if kind == "choice":
            best = None
            for it in items:
                ok, j, a = self.match(it, kids, i)
                if ok and (best is None or j > best[0]):
                    best = (j, a)
            if best is None:
                return False, i, []
            return True, best[0], best[1]
        if kind == "all":
            remaining = list(items)
            assign = []
            progress = True
            while progress and i < len(kids):
                progress = False
                for it in list(remaining):
                    ok, j, a = self.match(it, kids, i)
                    if ok and j > i:
                        assign += a
                        i = j
                        remaining.remove(it)
                        progress = True
                        break
            for it in remaining:
                if it[1] > 0:  # minOccurs
                    return False, i, []
            return True, i, assign
        return False, i, []

    # -- attributes ---------------------------------------------------------------------------------
    def check_attributes(self, node, t, path):
        declared = {}

        def direct(n):
            for c in n:
                if c.tag == XS + "attribute":
                    declared[c.get("name")] = c
                elif c.tag in (XS + "complexContent", XS + "simpleContent", XS + "extension", XS + "restriction"):
                    direct(c)

        direct(t)
        for name, a in declared.items():
            if a.get("use") == "required" and name not in node.attrib:
                self.problems.append("%s: required attribute '%s' missing" % (path, name))
        for name, val in node.attrib.items():
            if name not in declared:
                self.problems.append("%s: attribute '%s' is not declared" % (path, name))
            else:
                at = declared[name].get("type")
                if at:
                    self.check_simple(val, at, path + "/@" + name)
                else:
                    for c in declared[name]:
                        if c.tag == XS + "simpleType":
                            self.check_simple_decl(val, c, path + "/@" + name)

    # -- simple types -------------------------------------------------------------------------------
    def check_simple(self, text, t, path):
        t = self.resolve(t)
        if not isinstance(t, str):
            return self.check_simple_decl(text, t, path)
        base = t[3:]
        if base in ("string", "anyType", "anySimpleType", "token", "normalizedString"):
            return
        if text is None:
            self.problems.append("%s: empty text for xs:%s" % (path, base))
            return
        if base in ("decimal", "integer", "positiveInteger", "nonNegativeInteger", "int", "long", "double", "float"):
            self.check_number(text, base, path)
            return
        if base == "boolean":
            if isinstance(text, NumText) or text not in ("true", "false", "1", "0"):
                self.problems.append("%s: %r is not an xs:boolean" % (path, text))
            return
        if base == "date":
            if isinstance(text, NumText) or not re.fullmatch(r"-?\d{4,}-\d\d-\d\d(Z|[+-]\d\d:\d\d)?", text):
                self.problems.append("%s: %r is not an xs:date" % (path, text))
            return
        if base == "time":
            if isinstance(text, NumText) or not re.fullmatch(r"\d\d:\d\d:\d\d(\.\d+)?(Z|[+-]\d\d:\d\d)?", text):
                self.problems.append("%s: %r is not an xs:time" % (path, text))
            return

    def check_number(self, text, base, path, facets=None):
        integer = base in ("integer", "positiveInteger", "nonNegativeInteger", "int", "long")
        exp_ok = base in ("double", "float")
        if isinstance(text, NumText):
            if integer and text.cls != "int":
                self.lexical.append("%s: text of a float (%s) where xs:%s is required" % (path, text.cls, base))
            elif not integer and not exp_ok and text.cls == "pyrepr":
                # Python's repr of a float switches to exponent notation below 1e-4 and from 1e16 on
                v0 = R(text.value)
                a = z3.If(v0 >= 0, v0, -v0)
                self.lexical_conds.append(("%s: written with str(): Python repr is in exponent notation (e.g. 1e-06) for |x| < 1e-4 or |x| >= 1e16, outside xs:%s" % (path, base),
                                           z3.Or(v0 == 0, z3.And(a >= z3.Q(1, 10000), a < z3.RealVal(10 ** 16)))))
            v = R(text.value)
        else:
            pat = r"[+-]?\d+" if integer else (r"[+-]?(\d+(\.\d*)?|\.\d+)([eE][+-]?\d+)?" if exp_ok else r"[+-]?(\d+(\.\d*)?|\.\d+)")
            if not re.fullmatch(pat, text.strip()):
                self.lexical.append("%s: %r is not in the lexical space of xs:%s" % (path, text, base))
                return
            v = z3.RealVal(text.strip()) if "e" not in text.lower() else z3.RealVal(repr(float(text)))
        if base == "positiveInteger":
            self.conds.append(("%s: xs:positiveInteger >= 1" % path, v >= 1))
        if base == "nonNegativeInteger":
            self.conds.append(("%s: xs:nonNegativeInteger >= 0" % path, v >= 0))
        for kind, lim in (facets or []):
            lim = z3.RealVal(lim)
            c = {"minInclusive": v >= lim, "minExclusive": v > lim, "maxInclusive": v <= lim, "maxExclusive": v < lim}[kind]
            self.conds.append(("%s: %s %s" % (path, kind, lim), c))

    def check_simple_decl(self, text, t, path):
        restr = t.find(XS + "restriction")
        if restr is None:
            union = t.find(XS + "union")
            return
        base = restr.get("base")
        enums = [e.get("value") for e in restr.findall(XS + "enumeration")]
        facets = [(f.tag[len(XS):], f.get("value")) for f in restr if f.tag[len(XS):] in ("minInclusive", "minExclusive", "maxInclusive", "maxExclusive")]
        if enums:
            if isinstance(text, NumText) or text not in enums:
                self.problems.append("%s: %r is not one of the schema's enumeration values" % (path, text))
            return
        b = self.resolve(base)
        if isinstance(b, str) and b[3:] in ("decimal", "integer", "positiveInteger", "nonNegativeInteger", "double", "float"):
            if text is None:
                self.problems.append("%s: empty text" % path)
                return
            self.check_number(text, b[3:], path, facets)
        elif not isinstance(b, str):
            self.check_simple_decl(text, b, path)

    # -- identity constraints -------------------------------------------------------------------------
    def check_keys(self, root):
        """xs:key 'id' over the selected elements' @id (uniqueness) and xs:keyref over @ref"""
        for k in self.s.keys:
            sel = k.find(XS + "selector").get("xpath")
            field = k.find(XS + "field").get("xpath")
            if not field.startswith("@"):
                continue
            attr = field[1:]
            nodes = []
            for part in sel.split("|"):
                part = part.strip()
                if part.startswith(".//"):
                    name = part[3:]
                    nodes += [n for n in iter_all(root) if n.tag == name or name == "*"]
                elif part.startswith("./"):
                    segs = part[2:].split("/")
                    cur = [root]
                    for sname in segs:
                        cur = [c for n in cur for c in n.children if c.tag == sname or sname == "*"]
                    nodes += cur
            uniq = []
            for n in nodes:
                if not any(n is m for m in uniq):
                    uniq.append(n)
            vals = [n.attrib[attr] for n in uniq if attr in n.attrib]
            if k.tag == XS + "key" or k.tag == XS + "unique":
                self._key_vals = vals
                for i in range(len(vals)):
                    for j in range(i + 1, len(vals)):
                        self.conds.append(("key '%s': ids pairwise distinct" % k.get("name"), text_value(vals[i]) != text_value(vals[j])))
            else:
                keyvals = getattr(self, "_key_vals", [])
                for v in vals:
                    self.conds.append(("keyref '%s': every reference names an existing id" % k.get("name"),
                                       z3.Or(*[text_value(v) == text_value(kv) for kv in keyvals]) if keyvals else z3.BoolVal(False)))


def iter_all(n):
    yield n
    for c in n.children:
        yield from iter_all(c)


def text_value(t):
    if isinstance(t, NumText):
        return R(t.value)
    try:
        return z3.RealVal(int(t))
    except (TypeError, ValueError):
        return z3.RealVal(hash(t) % (10 ** 9))
