"""pyvc.objects -- instances of repository classes and the numpy array model."""
from __future__ import annotations

import numpy as np

from .core import Sym, SymLeak, Unsupported


class SObj:
    """An instance of a (real) Python class whose attribute values may be symbolic.
    `cls` is the real class object imported from /repo; method bodies are interpreted from source."""

    __slots__ = ("cls", "attrs", "tag", "__weakref__")

    def __init__(self, cls, tag=None):
        object.__setattr__(self, "cls", cls)
        object.__setattr__(self, "attrs", {})
        object.__setattr__(self, "tag", tag)

    def __repr__(self):
        return "<SObj %s %s>" % (self.cls.__name__, {k: v for k, v in list(self.attrs.items())[:6]})

    # native code must never silently use identity where the class defines its own equality
    def __eq__(self, other):
        if self is other:
            return True
        if getattr(self.cls, "__eq__", object.__eq__) is not object.__eq__:
            raise SymLeak("native == on %s instance (class defines __eq__)" % self.cls.__name__)
        return False

    def __ne__(self, other):
        return not self.__eq__(other)

    def __hash__(self):
        if getattr(self.cls, "__hash__", None) is not object.__hash__:
            raise SymLeak("native hash() of %s instance (class defines __hash__/__eq__)" % self.cls.__name__)
        return id(self)

    def __bool__(self):
        if hasattr(self.cls, "__bool__") or hasattr(self.cls, "__len__"):
            raise SymLeak("native truth value of %s instance" % self.cls.__name__)
        return True


class SymStr:
    """A string that depends on symbolic values; only allowed to flow into messages."""

    def __init__(self, parts):
        self.parts = parts

    def __str__(self):
        return "".join(str(p) for p in self.parts)


class NumStr:
    """str(x) / repr(x) of a symbolic number: an injective function of (type, value)  [trusted: distinct floats print
    differently (shortest round-trip repr); ints print exactly]"""

    def __init__(self, sym):
        self.sym = sym

    def __str__(self):
        return "<numstr>"


# ------------------------------------------------------------------------------ ndarray


def _shape_of(data):
    if isinstance(data, list):
        if not data:
            return (0,)
        return (len(data),) + _shape_of(data[0])
    return ()


class NDArr:
    """numpy.ndarray with concrete shape and (possibly) symbolic elements.
    Only what the code under contract uses; everything else raises Unsupported."""

    __slots__ = ("data", "shape", "dtype", "parent")

    def __init__(self, data, shape=None, dtype="f", parent=None):
        self.data = data
        self.shape = tuple(shape) if shape is not None else _shape_of(data)
        self.dtype = dtype
        # numpy views (basic indexing, iteration over rows, reshape / ravel / transpose, asarray of an array): `data` is a
        # private copy of the elements, `parent` = (base array, nested list of index tuples into base.data, same nesting as
        # data).  Element writes go through `poke`, which also writes the base (and its base, ...): a write through a
        # view is seen by the array it was taken from.  (The other direction -- a later write to the base seen through an
        # existing view -- is not modelled; a view is stale after its base is written.)
        self.parent = parent

    def index_paths(self):
        """nested list, shaped like data, of each element's own index tuple"""
        def rec(shape, prefix):
            if not shape:
                return prefix
            return [rec(shape[1:], prefix + (i,)) for i in range(shape[0])]

        return rec(self.shape, ())

    def view_from(self, base, paths):
        """mark self (freshly built from elements of `base`) as a view; `paths` are index tuples into base.data"""
        if isinstance(paths, NDArr):
            paths = paths.data
        self.parent = (base, paths)
        return self

    def poke(self, path, value):
        d = self.data
        for i in path[:-1]:
            d = d[i]
        d[path[-1]] = value
        if self.parent is not None:
            base, paths = self.parent
            q = paths
            for i in path:
                q = q[i]
            base.poke(q, value)

    def __repr__(self):
        return "NDArr(%s, shape=%s, dtype=%s)" % (self.data, self.shape, self.dtype)

    @property
    def ndim(self):
        return len(self.shape)

    def __len__(self):
        if not self.shape:
            raise TypeError("len() of unsized object")
        return self.shape[0]

    def __bool__(self):
        raise SymLeak("native truth value of ndarray model")

    def __eq__(self, other):
        raise SymLeak("native == on ndarray model")

    def __hash__(self):
        raise SymLeak("hash of ndarray")

    def flat(self):
        out = []

        def rec(d, k):
            if k == 0:
                out.append(d)
            else:
                for x in d:
                    rec(x, k - 1)

        rec(self.data, len(self.shape))
        return out

    def copy(self):
        def rec(d, k):
            if k == 0:
                return d
            return [rec(x, k - 1) for x in d]

        return NDArr(rec(self.data, len(self.shape)), self.shape, self.dtype)

    def map(self, f, dtype=None):
        def rec(d, k):
            if k == 0:
                return f(d)
            return [rec(x, k - 1) for x in d]

        return NDArr(rec(self.data, len(self.shape)), self.shape, dtype or self.dtype)

    @staticmethod
    def zip_map(a, b, f, dtype):
        def rec(x, y, k):
            if k == 0:
                return f(x, y)
            return [rec(p, q, k - 1) for p, q in zip(x, y)]

        assert a.shape == b.shape
        return NDArr(rec(a.data, b.data, len(a.shape)), a.shape, dtype)

    def rows(self):
        if not self.shape:
            raise TypeError("iteration over a 0-d array")
        if len(self.shape) == 1:
            return list(self.data)
        return [self.getitem(i) for i in range(self.shape[0])]  # each row is a view

    def transpose(self):
        if len(self.shape) == 1:
            return NDArr(list(self.data), self.shape, self.dtype).view_from(self, self.index_paths())
        if len(self.shape) != 2:
            raise Unsupported("transpose of %d-d array" % len(self.shape))
        n, m = self.shape
        return NDArr([[self.data[i][j] for i in range(n)] for j in range(m)], (m, n), self.dtype).view_from(
            self, [[(i, j) for i in range(n)] for j in range(m)])

    def getitem(self, idx):
        """concrete indices / slices only (basic indexing: an array result is a view)"""
        if not isinstance(idx, tuple):
            idx = (idx,)
        if len(idx) > len(self.shape):
            raise IndexError("too many indices for array")
        r = _index(self.data, self.shape, list(idx), self.dtype)
        if isinstance(r, NDArr) and r.shape and all(r.shape):
            r.view_from(self, _index(self.index_paths(), self.shape, list(idx), "O"))
        return r

    def setitem(self, idx, value):
        if not isinstance(idx, tuple):
            idx = (idx,)
        if any(isinstance(i, slice) for i in idx):
            raise Unsupported("slice assignment on ndarray")
        if len(idx) != len(self.shape):
            if len(idx) == 1 and len(self.shape) == 2 and isinstance(value, NDArr):
                self.data[_norm(idx[0], self.shape[0])] = list(value.data)
                return
            raise Unsupported("partial index assignment on ndarray")
        self.poke(tuple(_norm(i, self.shape[k]) for k, i in enumerate(idx)), value)


def _norm(i, n):
    if isinstance(i, (bool,)) or not isinstance(i, (int, np.integer)):
        raise Unsupported("non-integer (or symbolic) array index %r" % (i,))
    i = int(i)
    if i < -n or i >= n:
        raise IndexError("index %d is out of bounds for axis with size %d" % (i, n))
    return i % n if n else i


def _index(data, shape, idx, dtype):
    if not idx:
        if not shape:
            return data
        return NDArr(_deep(data, len(shape)), shape, dtype)
    i = idx[0]
    if not shape:
        raise IndexError("too many indices for array")
    if isinstance(i, slice):
        sel = list(range(*i.indices(shape[0])))
        subs = [_index(data[k], shape[1:], idx[1:], dtype) for k in sel]
        if not subs:
            # shape of the rest unknown without an element; compute from a virtual element
            rest = _rest_shape(shape[1:], idx[1:])
            return NDArr([], (0,) + rest, dtype)
        if isinstance(subs[0], NDArr):
            return NDArr([s.data for s in subs], (len(subs),) + subs[0].shape, dtype)
        return NDArr(subs, (len(subs),), dtype)
    if i is None or i is Ellipsis:
        raise Unsupported("newaxis/ellipsis index")
    return _index(data[_norm(i, shape[0])], shape[1:], idx[1:], dtype)


def _rest_shape(shape, idx):
    out = []
    k = 0
    for i in idx:
        if isinstance(i, slice):
            out.append(len(range(*i.indices(shape[k]))))
        k += 1
    out.extend(shape[k:])
    return tuple(out)


def _deep(d, k):
    if k == 0:
        return d
    return [_deep(x, k - 1) for x in d]
