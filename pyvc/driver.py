"""pyvc.driver -- per-property check: run all contracts, decide, write evidence, print verdict lines.

exit 0: every obligation discharged (or known finding);  exit 1: a violation (VIOLATION line);
exit 2: undecided (unknown / unsupported / broken auxiliary proof);  exit 3: checker failure.
"""
from __future__ import annotations

import argparse
import importlib
import json
import multiprocessing as mp
import os
import sys
import time
import traceback

ROOT = os.path.dirname(os.path.dirname(os.path.abspath(__file__)))

PROP_MODULES = {
    "C16": ["contracts.c16"],
    "C17": ["contracts.c17"],
    "C05": ["contracts.c05", "contracts.c05b"],
    "C08": ["contracts.c08"],
    "C04": ["contracts.c04"],
    "C11": ["contracts.c11"],
    "C12": ["contracts.c12"],
    "C09": ["contracts.c09"],
    "C10": ["contracts.c10"],
    "C07": ["contracts.c07"],
    "C20": ["contracts.c20"],
    "C06": ["contracts.c06"],
    "C01": ["contracts.c01", "contracts.c01_enums", "contracts.c02", "contracts.c01_f2s"],
    "C15": ["contracts.c15"],
    "C14": ["contracts.c14"],
    "C03": ["contracts.c03", "contracts.c01_f2s"],
    "C18": ["contracts.c18"],
    "C13": ["contracts.c13"],
    "C02": ["contracts.c02", "contracts.c01_enums"],
    "C19": ["contracts.c19"],
}


def load_known_findings():
    """KNOWN_FINDINGS.txt:  finding: property=<id> obligation=<cid>/<label> region=<expr> :: text
                            fixed: property=<id> <commit> <what failed>"""
    out = []
    path = os.path.join(ROOT, "KNOWN_FINDINGS.txt")
    if not os.path.exists(path):
        return out
    for line in open(path):
        line = line.strip()
        if not line.startswith("finding:"):
            continue
        head, _, text = line[len("finding:"):].partition("::")
        rec = {"text": text.strip()}
        # fields are separated by ' ; '
        for part in head.split(" ; "):
            k, _, v = part.strip().partition("=")
            rec[k.strip()] = v.strip()
        out.append(rec)
    return out


def _worker(args):
    modname, idx, tier, seed, regions = args
    try:
        sys.setrecursionlimit(20000)
        sys.set_int_max_str_digits(0)
        from pyvc import contract as C
        from pyvc.runner import verify_contract

        c = load_module(modname)[idx]
        return verify_contract(c, tier=tier, seed=seed, known_regions=regions)
    except Exception as e:
        return {"contract": "%s#%d" % (modname, idx), "error": "%s: %s" % (type(e).__name__, e), "error_tb": traceback.format_exc()[-3000:],
                "obligations": {}, "paths": 0, "unsupported": None}


def load_module(modname):
    from pyvc import contract as C

    mod = sys.modules.get(modname)
    if mod is not None and hasattr(mod, "_pyvc_contracts"):
        return mod._pyvc_contracts
    C.REGISTRY.clear()
    mod = importlib.import_module(modname)
    mod._pyvc_contracts = [c for c in C.REGISTRY if type(c).__module__ == modname]
    return mod._pyvc_contracts


def list_contracts(prop):
    jobs = []
    for modname in PROP_MODULES[prop]:
        for i, c in enumerate(load_module(modname)):
            if c.prop == prop:
                jobs.append((modname, i, c.cid, c.target, c.describe))
    return jobs


def run_property(prop, tier="quick", seed=0, jobs_n=None, only=None):
    t0 = time.time()
    import commonroad

    repo = os.path.realpath(os.environ.get("VERIF_REPO", "/repo")) + "/"  # VERIF_REPO: seed tools only (a scratch worktree with a seeded change)
    assert os.path.realpath(commonroad.__file__).startswith(repo), "commonroad is not imported from %s" % repo
    known = [k for k in load_known_findings() if k.get("property") == prop]
    regions = {k["obligation"]: k.get("region", "True") for k in known}
    jobs = list_contracts(prop)
    if only:
        jobs = [j for j in jobs if only in j[2]]
    work = [(m, i, tier, seed, regions) for (m, i, cid, tgt, d) in jobs]
    n = jobs_n or min(int(os.environ.get('VERIF_JOBS', '8')), max(1, len(work)))  # 8 workers: 16 made z3 runs unstable (cache/memory contention)
    if n > 1 and len(work) > 1:
        with mp.get_context("fork").Pool(n) as pool:
            results = pool.map(_worker, work, chunksize=1)
    else:
        results = [_worker(w) for w in work]
    return decide(prop, tier, seed, results, known, time.time() - t0)


def decide(prop, tier, seed, results, known, wall):
    obligations = 0
    discharged = 0
    violations = []
    known_hits = []
    undecided = []
    crashes = []
    functions = {}
    backends = {}
    solver_secs = 0.0
    used_models = set()
    inlined = set()
    samples = []
    paths = 0
    canaries_bad = []
    for r in results:
        if r.get("error"):
            crashes.append({"contract": r["contract"], "error": r["error"], "tb": r.get("error_tb")})
            continue
        solver_secs += r.get("solver_secs", 0.0)
        used_models |= set(r.get("used_models", []))
        inlined |= set(r.get("inlined", []))
        paths += r.get("paths", 0)
        fn = functions.setdefault(r["target"], {"contracts": 0, "obligations": 0, "discharged": 0, "paths": 0, "source": r.get("source")})
        fn["contracts"] += 1
        fn["paths"] += r.get("paths", 0)
        if r.get("unsupported"):
            undecided.append({"contract": r["contract"], "reason": "unsupported: " + r["unsupported"], "tb": r.get("unsupported_tb")})
        for label, ok in (r.get("canaries") or {}).items():
            if not ok:
                canaries_bad.append({"contract": r["contract"], "canary": label})
        aux_failed = [a for a in r["obligations"].values() if a["kind"] in ("inv-init", "inv-pres", "variant", "model-range", "unwind", "lemma") and a["status"] != "discharged"]
        for key, a in r["obligations"].items():
            obligations += 1
            fn["obligations"] += 1
            oid = "%s/%s" % (r["contract"], a["label"])
            for b in a.get("backends", []):
                backends[b] = backends.get(b, 0) + 1
            if a["status"] == "discharged":
                discharged += 1
                fn["discharged"] += 1
                if len(samples) < 6:
                    samples.append({"obligation": oid, "kind": a["kind"], "paths": a["paths"], "status": "discharged", "backends": a.get("backends")})
                continue
            if a["status"] == "failed":
                f = a.get("failure") or {}
                if a["kind"] in ("inv-init", "inv-pres", "variant", "model-range", "unwind", "lemma"):
                    undecided.append({"contract": r["contract"], "obligation": oid, "reason": "auxiliary obligation (%s) not discharged: the supplied proof does not fit the current source" % a["kind"], "inputs": f.get("inputs")})
                    continue
                if aux_failed and not f.get("confirmed"):
                    undecided.append({"contract": r["contract"], "obligation": oid, "reason": "fails, but an auxiliary obligation of the same function is open"})
                    continue
                rec = {"obligation": oid, "kind": a["kind"], "label": a["label"], "contract": r["contract"], "target": r["target"],
                       "line": a.get("line"), "func": a.get("func"), "failure": f}
                if f.get("known") == "inside":
                    known_hits.append(rec)
                else:
                    violations.append(rec)
            else:
                undecided.append({"contract": r["contract"], "obligation": oid, "reason": "solver: %s" % (a.get("detail") or "unknown")})
    timing = sorted(((r.get("wall_s", 0.0), r.get("solver_secs", 0.0), r.get("paths", 0), r["contract"]) for r in results if not r.get("error")), reverse=True)[:12]
    return {
        "timing": timing,
        "prop": prop, "tier": tier, "seed": seed, "obligations": obligations, "discharged": discharged, "violations": violations,
        "known_hits": known_hits, "undecided": undecided, "crashes": crashes, "functions": functions, "backends": backends,
        "solver_secs": solver_secs, "used_models": sorted(used_models), "inlined": sorted(inlined), "samples": samples, "paths": paths,
        "canaries_bad": canaries_bad, "wall_s": wall, "contracts": len(results), "known": known,
    }
