"""pyvc.replay -- numeric evaluation of ground z3 formulas and native replay of counter-models."""
from __future__ import annotations

import math
import traceback
from fractions import Fraction

import numpy as np
import z3

TOL = 1e-9


def _num(t, env):
    """float value of a ground numeric term"""
    if z3.is_int_value(t):
        return t.as_long()
    if z3.is_rational_value(t):
        return t.numerator_as_long() / t.denominator_as_long()
    if z3.is_algebraic_value(t):
        a = t.approx(20)
        return a.numerator_as_long() / a.denominator_as_long()
    if z3.is_const(t) and t.decl().kind() == z3.Z3_OP_UNINTERPRETED:
        name = t.decl().name()
        if name == "PI":
            return math.pi
        if name in env:
            return env[name]
        raise KeyError("free symbol %s in ground evaluation" % name)
    k = t.decl().kind()
    ch = t.children()
    if k == z3.Z3_OP_ADD:
        return sum(_num(c, env) for c in ch)
    if k == z3.Z3_OP_SUB:
        r = _num(ch[0], env)
        for c in ch[1:]:
            r -= _num(c, env)
        return r
    if k == z3.Z3_OP_UMINUS:
        return -_num(ch[0], env)
    if k == z3.Z3_OP_MUL:
        r = 1
        for c in ch:
            r *= _num(c, env)
        return r
    if k in (z3.Z3_OP_DIV,):
        d = _num(ch[1], env)
        if d == 0:
            return float("nan")
        return _num(ch[0], env) / d
    if k == z3.Z3_OP_IDIV:
        a, b = _num(ch[0], env), _num(ch[1], env)
        if b == 0:
            return 0
        q = a // b if b > 0 else -(a // -b)
        return q
    if k == z3.Z3_OP_MOD:
        a, b = _num(ch[0], env), _num(ch[1], env)
        if b == 0:
            return 0
        return a % abs(b)
    if k == z3.Z3_OP_TO_REAL:
        return _num(ch[0], env)
    if k == z3.Z3_OP_TO_INT:
        return math.floor(_num(ch[0], env))
    if k == z3.Z3_OP_ITE:
        c = _bool(ch[0], env)
        if c is None:
            a, b = _num(ch[1], env), _num(ch[2], env)
            return a if abs(a - b) <= TOL * (1 + abs(a)) else a
        return _num(ch[1], env) if c else _num(ch[2], env)
    if k == z3.Z3_OP_POWER:
        return _num(ch[0], env) ** _num(ch[1], env)
    if k == z3.Z3_OP_UNINTERPRETED:
        name = t.decl().name()
        args = [_num(c, env) for c in ch]
        if name == "sin":
            return math.sin(args[0])
        if name == "cos":
            return math.cos(args[0])
        if name == "sqrt":
            return math.sqrt(args[0]) if args[0] >= 0 else float("nan")
        if name == "atan2":
            return math.atan2(args[0], args[1])
        if name == "atan":
            return math.atan(args[0])
        if name == "round_nd":
            return round(args[0], int(args[1]))
        if name == "round_int":
            return round(args[0])
        if name == "hash_num":
            return hash(args[0])
        if name == "hash_pair":
            return hash((args[0], args[1]))
        if name == "hash_fs_member":
            return hash(("fs", args[0]))
        raise KeyError("uninterpreted function %s in ground evaluation" % name)
    raise KeyError("operator %s in ground evaluation" % t.decl().name())


def _bool(t, env):
    """Kleene truth value: True / False / None (borderline within tolerance)"""
    if isinstance(t, (bool, np.bool_)):
        return bool(t)
    if z3.is_true(t):
        return True
    if z3.is_false(t):
        return False
    k = t.decl().kind()
    ch = t.children()
    if k == z3.Z3_OP_AND:
        vals = [_bool(c, env) for c in ch]
        if any(v is False for v in vals):
            return False
        if any(v is None for v in vals):
            return None
        return True
    if k == z3.Z3_OP_OR:
        vals = [_bool(c, env) for c in ch]
        if any(v is True for v in vals):
            return True
        if any(v is None for v in vals):
            return None
        return False
    if k == z3.Z3_OP_NOT:
        v = _bool(ch[0], env)
        return None if v is None else (not v)
    if k == z3.Z3_OP_IMPLIES:
        a, b = _bool(ch[0], env), _bool(ch[1], env)
        if a is False or b is True:
            return True
        if a is True and b is False:
            return False
        return None
    if k == z3.Z3_OP_XOR:
        a, b = _bool(ch[0], env), _bool(ch[1], env)
        if a is None or b is None:
            return None
        return a != b
    if k == z3.Z3_OP_ITE:
        c = _bool(ch[0], env)
        if c is None:
            a, b = _bool(ch[1], env), _bool(ch[2], env)
            return a if a == b else None
        return _bool(ch[1], env) if c else _bool(ch[2], env)
    if k in (z3.Z3_OP_EQ, z3.Z3_OP_IFF) or k == z3.Z3_OP_DISTINCT:
        if z3.is_bool(ch[0]):
            a, b = _bool(ch[0], env), _bool(ch[1], env)
            if a is None or b is None:
                return None
            return (a == b) if k != z3.Z3_OP_DISTINCT else (a != b)
        a, b = _num(ch[0], env), _num(ch[1], env)
        if isinstance(a, int) and isinstance(b, int):
            return (a == b) if k != z3.Z3_OP_DISTINCT else (a != b)
        if a != a or b != b:
            return None
        if a == b:
            return k != z3.Z3_OP_DISTINCT
        if abs(a - b) <= TOL * (1 + max(abs(a), abs(b))):
            return None
        return k == z3.Z3_OP_DISTINCT
    if k in (z3.Z3_OP_LE, z3.Z3_OP_LT, z3.Z3_OP_GE, z3.Z3_OP_GT):
        a, b = _num(ch[0], env), _num(ch[1], env)
        if a != a or b != b:
            return None
        if not (isinstance(a, int) and isinstance(b, int)) and a != b and abs(a - b) <= TOL * (1 + max(abs(a), abs(b))):
            return None
        return {z3.Z3_OP_LE: a <= b, z3.Z3_OP_LT: a < b, z3.Z3_OP_GE: a >= b, z3.Z3_OP_GT: a > b}[k]
    if z3.is_const(t) and k == z3.Z3_OP_UNINTERPRETED:
        name = t.decl().name()
        if name in env:
            return bool(env[name])
        raise KeyError("free bool %s" % name)
    if z3.is_quantifier(t):
        return None
    raise KeyError("bool operator %s in ground evaluation" % t.decl().name())


def eval_ground(cond, env=None):
    from .core import Sym

    if isinstance(cond, (bool, np.bool_)):
        return bool(cond)
    if type(cond) is Sym:
        cond = cond.t
    try:
        return _bool(cond, env or {})
    except (KeyError, OverflowError, ValueError, ZeroDivisionError):
        return None


def model_values(model, inputs):
    """inputs: name -> (z3 const, pytype); returns name -> python number"""
    from .core import model_value

    vals = {}
    for name, (c, ty) in inputs.items():
        v = model_value(model, c)
        if v is None:
            v = 0
        if ty is bool:
            vals[name] = bool(v)
        elif isinstance(v, Fraction):
            try:
                vals[name] = float(v) if v.denominator != 1 else (int(v) if not (ty is float or ty is np.float64) else float(v))
            except OverflowError:
                vals[name] = 1e300 if v > 0 else -1e300
        else:
            vals[name] = v
    return vals


def replay_native(contract, values):
    """Run the real function on the counter-model's inputs; evaluate the postconditions natively.
    returns dict(feasible, outcome, failed=[labels], borderline=[labels], passed=[labels], error)"""
    from .contract import NativeFactory, Outcome

    F = NativeFactory(values)
    res = {"feasible": True, "outcome": None, "failed": [], "borderline": [], "passed": [], "error": None, "inputs": values}
    try:
        import warnings

        with warnings.catch_warnings():
            warnings.simplefilter("ignore")
            inp = contract.build(F)
            if F.infeasible:
                res["feasible"] = False
                return res
            try:
                out = Outcome(contract.invoke(F, inp))
            except Exception as e:  # the real code raised
                out = Outcome(exc=e)
                res["traceback"] = "".join(traceback.format_exception_only(type(e), e)).strip()[-400:]
            res["outcome"] = out.describe()
            for item in contract.post(F, inp, out):
                label, cond = item[0], item[1]
                v = eval_ground(cond)
                (res["failed"] if v is False else res["borderline"] if v is None else res["passed"]).append(label)
    except Exception as e:
        res["error"] = "replay harness error: %s: %s" % (type(e).__name__, e)
        res["harness_traceback"] = traceback.format_exc()[-800:]
    return res
