"""pyvc.poly -- canonical form of polynomial real terms, with sin^2 -> 1 - cos^2 reduction.

Used to make semantically equal branch conditions syntactically equal (so that a decision already on the
path condition decides them at once).  Purely an optimisation: canon(t) == t is a polynomial identity
modulo sin^2 + cos^2 = 1, which is among the trig axioms."""
from __future__ import annotations

from fractions import Fraction

import z3


class NotPoly(Exception):
    pass


def _atom_key(e):
    return e.get_id()


def to_poly(e, atoms):
    """dict: monomial (tuple of (atom_id, power) sorted) -> Fraction coefficient"""
    if z3.is_int_value(e):
        return {(): Fraction(e.as_long())}
    if z3.is_rational_value(e):
        return {(): Fraction(e.numerator_as_long(), e.denominator_as_long())}
    if not z3.is_app(e):
        raise NotPoly()
    k = e.decl().kind()
    ch = e.children()
    if k == z3.Z3_OP_ADD:
        acc = {}
        for c in ch:
            for m, v in to_poly(c, atoms).items():
                acc[m] = acc.get(m, 0) + v
        return {m: v for m, v in acc.items() if v != 0}
    if k == z3.Z3_OP_SUB:
        acc = dict(to_poly(ch[0], atoms))
        for c in ch[1:]:
            for m, v in to_poly(c, atoms).items():
                acc[m] = acc.get(m, 0) - v
        return {m: v for m, v in acc.items() if v != 0}
    if k == z3.Z3_OP_UMINUS:
        return {m: -v for m, v in to_poly(ch[0], atoms).items()}
    if k == z3.Z3_OP_MUL:
        acc = {(): Fraction(1)}
        for c in ch:
            acc = _mul(acc, to_poly(c, atoms))
        return acc
    if k == z3.Z3_OP_DIV:
        d = to_poly(ch[1], atoms)
        if list(d.keys()) == [()] and d[()] != 0:
            return {m: v / d[()] for m, v in to_poly(ch[0], atoms).items()}
        raise NotPoly()
    if k == z3.Z3_OP_TO_REAL:
        return to_poly(ch[0], atoms)
    if k == z3.Z3_OP_POWER:
        n = ch[1]
        if z3.is_int_value(n) or (z3.is_rational_value(n) and n.denominator_as_long() == 1):
            p = n.as_long() if z3.is_int_value(n) else n.numerator_as_long()
            if 0 <= p <= 6:
                acc = {(): Fraction(1)}
                base = to_poly(ch[0], atoms)
                for _ in range(p):
                    acc = _mul(acc, base)
                return acc
        raise NotPoly()
    if k == z3.Z3_OP_UNINTERPRETED or k == z3.Z3_OP_ITE:
        if e.sort() not in (z3.RealSort(), z3.IntSort()):
            raise NotPoly()
        atoms[_atom_key(e)] = e
        return {((_atom_key(e), 1),): Fraction(1)}
    raise NotPoly()


def _mul(a, b):
    out = {}
    for m1, v1 in a.items():
        for m2, v2 in b.items():
            d = dict(m1)
            for x, p in m2:
                d[x] = d.get(x, 0) + p
            m = tuple(sorted(d.items()))
            out[m] = out.get(m, 0) + v1 * v2
    return {m: v for m, v in out.items() if v != 0}


def reduce_trig(p, atoms):
    """replace sin(a)^2 by 1 - cos(a)^2 until no square of a sine is left"""
    sin_of = {}
    for aid, e in list(atoms.items()):
        if z3.is_app(e) and e.decl().name() == "sin" and e.num_args() == 1:
            c = z3.Function("cos", z3.RealSort(), z3.RealSort())(e.arg(0))
            atoms[_atom_key(c)] = c
            sin_of[aid] = _atom_key(c)
    changed = True
    while changed:
        changed = False
        out = {}
        for m, v in p.items():
            hit = None
            for x, pw in m:
                if x in sin_of and pw >= 2:
                    hit = (x, pw)
                    break
            if hit is None:
                out[m] = out.get(m, 0) + v
                continue
            changed = True
            x, pw = hit
            rest = dict(m)
            rest[x] = pw - 2
            if rest[x] == 0:
                del rest[x]
            m1 = tuple(sorted(rest.items()))  # * 1
            r2 = dict(rest)
            r2[sin_of[x]] = r2.get(sin_of[x], 0) + 2
            m2 = tuple(sorted(r2.items()))  # * (-cos^2)
            out[m1] = out.get(m1, 0) + v
            out[m2] = out.get(m2, 0) - v
        p = {m: v for m, v in out.items() if v != 0}
    return p


def from_poly(p, atoms):
    terms = []
    for m in sorted(p.keys()):
        v = p[m]
        t = None
        for x, pw in m:
            for _ in range(pw):
                a = atoms[x]
                if a.sort() == z3.IntSort():
                    a = z3.ToReal(a)
                t = a if t is None else t * a
        coeff = z3.Q(v.numerator, v.denominator) if v.denominator != 1 else z3.RealVal(v.numerator)
        if t is None:
            terms.append(coeff)
        elif v == 1:
            terms.append(t)
        else:
            terms.append(coeff * t)
    if not terms:
        return z3.RealVal(0)
    r = terms[0]
    for t in terms[1:]:
        r = r + t
    return r


def canon(e):
    """canonical polynomial form of a real term (or the term itself if it is not polynomial)"""
    try:
        atoms = {}
        p = to_poly(e, atoms)
        p = reduce_trig(p, atoms)
        return from_poly(p, atoms)
    except NotPoly:
        return e
