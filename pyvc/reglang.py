"""pyvc.reglang -- exact decisions about regular languages with group markers (back end for C13).

Question decided: for EVERY string w of a printed language (given as a sequence of literal pieces and atoms with
regular classes, each atom labelled with the capture group it is meant to end up in), does the real pattern
(Python `re`, parsed with the standard library's own parser) accept w, and do ALL accepting parses of w put the
group boundaries exactly around the intended atoms?  If yes, Python's backtracking matcher can only return those
groups, for strings of any length.

Method: both sides become NFAs over an alphabet of character classes (the coarsest partition that separates all
character sets occurring on either side) extended with marker symbols <g and g> for the named groups.  The
pattern NFA emits markers where a run opens / closes a group.  The printed NFA emits markers around the intended
atoms.  Then
   inclusion:    erase(Print) is a subset of erase(Pattern)          (every printed string is matched)
   unambiguity:  Pattern restricted to strings of erase(Print), minus Print, is empty
                 (no accepting run of the pattern on a printed string marks groups differently)
Both are emptiness checks on product automata after determinisation.  No bound on string length.
Restrictions: patterns without back references, look-around or lazy/possessive distinctions (irrelevant for the set
of parses); a group matched inside a repetition is compared by the LAST iteration, as Python reports it."""
from __future__ import annotations

import re
import re._parser as sre_parse
import re._constants as sre_c
import string

ALPHABET = [chr(i) for i in range(32, 127)]


class NFA:
    def __init__(self):
        self.n = 0
        self.eps = {}  # state -> set(state)
        self.trans = {}  # state -> list of (symbol, state) ; symbol: frozenset of chars | ('<', g) | ('>', g)
        self.start = self.new()
        self.final = set()

    def new(self):
        self.n += 1
        s = self.n - 1
        self.eps[s] = set()
        self.trans[s] = []
        return s

    def add(self, a, sym, b):
        self.trans[a].append((sym, b))

    def add_eps(self, a, b):
        self.eps[a].add(b)


def _charset(items):
    """set of printable characters matched by an `in` node's items"""
    chars = set()
    negate = False
    for op, av in items:
        if op is sre_c.NEGATE:
            negate = True
        elif op is sre_c.LITERAL:
            chars.add(chr(av))
        elif op is sre_c.RANGE:
            chars |= {chr(c) for c in range(av[0], av[1] + 1)}
        elif op is sre_c.CATEGORY:
            if av is sre_c.CATEGORY_DIGIT:
                chars |= set(string.digits)
            elif av is sre_c.CATEGORY_WORD:
                chars |= set(string.ascii_letters + string.digits + "_")
            elif av is sre_c.CATEGORY_SPACE:
                chars |= set(" \t\n\r\f\v")
            elif av is sre_c.CATEGORY_NOT_DIGIT:
                chars |= set(ALPHABET) - set(string.digits)
            elif av is sre_c.CATEGORY_NOT_WORD:
                chars |= set(ALPHABET) - set(string.ascii_letters + string.digits + "_")
            else:
                raise ValueError("unsupported category %r" % (av,))
        else:
            raise ValueError("unsupported set item %r" % (op,))
    if negate:
        chars = set(ALPHABET) - chars
    return frozenset(c for c in chars if c in ALPHABET)


def pattern_nfa(pattern):
    """NFA with group markers for a compiled pattern / pattern string"""
    src = pattern.pattern if hasattr(pattern, "pattern") else pattern
    parsed = sre_parse.parse(src)
    names = {v: k for k, v in parsed.state.groupdict.items()}
    nfa = NFA()

    def build(seq, a):
        for op, av in seq:
            a = build_one(op, av, a)
        return a

    def build_one(op, av, a):
        if op is sre_c.LITERAL:
            b = nfa.new()
            nfa.add(a, frozenset([chr(av)]), b)
            return b
        if op is sre_c.NOT_LITERAL:
            b = nfa.new()
            nfa.add(a, frozenset(set(ALPHABET) - {chr(av)}), b)
            return b
        if op is sre_c.ANY:
            b = nfa.new()
            nfa.add(a, frozenset(ALPHABET), b)
            return b
        if op is sre_c.IN:
            b = nfa.new()
            nfa.add(a, _charset(av), b)
            return b
        if op is sre_c.SUBPATTERN:
            gid, add_flags, del_flags, sub = av
            name = names.get(gid)
            if name is not None:
                o = nfa.new()
                nfa.add(a, ("<", name), o)
                e = build(sub, o)
                c = nfa.new()
                nfa.add(e, (">", name), c)
                return c
            return build(sub, a)
        if op is sre_c.BRANCH:
            _, alts = av
            out = nfa.new()
            for alt in alts:
                s = nfa.new()
                nfa.add_eps(a, s)
                e = build(alt, s)
                nfa.add_eps(e, out)
            return out
        if op in (sre_c.MAX_REPEAT, sre_c.MIN_REPEAT) or (hasattr(sre_c, "POSSESSIVE_REPEAT") and op is sre_c.POSSESSIVE_REPEAT):
            lo, hi, sub = av
            cur = a
            for _ in range(lo):
                cur = build(sub, cur)
            if hi is sre_c.MAXREPEAT:
                loop = nfa.new()
                nfa.add_eps(cur, loop)
                e = build(sub, loop)
                nfa.add_eps(e, loop)
                return loop
            out = nfa.new()
            nfa.add_eps(cur, out)
            for _ in range(hi - lo):
                cur = build(sub, cur)
                nfa.add_eps(cur, out)
            return out
        if op is sre_c.AT:
            return a  # anchors: fullmatch semantics is imposed by the caller
        raise ValueError("unsupported regex construct %r (look-around / back reference)" % (op,))

    end = build(parsed, nfa.start)
    nfa.final.add(end)
    return nfa


def printed_nfa(template):
    """template: list of pieces;  piece = ('lit', text) | ('atom', regex_for_the_atom, group or None)
    or ('opt', [pieces]) / ('rep', [pieces]) for optional / one-or-more repeated sub-templates.
    The NFA emits <g ... g> around atoms labelled with a group."""
    nfa = NFA()

    def lit(a, text):
        for ch in text:
            b = nfa.new()
            nfa.add(a, frozenset([ch]), b)
            a = b
        return a

    def embed(a, sub):
        """copy the (marker-free) NFA of a regex string into nfa starting at a; returns end state"""
        m = pattern_nfa(sub)
        mp = {s: nfa.new() for s in range(m.n)}
        for s in range(m.n):
            for t in m.eps[s]:
                nfa.add_eps(mp[s], mp[t])
            for sym, t in m.trans[s]:
                if isinstance(sym, frozenset):
                    nfa.add(mp[s], sym, mp[t])
                else:
                    nfa.add_eps(mp[s], mp[t])
        nfa.add_eps(a, mp[m.start])
        out = nfa.new()
        for f in m.final:
            nfa.add_eps(mp[f], out)
        return out

    def build(pieces, a):
        for p in pieces:
            if p[0] == "lit":
                a = lit(a, p[1])
            elif p[0] == "atom":
                _, rx, group = p
                if group is not None:
                    o = nfa.new()
                    nfa.add(a, ("<", group), o)
                    a = o
                a = embed(a, rx)
                if group is not None:
                    c = nfa.new()
                    nfa.add(a, (">", group), c)
                    a = c
            elif p[0] == "group":  # a group spanning several pieces
                _, group, sub = p
                o = nfa.new()
                nfa.add(a, ("<", group), o)
                e = build(sub, o)
                c = nfa.new()
                nfa.add(e, (">", group), c)
                a = c
            elif p[0] == "opt":
                out = nfa.new()
                nfa.add_eps(a, out)
                e = build(p[1], a)
                nfa.add_eps(e, out)
                a = out
            elif p[0] == "rep":
                s = nfa.new()
                nfa.add_eps(a, s)
                e = build(p[1], s)
                nfa.add_eps(e, s)
                a = e
            else:
                raise ValueError(p)
        return a

    nfa.final.add(build(template, nfa.start))
    return nfa


def _partition(nfas):
    """coarsest partition of the alphabet that refines every character set on a transition"""
    sets = set()
    for n in nfas:
        for s in range(n.n):
            for sym, _ in n.trans[s]:
                if isinstance(sym, frozenset):
                    sets.add(sym)
    sig = {}
    for ch in ALPHABET:
        key = frozenset(i for i, st in enumerate(sorted(sets, key=sorted)) if ch in st)
        sig.setdefault(key, []).append(ch)
    return [frozenset(v) for v in sig.values()]


def _closure(n, states):
    stack = list(states)
    seen = set(states)
    while stack:
        s = stack.pop()
        for t in n.eps[s]:
            if t not in seen:
                seen.add(t)
                stack.append(t)
    return frozenset(seen)


def _symbols(nfas, classes, with_markers):
    syms = [("c", i) for i in range(len(classes))]
    if with_markers:
        ms = set()
        for n in nfas:
            for s in range(n.n):
                for sym, _ in n.trans[s]:
                    if not isinstance(sym, frozenset):
                        ms.add(sym)
        syms += sorted(ms)
    return syms


def _step(n, S, sym, classes, erase):
    out = set()
    for s in S:
        for a, t in n.trans[s]:
            if isinstance(a, frozenset):
                if sym[0] == "c" and classes[sym[1]] <= a:
                    out.add(t)
            elif not erase and a == sym:
                out.add(t)
    return _closure(n, out)


def _closure_erasing(n, states):
    """closure where marker transitions count as epsilon"""
    stack = list(states)
    seen = set(states)
    while stack:
        s = stack.pop()
        nxt = set(n.eps[s]) | {t for a, t in n.trans[s] if not isinstance(a, frozenset)}
        for t in nxt:
            if t not in seen:
                seen.add(t)
                stack.append(t)
    return frozenset(seen)


def _step_erasing(n, S, ci, classes):
    out = set()
    for s in S:
        for a, t in n.trans[s]:
            if isinstance(a, frozenset) and classes[ci] <= a:
                out.add(t)
    return _closure_erasing(n, out)


def included_erased(a, b):
    """erase(L(a)) subset of erase(L(b)) ?  returns (True, None) or (False, witness string)"""
    classes = _partition([a, b])
    start = (_closure_erasing(a, {a.start}), _closure_erasing(b, {b.start}))
    seen = {start: ""}
    work = [start]
    while work:
        A, B = work.pop()
        w = seen[(A, B)]
        if (A & a.final) and not (B & b.final):
            return False, w
        for ci in range(len(classes)):
            A2 = _step_erasing(a, A, ci, classes)
            if not A2:
                continue
            B2 = _step_erasing(b, B, ci, classes)
            if (A2, B2) not in seen:
                seen[(A2, B2)] = w + sorted(classes[ci])[0]
                work.append((A2, B2))
    return True, None


class _AtomDFA:
    """on-the-fly subset construction of one atom's regex"""

    def __init__(self, rx):
        self.n = pattern_nfa(rx)
        self.start = _closure_erasing(self.n, {self.n.start})
        if self.start & self.n.final:
            raise ValueError("atom /%s/ may be empty" % rx)

    def step(self, S, cls):
        out = set()
        for s in S:
            for a, t in self.n.trans[s]:
                if isinstance(a, frozenset) and cls <= a:
                    out.add(t)
        return _closure_erasing(self.n, out)

    def final(self, S):
        return bool(S & self.n.final)


def units_of(template):
    """straight-line template -> list of units: ('c', char) | ('a', _AtomDFA, rx)"""
    units = []
    for p in template:
        if p[0] == "lit":
            units.extend(("c", ch) for ch in p[1])
        elif p[0] == "atom":
            units.append(("a", _AtomDFA(p[1]), p[1]))
        else:
            raise ValueError("only straight-line templates: %r" % (p,))
    return units


def analyse(pn, template, names):
    """All accepting runs of the pattern NFA `pn` on all strings of the straight-line template.
    returns dict(any=bool, spans={name: (i, j) unit span | None}, problem=None | (text, witness string))
    spans are given when, on EVERY accepting run on EVERY string, group `name` opens exactly before unit i and
    closes exactly before unit j (or never takes part)."""
    units = units_of(template)
    classes = _partition([pn] + [u[1].n for u in units if u[0] == "a"])
    N = len(units)
    start = (pn.start, 0, None)
    succ = {}  # state -> list of (label, state) ; label: ('eps',) | ('m', marker) | ('ch', char)
    parent = {start: None}
    order = [start]
    qi = 0
    while qi < len(order):
        st = order[qi]
        qi += 1
        p, k, S = st
        outs = []
        for t in pn.eps[p]:
            outs.append((("eps",), (t, k, S)))
        for a, t in pn.trans[p]:
            if not isinstance(a, frozenset):
                outs.append((("m", a), (t, k, S)))
                continue
            if k >= N:
                continue
            u = units[k]
            if u[0] == "c":
                if S is None and u[1] in a:
                    outs.append((("ch", u[1]), (t, k + 1, None)))
            else:
                dfa = u[1]
                cur = dfa.start if S is None else S
                for cls in classes:
                    if not cls <= a:
                        continue
                    S2 = dfa.step(cur, cls)
                    if not S2:
                        continue
                    ch = sorted(cls)[0]
                    outs.append((("ch", ch), (t, k, S2)))  # more characters of this atom follow
                    if dfa.final(S2):
                        outs.append((("ch", ch), (t, k + 1, None)))  # the atom ends here
        succ[st] = outs
        for lab, nx in outs:
            if nx not in parent:
                parent[nx] = (st, lab)
                order.append(nx)
    finals = [st for st in order if st[0] in pn.final and st[1] == N and st[2] is None]
    # co-reachability
    pred = {}
    for st, outs in succ.items():
        for lab, nx in outs:
            pred.setdefault(nx, []).append((lab, st))
    nxt = {f: None for f in finals}
    work = list(finals)
    while work:
        st = work.pop()
        for lab, pr in pred.get(st, []):
            if pr not in nxt:
                nxt[pr] = (st, lab)
                work.append(pr)
    if start not in nxt:
        return {"any": False, "spans": {}, "problem": None, "states": len(order)}

    def word_through(st, lab, nx):
        chars = []
        cur = st
        back = []
        while parent[cur] is not None:
            cur, l = parent[cur]
            back.append(l)
        for l in reversed(back):
            chars.append(_lab(l))
        chars.append(_lab(lab))
        cur = nx
        while nxt[cur] is not None:
            cur, l = nxt[cur]
            chars.append(_lab(l))
        return "".join(chars)

    def _lab(l):
        if l[0] == "ch":
            return l[1]
        if l[0] == "m":
            return "<%s:" % l[1][1] if l[1][0] == "<" else ":%s>" % l[1][1]
        return ""

    useful = [(st, lab, nx) for st, outs in succ.items() if st in nxt for lab, nx in outs if nx in nxt]
    spans = {}
    for name in names:
        pos = {"<": {}, ">": {}}
        for st, lab, nx in useful:
            if lab[0] == "m" and lab[1][1] == name:
                key = (st[1], st[2] is None)
                pos[lab[1][0]].setdefault(key, (st, lab, nx))
        if not pos["<"]:
            spans[name] = None
            continue
        for kind in "<>":
            bad = [v for (k, boundary), v in pos[kind].items() if not boundary]
            if bad:
                return {"any": True, "spans": None, "states": len(order),
                        "problem": ("group %s can begin or end inside an atom" % name, word_through(*bad[0]))}
            if len(pos[kind]) > 1:
                ws = [word_through(*v) for v in list(pos[kind].values())[:2]]
                return {"any": True, "spans": None, "states": len(order),
                        "problem": ("group %s has more than one possible %s" % (name, "start" if kind == "<" else "end"), ws[1], ws[0])}
        # does some accepting run avoid the group altogether?
        seen = {start}
        work = [start]
        avoid = False
        while work and not avoid:
            st = work.pop()
            if nxt.get(st, 0) is None and st in nxt and st[0] in pn.final and st[1] == N and st[2] is None:
                avoid = True
                break
            for lab, nx in succ[st]:
                if nx in nxt and nx not in seen and not (lab[0] == "m" and lab[1] == ("<", name)):
                    seen.add(nx)
                    work.append(nx)
        if avoid:
            return {"any": True, "spans": None, "states": len(order),
                    "problem": ("group %s takes part in some parses but not in others" % name, word_through(*list(pos["<"].values())[0]))}
        (i, _), = pos["<"].keys()
        (j, _), = pos[">"].keys()
        spans[name] = (i, j)
    return {"any": True, "spans": spans, "problem": None, "states": len(order)}


def decide(pattern, template, names=None):
    """inclusion + unambiguity of a straight-line template against a pattern"""
    pn = pattern_nfa(pattern)
    if names is None:
        src = pattern.pattern if hasattr(pattern, "pattern") else pattern
        names = sorted(sre_parse.parse(src).state.groupdict)
    tn = printed_nfa(template)
    inc, w1 = included_erased(tn, pn)
    an = analyse(pn, template, names)
    return {"included": inc, "inclusion_witness": w1, "any": an["any"], "spans": an["spans"], "problem": an["problem"],
            "pattern_states": pn.n, "product_states": an["states"]}
