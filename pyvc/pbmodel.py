"""pyvc.pbmodel -- protocol-buffer messages, driven by the REAL descriptors of the generated *_pb2 classes.

Trusted base (DESIGN.md section 2.8).  A message is (descriptor, {field name -> value}); presence is membership in that
map (proto2: explicit presence for every singular field).  The model follows the pure-python implementation that the
repository runs on (protobuf 3.20, api_implementation 'python'):
  * scalar assignment type-checks like google.protobuf.internal.type_checkers (double: needs __float__/__index__, stored
    as float; (u)int32: needs __index__, range-checked -> ValueError; bool: needs __index__; enum: Integral and a declared
    number; string: str/bytes) -- for a symbolic integer the range check becomes a branch of the path;
  * reading an unset singular sub-message gives an empty child that attaches itself to the parent on its first
    modification (CopyFrom / MergeFrom always count as modification, also from an empty message);
  * assigning to a repeated or message field, or to a name the descriptor does not declare, raises AttributeError;
  * setting a member of a oneof clears the other members;
  * SerializeToString refuses (EncodeError) when a required field is missing anywhere in the tree;
  * serialise-then-parse is the identity on (presence, values, order of repeated fields); doubles are 64-bit on the wire,
    so a real number comes back as the same real."""
from __future__ import annotations

import numbers

import numpy as np
import z3
from google.protobuf import message as _pbmessage
from google.protobuf.descriptor import FieldDescriptor as FD

from .core import PyExc, Sym, Unsupported, mk
from .objects import NDArr, SObj

_INT_RANGE = {
    FD.CPPTYPE_INT32: (-(1 << 31), (1 << 31) - 1),
    FD.CPPTYPE_UINT32: (0, (1 << 32) - 1),
    FD.CPPTYPE_INT64: (-(1 << 63), (1 << 63) - 1),
    FD.CPPTYPE_UINT64: (0, (1 << 64) - 1),
}


def _is_int_ty(ty):
    return ty is int or (isinstance(ty, type) and issubclass(ty, (int, np.integer)) and ty is not bool)


def _is_float_ty(ty):
    return ty is float or (isinstance(ty, type) and issubclass(ty, (float, np.floating)))


def check_scalar(interp, field, value):
    """value as the real type checker would store it, or raises PyExc"""
    ct = field.cpp_type
    tname = "%s.%s" % (field.containing_type.name, field.name)

    def type_error(expected):
        raise PyExc(TypeError, ("%r has type %s, but expected one of: %s (field %s)" % (_short(value), _tyname(value), expected, tname),))

    if isinstance(value, (NDArr, SObj)) or value is None or isinstance(value, (list, tuple, dict, set)):
        type_error("a scalar")
    if ct == FD.CPPTYPE_DOUBLE or ct == FD.CPPTYPE_FLOAT:
        if ct == FD.CPPTYPE_FLOAT:
            raise Unsupported("32-bit float field %s" % tname)
        if type(value) is Sym:
            if value.ty is bool:
                return mk(z3.If(value.t, z3.RealVal(1), z3.RealVal(0)), float)
            t = value.t
            if t.sort() == z3.IntSort():
                interp.ctx.used_models.add("protobuf: int stored in a double field is taken as the same real number (exact below 2^53)")
                t = z3.ToReal(t)
            return Sym(t, float)
        if isinstance(value, (str, bytes)) or not (hasattr(value, "__float__") or hasattr(value, "__index__")):
            type_error("int, float")
        return float(value)
    if ct in _INT_RANGE:
        lo, hi = _INT_RANGE[ct]
        if type(value) is Sym:
            if value.ty is bool:
                return mk(z3.If(value.t, z3.IntVal(1), z3.IntVal(0)), int)
            if not _is_int_ty(value.ty):
                type_error("(int,)")
            ok = z3.And(value.t >= lo, value.t <= hi)
            if interp.ctx.branch(ok):
                return Sym(value.t, int)
            raise PyExc(ValueError, ("Value out of range: <symbolic> (field %s)" % tname,))
        if isinstance(value, (str, bytes, float, np.floating)) or not hasattr(value, "__index__"):
            type_error("(int,)")
        if not lo <= int(value) <= hi:
            raise PyExc(ValueError, ("Value out of range: %d" % int(value),))
        return int(value)
    if ct == FD.CPPTYPE_BOOL:
        if type(value) is Sym:
            if value.ty is bool:
                return value
            if _is_int_ty(value.ty):
                return mk(value.t != 0, bool)
            type_error("(bool, int)")
        if isinstance(value, (str, bytes, float, np.floating)) or not hasattr(value, "__index__"):
            type_error("(bool, int)")
        return bool(value)
    if ct == FD.CPPTYPE_ENUM:
        if type(value) is Sym:
            raise Unsupported("symbolic enum number for %s" % tname)
        if not isinstance(value, numbers.Integral):
            type_error("(int,)")
        if int(value) not in field.enum_type.values_by_number:
            raise PyExc(ValueError, ("Unknown enum value: %d" % int(value),))
        return value
    if ct == FD.CPPTYPE_STRING:
        if field.type == FD.TYPE_BYTES:
            if not isinstance(value, bytes):
                type_error("(bytes,)")
            return value
        if type(value).__module__ in ("pyvc.tokstr", "pyvc.xmlmodel") and type(value).__name__ in ("TokStr", "Atom", "NumText"):
            return value
        if not isinstance(value, (str, bytes)):
            type_error("(bytes, str)")
        return value.decode("utf-8") if isinstance(value, bytes) else value
    raise Unsupported("field kind %s of %s" % (ct, tname))


def _short(v):
    r = repr(v)
    return r if len(r) < 60 else r[:57] + "..."


def _tyname(v):
    from .core import pytype

    return pytype(v)


def default_of(field):
    if field.cpp_type == FD.CPPTYPE_ENUM:
        return field.default_value if field.has_default_value else field.enum_type.values[0].number
    return field.default_value


class PMsg:
    __slots__ = ("desc", "vals", "parent", "pfield")

    def __init__(self, desc, parent=None, pfield=None):
        self.desc = desc
        self.vals = {}
        self.parent = parent  # (PMsg, field name) while not yet attached
        self.pfield = pfield

    def __repr__(self):
        return "<PMsg %s %s>" % (self.desc.name, {k: (v if not isinstance(v, (PMsg, PRep)) else "...") for k, v in list(self.vals.items())[:6]})

    def modified(self):
        p = self.parent
        if p is not None:
            self.parent = None
            if self.pfield.containing_oneof is not None:
                for other in self.pfield.containing_oneof.fields:
                    p.vals.pop(other.name, None)
            p.vals[self.pfield.name] = self
            p.modified()

    def __eq__(self, other):
        return self is other

    def __hash__(self):
        return id(self)

    def __bool__(self):
        return True


class PRep:
    """repeated field container"""

    def __init__(self, field, owner):
        self.field = field
        self.items = []
        self.owner = owner

    def __repr__(self):
        return "<PRep %s %d items>" % (self.field.name, len(self.items))

    def __len__(self):
        return len(self.items)

    def __iter__(self):
        return iter(list(self.items))

    def __bool__(self):
        return bool(self.items)

    def __getitem__(self, i):
        if isinstance(i, slice):
            return list(self.items[i])
        try:
            return self.items[i]
        except IndexError:
            raise PyExc(IndexError, ("list index out of range",))
        except TypeError:
            raise Unsupported("symbolic index into a repeated field")


def copy_msg(m, parent=None, pfield=None):
    c = PMsg(m.desc, parent, pfield)
    for k, v in m.vals.items():
        if isinstance(v, PMsg):
            c.vals[k] = copy_msg(v)
        elif isinstance(v, PRep):
            r = PRep(v.field, c)
            r.items = [copy_msg(x) if isinstance(x, PMsg) else x for x in v.items]
            c.vals[k] = r
        else:
            c.vals[k] = v
    return c


class PBytes:
    """the serialisation of a message tree (opaque; parsing gives the tree back)"""

    def __init__(self, root):
        self.root = root

    def __len__(self):
        return 1


class PFile:
    def __init__(self, path, mode):
        self.path, self.mode = path, mode


def missing_required(m, prefix=""):
    out = []
    for f in m.desc.fields:
        v = m.vals.get(f.name)
        if f.label == FD.LABEL_REQUIRED and v is None:
            out.append(prefix + f.name)
        if isinstance(v, PMsg):
            out += missing_required(v, prefix + f.name + ".")
        elif isinstance(v, PRep) and f.cpp_type == FD.CPPTYPE_MESSAGE:
            for i, x in enumerate(v.items):
                out += missing_required(x, "%s%s[%d]." % (prefix, f.name, i))
    return out


def msg_getattr(interp, m, name):
    from .interp import ModelFn

    f = m.desc.fields_by_name.get(name)
    if f is not None:
        if f.label == FD.LABEL_REPEATED:
            r = m.vals.get(name)
            if r is None:
                r = m.vals[name] = PRep(f, m)
            return r
        if f.cpp_type == FD.CPPTYPE_MESSAGE:
            v = m.vals.get(name)
            if v is None:
                return PMsg(f.message_type, m, f)  # detached until modified
            return v
        if name in m.vals:
            return m.vals[name]
        return default_of(f)

    def method(fn):
        return ModelFn(lambda it, args, kwargs: fn(*args, **kwargs), "Message." + name)

    if name == "HasField":
        def has(fname):
            if not isinstance(fname, str):
                raise PyExc(TypeError, ("HasField() argument must be a string",))
            fd = m.desc.fields_by_name.get(fname)
            if fd is None:
                oo = m.desc.oneofs_by_name.get(fname)
                if oo is None:
                    raise PyExc(ValueError, ('Protocol message %s has no singular "%s" field.' % (m.desc.name, fname),))
                return any(x.name in m.vals for x in oo.fields)
            if fd.label == FD.LABEL_REPEATED:
                raise PyExc(ValueError, ('Protocol message %s has no singular "%s" field.' % (m.desc.name, fname),))
            return fname in m.vals
        return method(has)
    if name == "WhichOneof":
        def which(oname):
            oo = m.desc.oneofs_by_name.get(oname)
            if oo is None:
                raise PyExc(ValueError, ("no oneof %s" % oname,))
            for x in oo.fields:
                if x.name in m.vals:
                    return x.name
            return None
        return method(which)
    if name in ("CopyFrom", "MergeFrom"):
        def copy_from(other):
            if not isinstance(other, PMsg) or other.desc is not m.desc:
                raise PyExc(TypeError, ("Parameter to %s() must be instance of same class: expected %s got %s." % (
                    name, m.desc.full_name, other.desc.full_name if isinstance(other, PMsg) else type(other).__name__),))
            if other is m:
                return None
            if name == "CopyFrom":
                m.vals.clear()
            elif m.vals:
                raise Unsupported("MergeFrom into a non-empty message")
            c = copy_msg(other)
            m.vals.update(c.vals)
            for v in m.vals.values():
                if isinstance(v, PRep):
                    v.owner = m
            m.modified()
            return None
        return method(copy_from)
    if name == "Clear":
        def clear():
            m.vals.clear()
            m.modified()
        return method(clear)
    if name == "ClearField":
        def clear_field(fname):
            m.vals.pop(fname, None)
        return method(clear_field)
    if name == "IsInitialized":
        return method(lambda errors=None: not missing_required(m))
    if name == "SerializeToString":
        def ser(**kw):
            miss = missing_required(m)
            if miss:
                raise PyExc(_pbmessage.EncodeError, ("Message %s is missing required fields: %s" % (m.desc.full_name, ",".join(miss)),))
            interp.ctx.used_models.add("protobuf wire format: serialise/parse is the identity on (presence, values, order); doubles are 64-bit")
            return PBytes(copy_msg(m))
        return method(ser)
    if name == "ParseFromString":
        def parse(data):
            if not isinstance(data, PBytes):
                raise Unsupported("ParseFromString of bytes that were not produced in this run")
            if data.root.desc is not m.desc:
                raise Unsupported("parsing a %s as %s" % (data.root.desc.name, m.desc.name))
            m.vals.clear()
            c = copy_msg(data.root)
            m.vals.update(c.vals)
            return 1
        return method(parse)
    if name == "DESCRIPTOR":
        return m.desc
    raise PyExc(AttributeError, ("'%s' object has no attribute '%s'" % (m.desc.name, name),))


def msg_setattr(interp, m, name, value):
    f = m.desc.fields_by_name.get(name)
    if f is None:
        raise PyExc(AttributeError, ("'%s' object has no attribute '%s'" % (m.desc.name, name),))
    if f.label == FD.LABEL_REPEATED:
        raise PyExc(AttributeError, ('Assignment not allowed to repeated field "%s" in protocol message object.' % name,))
    if f.cpp_type == FD.CPPTYPE_MESSAGE:
        raise PyExc(AttributeError, ('Assignment not allowed to composite field "%s" in protocol message object.' % name,))
    v = check_scalar(interp, f, value)
    if f.containing_oneof is not None:
        for other in f.containing_oneof.fields:
            m.vals.pop(other.name, None)
    m.vals[name] = v
    m.modified()


def rep_getattr(interp, r, name):
    from .interp import ModelFn

    def method(fn):
        return ModelFn(lambda it, args, kwargs: fn(*args, **kwargs), "RepeatedField." + name)

    f = r.field

    def conv(x):
        if f.cpp_type == FD.CPPTYPE_MESSAGE:
            if not isinstance(x, PMsg) or x.desc is not f.message_type:
                raise PyExc(TypeError, ("Parameter to MergeFrom() must be instance of same class: expected %s got %s." % (
                    f.message_type.full_name, x.desc.full_name if isinstance(x, PMsg) else _tyname(x).__name__),))
            return copy_msg(x)
        return check_scalar(interp, f, x)

    if name == "append":
        def append(x):
            v = conv(x)
            r.items.append(v)
            r.owner.modified()
        return method(append)
    if name == "extend":
        def extend(xs):
            vs = [conv(x) for x in interp.iterate(xs)]
            r.items.extend(vs)
            if vs:
                r.owner.modified()
        return method(extend)
    if name == "add":
        def add(**kw):
            if f.cpp_type != FD.CPPTYPE_MESSAGE:
                raise PyExc(AttributeError, ("'RepeatedScalarContainer' object has no attribute 'add'",))
            if kw:
                raise Unsupported("repeated.add(**kwargs)")
            c = PMsg(f.message_type)
            r.items.append(c)
            r.owner.modified()
            return c
        return method(add)
    if name == "__len__":
        return method(lambda: len(r.items))
    raise Unsupported("repeated field method %s" % name)


def file_getattr(interp, fobj, name):
    from .interp import ModelFn

    fs = interp.ctx.options.setdefault("__fs__", {})
    if name == "write":
        def write(it, args, kwargs):
            if "w" not in fobj.mode:
                raise PyExc(OSError, ("not writable",))
            if not isinstance(args[0], PBytes):
                raise Unsupported("writing %s to a file" % type(args[0]).__name__)
            fs[fobj.path] = ("pb", args[0])
            it.ctx.used_models.add("file system: open(path,'wb').write(data) stores the data under path; open(path,'rb').read() returns it")
            return 1
        return ModelFn(write, "file.write")
    if name == "read":
        def read(it, args, kwargs):
            ent = fs.get(fobj.path)
            if ent is None or ent[0] != "pb":
                raise Unsupported("reading a file that was not written in this run: %r" % (fobj.path,))
            return ent[1]
        return ModelFn(read, "file.read")
    if name == "close":
        return ModelFn(lambda it, a, k: None, "file.close")
    raise Unsupported("file.%s" % name)


def open_model(interp, args, kwargs):
    path = args[0]
    mode = args[1] if len(args) > 1 else kwargs.get("mode", "r")
    if hasattr(path, "__fspath__"):
        path = str(path)
    if not isinstance(path, str) or "b" not in mode:
        raise Unsupported("open(%r, %r)" % (path, mode))
    fs = interp.ctx.options.setdefault("__fs__", {})
    if "r" in mode and path not in fs:
        raise Unsupported("open() for reading of a file that was not written in this run: %r" % (path,))
    return PFile(path, mode)


def is_message_class(cls):
    return isinstance(cls, type) and issubclass(cls, _pbmessage.Message) and hasattr(cls, "DESCRIPTOR")


def new_message(interp, cls, args, kwargs):
    if args or kwargs:
        raise Unsupported("protobuf message constructor with arguments")
    interp.ctx.used_models.add("protobuf messages: descriptor-driven model of the pure-python implementation (type checks, presence, oneof, required fields)")
    return PMsg(cls.DESCRIPTOR)
