#!/bin/sh
# Build the overlay virtualenv used by every check (offline, from the wheelhouse).
set -e
cd "$(dirname "$0")"
if [ ! -x .venv/bin/python ] || ! .venv/bin/python -c "import z3, cvc5, jsonschema, commonroad, numpy" 2>/dev/null; then
  rm -rf .venv
  /venv/bin/python -m venv .venv
  .venv/bin/python -m pip install --quiet --no-index --find-links /opt/veriftools/wheels z3-solver cvc5 jsonschema hypothesis
  SP=$(.venv/bin/python -c "import sysconfig; print(sysconfig.get_paths()['purelib'])")
  echo "import site; site.addsitedir('/venv/lib/python3.12/site-packages')" > "$SP/zz_repo_deps.pth"
fi
.venv/bin/python -c "import z3, cvc5, jsonschema, commonroad, numpy, os; assert os.path.realpath(commonroad.__file__).startswith('/repo/'), commonroad.__file__; print('setup ok', z3.get_version_string())"
