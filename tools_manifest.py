#!/usr/bin/env python3
"""Regenerates MANIFEST.json from the table below (kept in one place so it stays valid)."""
import json, os
ROOT = os.path.dirname(os.path.abspath(__file__))
BASE = "cd /repo && /venv/bin/python -m pytest -ra -q -p no:cacheprovider --timeout=900 --continue-on-collection-errors"

CHECKS = {
    "C16": dict(
        category="proof",
        text="Every method of Interval/AngleInterval and the angle helpers of common/util.py is executed symbolically from the real source for all real/int arguments; each clause of the property is a postcondition discharged by z3 (233 obligations, all paths). Unbounded in values; angle arguments are bounded to the ranges the class invariant and the property give.",
        note="floats are mathematical reals (rounding not modelled); math.fmod / arctan2(sin,cos) / round are assumed library contracts with range obligations on the 2*pi multiplier; assertions enabled",
        technique="deductive: AST symbolic execution of real source + sidecar contracts, VCs discharged by z3 (cvc5 fallback)",
        design_ref="5/C16",
    ),
}

CHECKS["C17"] = dict(
    category="proof",
    text="TrafficLightCycle.get_state_at_time_step / cycle_init_timesteps and TrafficLight.get_state_at_time_step are executed symbolically from the real source with symbolic durations, colours, offset and time step; the cycle definition (window of (t-offset) mod total) and periodicity are postconditions discharged by z3 for every cycle length n that is enumerated (n <= 5 quick, <= 8 thorough). Unbounded in all values; the cycle length is a stated structure bound.",
    note="cycle length enumerated up to a bound (not an induction over n); numpy cumsum/insert/argmax/comparison modelled by their textbook definitions; ints mathematical",
    technique="deductive: AST symbolic execution of real source + sidecar contracts, VCs discharged by z3; structure (cycle length) enumerated",
    design_ref="5/C17",
)
CHECKS["C05"] = dict(
    category="proof",
    text="The transform kernel, all four shape classes, State/PMState.translate_rotate for every state class x position kind x orientation kind, and translate_rotate of trajectory, occupancy, predictions, all four obstacle roles, stop line, lanelet, sign, light, lanelet network, scenario, goal region, planning problem and set are executed symbolically from the real source with symbolic coordinates, translation and angle in [-2pi,2pi]; 'every stored point p -> R(a)(p+t), orientation th -> th+a (mod 2pi), everything else unchanged, never raises' are postconditions discharged by z3 (about 770 obligations). Collections have small concrete sizes (1-3 vertices / states / members); values are unbounded.",
    note="floats are reals (so 'to rounding accuracy' is an assumption); sin/cos uninterpreted with sin^2+cos^2=1; numpy linear algebra by definition; shapely Polygon/orient as denotations (ring orientation = uninterpreted sign of the canonical area polynomial); make_valid_orientation used through its own contract (proved under C16) in the fan-out contracts; container sizes fixed small",
    technique="deductive: AST symbolic execution of real source + sidecar contracts + callee contracts, VCs discharged by z3 (nlsat fallback)",
    design_ref="5/C05",
)
CHECKS["C08"] = dict(
    category="proof",
    text="GoalRegion.is_reached (with _harmonize_state_types, _check_value_in_interval, Interval/AngleInterval.contains inlined from source) is executed symbolically for every kinematic and point-mass state class x every subset of position/orientation/velocity constraints x goal shape kind, int and float values, one and two goal states; 'reached <=> all constrained attributes satisfied (time in interval, point in shape, heading in angle interval mod 2pi, speed in interval; PM: hypot / atan2)', 'never raises' and 'state and goal unmodified' are discharged by z3; PlanningProblem.goal_reached likewise on a 2-state trajectory.",
    note="goal_reached also with two goal states whose symbolic time windows are independent (the first may start later); point-in-polygon is the shape's own contains_point (shapely predicate uninterpreted; its geometric truth is C06); atan2/hypot by axioms; floats are reals; trajectory length fixed small",
    technique="deductive: AST symbolic execution of real source + sidecar contracts, VCs discharged by z3",
    design_ref="5/C08",
)

CHECKS["C04"] = dict(
    category="proof",
    text="Shape.rotate_translate_local, occupancy_shape_from_state (exact branch, incl. point-mass heading), the initial-occupancy invariant of obstacles, occupancy_at_time / state_at_time of static, dynamic (trajectory, set-based, no prediction), phantom and environment obstacles for a symbolic integer time step (before / at / inside / after the horizon), and the scenario-level queries (occupancies_at_time_step per role, obstacle_states_at_time_step, obstacles_by_role_and_type, obstacles_by_position_intervals) are executed symbolically from the real source; the four-way case split of the property is the postcondition, discharged by z3 for all time steps and coordinates. Trajectory / occupancy-set lengths are fixed small (2-3).",
    note="scenario position-interval queries for five role sets (every two roles meet once); set-based occupancies with interval time steps and symbolic bounds; the uncertain-state enclosure clause (region / angle-interval states) is NOT proved: its argument needs monotonicity of l*cos(d)+w*sin(d), beyond the sin/cos model. It is checked BOUNDED (labelled so in the evidence, never counted as discharged): occupancy_shape_from_state run natively on 973 (shape, position region, orientation / interval) cases x fixed admissible samples (corners, edge midpoints, centre, interval ends and interior, seeded random points), every boundary point of the placed shape tested against the returned region. Two known findings from it (asymmetric Polygon shape / asymmetric Polygon position region are not enclosed). Polygon.rotate_translate_local (shapely centroid rotation) is outside the model; floats are reals; list lengths fixed small",
    technique="deductive: AST symbolic execution of real source + sidecar contracts, VCs discharged by z3; enclosure clause: bounded native contract evaluation on a stated grid",
    design_ref="5/C04",
)
CHECKS["C11"] = dict(
    category="proof",
    text="Histories query -> public mutator -> query are executed symbolically on the real source for every cache/mutator pair the property lists that the model reaches: TrajectoryPrediction.occupancy_set vs translate_rotate / trajectory / shape setters (also through DynamicObstacle), DynamicObstacle occupancy/state vs prediction setter / update_prediction / update_initial_state / translate_rotate, update_initial_state history bookkeeping (history lengths 0-3 x max 1,2,5), TrafficLightCycle / TrafficLight state vs cycle_elements / time_offset / cycle replacement, Lanelet polygon and distance vs translate_rotate, Lanelet polygon / distance / inner distance vs convert_to_2d (3-D vertices). Postcondition: the second answer equals the answer of an object freshly built from the current primary data; discharged by z3 for all values.",
    note="traffic-light cycles are also edited through the TrafficLight that owns them and queried through the light at the same time step; one mutator per history (the inductive argument: each mutator re-establishes cache coherence, which is what each contract proves from a populated cache); LaneletNetwork spatial index (STRtree) coherence is covered under C06, not here; in-place mutation of exposed lists is outside any method contract; floats are reals",
    technique="deductive: AST symbolic execution of real source over operation histories + sidecar contracts, VCs discharged by z3",
    design_ref="5/C11",
)

CHECKS["C12"] = dict(
    category="proof",
    text="For each of 54 scenario-element classes two instances are built through the public constructor with independent symbolic attribute values and the real __eq__/__hash__ source is executed symbolically: reflexivity, x == deepcopy(x), symmetry, 'all attributes agree => equal', 'exactly one constructor attribute differs (by more than 1e-10 if real) => unequal' (every attribute), hash totality (also with default optional arguments) and 'equal => equal hashes' are postconditions discharged by z3 for all values; discrete attributes (ids, enums, flags, member lists) and permuted insertion orders of id sets are covered by per-class variants (Intersection also: same number of incomings, one incoming with another incoming_id, alone and next to an incoming matched by id).",
    note="plus, on concrete pairs, 18 'containers of different size' contracts (a trajectory / prediction / shape group / polygon / lanelet / goal region / cycle / sign / intersection / planning-problem set / network whose list or set is a strict prefix or subset of the other's is unequal in both directions); hash() is an uninterpreted function of the canonical tuple (numbers by value, frozensets commutative); np.array2string(np.around(a,10)) and str(float) are injective functions of the (rounded) values; round(x,10) is within 0.5e-10 of x; nested components of composite classes carry a few symbolic leaves each (their own class contract covers all of their attributes); collections have small concrete sizes",
    technique="deductive: AST symbolic execution of real __eq__/__hash__ source on two symbolic instances per class, VCs discharged by z3",
    design_ref="5/C12",
)

CHECKS["C09"] = dict(
    category="proof",
    text="The representation invariant WF (id pool == ids of all contained objects incl. incoming elements, all ids pairwise distinct) is shown to be established by Scenario.__init__ and preserved by every public operation of the property (add_objects for each of the ten object kinds, remove_obstacle / remove_lanelet / remove_traffic_sign / remove_traffic_light / remove_intersection in single and list form, erase / replace_lanelet_network, generate_object_id), executed symbolically from the real source on a populated scenario (two lanelets sharing a sign, a light, an intersection with an incoming, one obstacle per role) whose ids are ALL symbolic integers, so every collision pattern of the operation's argument is covered; postconditions: ValueError and unchanged scenario on a used id, exact growth/shrink of the id set incl. cascades, re-adding a removed object succeeds, generated ids unused and never repeated. The history quantifier is discharged by induction over operations (WF is inductive).",
    note="also: an id that was generated stays reserved when the network - the scenario's only content - is erased or replaced (generate / erase or replace / generate); population shape fixed (2 lanelets, 1 sign, 1 light, 1 intersection, 4 obstacles); ids unbounded symbolic; dict/set with symbolic keys modelled by case-splitting equality of keys; adding a second lanelet network on top of a non-empty one via add_objects is not exercised (replace_lanelet_network is)",
    technique="deductive: inductive invariant over the public operations, AST symbolic execution of real source with symbolic ids, VCs discharged by z3",
    design_ref="5/C09",
)

CHECKS["C10"] = dict(
    category="proof",
    text="LaneletNetwork.remove_lanelet / remove_traffic_sign / remove_traffic_light / remove_intersection, the three cleanup_* functions, Scenario.remove_lanelet with remove_hanging_lanelet_members, create_from_lanelet_list and create_from_lanelet_network (shape + excluded types) are executed symbolically from the real source on a network template (4 lanelets with predecessor/successor/adjacency relations, 2 signs, 2 lights, a stop line, an intersection with incoming and crossing) whose ids are ALL symbolic; the removed id is symbolic too (covers every element and a non-existing id). Postconditions: no remaining element refers to a removed id (all relation kinds incl. stop-line references, incoming/successor/crossing sets), every remaining lanelet keeps exactly its old relations minus the removed ids with unchanged geometry, nothing else disappears, signs/lights vanish with a lanelet iff no remaining lanelet references them; cut-out keeps exactly the lanelets whose polygon intersects the shape (abstract predicate) and whose types are not excluded.",
    note="the template carries a stop line with only a light reference and one with only a sign reference, a traffic light referenced by no lanelet, a right-turn-only incoming, a right neighbour driving in the opposite direction; LaneletNetwork.remove_lanelet (with rtree=True and with rtree=False) and the two-removal sequence run on the template extended by a fifth lanelet without lanelet relations that only the intersection refers to (a crossing); cut-outs: an incoming is kept exactly when one of its incoming lanelets and one of its successors is kept, its successor sets restricted to the kept lanelets; one network template (relation structure fixed, ids symbolic); sequences of removals follow by induction because each operation re-establishes no-dangling from a no-dangling network; shapely intersects() is an uninterpreted predicate; deepcopy modelled structurally",
    technique="deductive: AST symbolic execution of real source with symbolic ids on a network template, invariant + frame postconditions discharged by z3",
    design_ref="5/C10",
)

CHECKS["C07"] = dict(
    category="proof",
    text="Scenario.assign_obstacles_to_lanelets (incl. its two nested functions), the lanelet registries, _add/_remove_*_obstacle_(to|from)_lanelets, add_objects / remove_obstacle are executed symbolically from the real source on a 2-lanelet network with a static obstacle (rectangle, circle) and a dynamic obstacle with trajectory prediction at symbolic poses; find_lanelet_by_position / find_lanelet_by_shape run through the STRtree model, so every combination of 'centre in lanelet' / 'occupancy intersects lanelet' is a path. Postconditions: recorded centre set == lanelets containing the centre, recorded shape set == lanelets the occupancy intersects, each lanelet registry is exactly the inverse of the shape assignment (per time step for dynamic obstacles), remove_obstacle never fails and clears the registries; obstacles added with given assignments are registered on exactly those lanelets; the XML and protobuf readers with lanelet_assignment=True record the same geometric truth.",
    note="geometric predicates are the abstract shapely predicates (their truth is C06); assumed geometry fact: a lanelet containing the centre of a shape is intersected by it; reader-side assignment IS covered: a scenario with a static obstacle / a dynamic obstacle with trajectory is written (XML and protobuf, abstract documents) and read back with lanelet_assignment=True, and the same three equivalences are required of what the reader recorded (1 lanelet); 2 lanelets in the assign contracts of the thorough tier, 1-2 time steps",
    technique="deductive: AST symbolic execution of real source with abstract geometric predicates (all predicate valuations explored), VCs discharged by z3",
    design_ref="5/C07",
)

CHECKS["C20"] = dict(
    category="proof",
    text="Lanelet._compute_polyline_cumsum_dist / distance, interpolate_position and merge_lanelets are executed symbolically from the real source on lanelets with symbolic vertex coordinates (float and int arrays, 2-4 vertices): d[0]=0, d[i]-d[i-1] is the segment length (hence non-decreasing and ending at the centre-line length); for every 0<=s<=length the returned points are the convex combinations of the bracketing vertices with one common parameter in [0,1], no index leaves the polyline, inadmissible s is rejected; merged boundaries are the concatenation with the joint vertex once and the length is the sum, for every way the predecessor/successor link can be recorded. find_lanelet_successors/predecessors_in_range are executed for every directed graph on <= 3 lanelets (up to relabelling) plus six 4-lanelet graphs (cycles, diamond, inner cycle) with SYMBOLIC lanelet lengths and range: termination, chains of links, loop-free, start avoided, every direct neighbour covered, extension only while the accumulated length is below the range - decided for all length values per graph.",
    note="distance also on integer vertex arrays (dtype-preserving numpy models); graph size bounded (all graphs on <= 3 lanelets, selected graphs on 4; thorough tier adds 400 canonical 4-lanelet graphs and 3-vertex interpolation); polyline vertex counts 2-4; sqrt by its defining axioms; floats are reals",
    technique="deductive: AST symbolic execution of real source, symbolic coordinates / lengths, graphs enumerated up to a stated size, VCs discharged by z3",
    design_ref="5/C20",
)

CHECKS["C06"] = dict(
    category="proof",
    text="(a) Denotation consistency of every shape class from the real source: Circle.contains_point(p) <=> |p-c| <= r and the exported geometry is a disc around the centre; Rectangle._compute_vertices are exactly the corners c + R(theta)(+-l/2, +-w/2) and the exported polygon is that ring; Rectangle/Polygon/ShapeGroup.contains_point(p) <=> p in the exported geometry (incl. the bounding-box pre-check); the lanelet polygon is right boundary ++ reversed left boundary. (b) The spatial index (buffered polygons, STRtree, id map) mirrors the current lanelet polygons on every construction route: add_lanelet, create_from_lanelet_list, add_lanelets_from_network (also with an id clash), deepcopy, __getstate__/__setstate__, translate_rotate, remove_lanelet. (c) find_lanelet_by_position / find_lanelet_by_shape / contains_points / get_obstacles / map_obstacles_to_lanelets / filter_obstacles_in_network return exactly what the predicates select (group occupancies: any member). All discharged by z3 for symbolic query points, shapes and poses. One listed known finding: the exported circle has radius r/2.",
    note="index routes include a deferred refresh (rtree=False additions, then remove_lanelet of an absent id; remove twice with the refresh requested by the second call); relative to shapely: point-in-polygon / intersects are uninterpreted predicates on denotations, STRtree.query is assumed exact w.r.t. them, a polygon's points lie in its bounding box (assumed geometry fact); the 'geometric truth' of shapely as the library uses it is checked BOUNDED only (labelled so, never counted as discharged): 10 seeded networks (40 thorough) of 6 curved / overlapping / adjacent lanelets x 4 construction routes x 600 query points and 120 query shapes against an independent even-odd point-in-polygon and segment-intersection implementation, boundary cases within 1e-7 skipped; 2-lanelet networks; the half-radius circle geometry is a recorded known finding (KNOWN_FINDINGS.txt), not repaired because the unedited suite encodes it",
    technique="deductive: AST symbolic execution of real source with abstract geometric predicates, representation invariant of the spatial index per construction route, VCs discharged by z3; shapely-vs-planar-geometry agreement: bounded native comparison on seeded networks",
    design_ref="5/C06",
)

CHECKS["C01"] = dict(
    category="proof",
    text="The real XML writer (every *XMLNode builder reached from XMLFileWriter.write_to_file) and the real XML reader (every *Factory reached from XMLFileReader.open) are executed symbolically back to back through the public CommonRoadFileWriter / CommonRoadFileReader on abstract XML trees: a lanelet network (lanelets with relations, adjacency, markings, types, users, stop line with references, traffic sign, traffic light with cycle, intersection), a static obstacle, dynamic obstacles with trajectory and with set-based prediction incl. signal states, phantom and environment obstacles, a planning problem with region / interval goal states, and the scenario meta data, all with symbolic coordinates and values, for decimal precisions 1, 4, 12 (thorough: 1..12). Postcondition: the read objects reproduce the written ones - ids, enums, flags, time steps, populated attributes identical, every real within 10^-d (unset initial-state attributes read back as 0) - discharged by z3 for all values. Further families: one trajectory per state class (PM, KS, KST, ST, STD, MB, ExtendedPM) with every attribute symbolic, trajectory states with interval- and region-valued attributes, an obstacle with a shape group, and EXHAUSTIVE enumeration-member transport (every Tag, TimeOfDay / Weather / Underground member, every LaneletType, RoadUser, LineMarking incl. stop lines, every ObstacleType for static and dynamic obstacles, every TrafficLightState and direction, every traffic sign id of each of the 14 supported countries, through the country table of the reader). Known finding: the virtual flag of traffic signs.",
    note="float_to_str enters the whole-file contracts through its contract (plain decimal text, monotone, within 10^-d, truncating outside exponent notation), and that contract is itself discharged on the real body of float_to_str for a symbolic float (float and numpy.float64) and each decimal precision 1..12 (contracts/c01_f2s.py, 24 contracts) relative to a three-fact text model of str(float) / format(f, '.<d>f') (exponent form <=> f != 0 and (|f| < 1e-4 or |f| >= 1e16); otherwise <digits>.<digits> denoting f; format denotes f rounded to d decimals) - the three facts and the contract are additionally evaluated on real floats by the bounded layer (labelled bounded); XML serialise/parse is the identity on (tag, attributes, text, children) trees; str(float) denotes exactly the float; object collections have small fixed sizes; geometry is concrete in the enumeration-member contracts (symbolic in all others); orientation intervals shorter than 2pi-0.25; information the format does not store (first occurrences, colour list, centre line, lanelet assignment) is excluded; NOT compared: the vertices of Polygon shapes (every attribute of a Polygon is treated as a derived cache by the round-trip comparison; comparing the re-oriented ring of the re-constructed polygon gave counter-models that do not replay - DESIGN.md section 10 entry 21)",
    technique="deductive: AST symbolic execution of real writer and reader source on abstract XML trees, round-trip postcondition discharged by z3; float_to_str by callee contract, itself discharged on its body over a text model of str(float)",
    design_ref="5/C01",
)

CHECKS["C15"] = dict(
    category="proof",
    text="The real XML writer is executed symbolically over writer histories on the abstract file system: the same writer writing twice, a second writer with another decimal precision (2, 7) constructed in between, and overwrite mode SKIP on an existing (real temporary) file. Postconditions: the second document is identical to the first (date aside) with the same number of elements; the document equals that of an identically constructed writer used alone (float_to_str is a function of value and precision, so a leaked precision shows as a different text term); under SKIP no write reaches the path and the real file is byte-for-byte unchanged.",
    note="further histories: XML - protobuf - XML on a lanelet network with non-ascending reference lists, protobuf - XML - protobuf with a lanelet without type, SKIP on an existing file of 0 bytes; both writers: the XML histories as described; for the protobuf writer (message trees on the pbmodel) the history write_to_file / write_scenario_to_file / write_to_file on one writer object and an XML writer with another precision constructed and used in between, each document compared field by field with the one an identically constructed writer produces alone; SKIP also with the default file name (filename=None, a real file in a scratch working directory) for both formats; not enumerated: all interleavings beyond these histories (finite set of histories, stated); two XML writers of different precision both constructed before either writes (the history a memoising cache shows in); functools.lru_cache is modelled as a memo table keyed by argument equality (a case split per probe for symbolic arguments, no eviction); the module-global precision is modelled as a class-attribute overlay; documents compared as abstract trees (text of numbers compared by value and lexical class)",
    technique="deductive: AST symbolic execution of real writer source over operation histories with an abstract file system, frame/non-interference postconditions discharged by z3",
    design_ref="5/C15",
)

CHECKS["C18"] = dict(
    category="proof",
    text="Read-only operations are executed symbolically from the real source on scenarios / planning problems with symbolic content and the observable view (all constructor-visible attributes of every reachable object; declared caches and derived geometry excluded) is compared before and after: occupancy_at_time for every obstacle role (incl. trajectories of states without an orientation attribute), occupancies_at_time_step, obstacle_states_at_time_step, find_lanelet_by_position, traffic-light state, lanelet distance / polygon, GoalRegion.is_reached (point-mass state), __eq__ / __hash__ of scenario and planning-problem set, deepcopy, LaneletNetwork.__getstate__, and writing to XML. Postcondition view' == view (tolerance 0), discharged by z3.",
    note="route queries (predecessors / successors in range) through lanelets whose reference lists are not ascending; export (protobuf, then XML) of planning problems whose goal is given by lanelets with a sparse goal-lanelet map; drawing the lanelet network (MPRenderer.draw_lanelet_network: solid line markings, centre line coloured by a traffic light, stop line, border vertices; 2-D and 3-D boundary polylines; lanelet labels not covered) IS under contract: numpy basic-indexing results, rows, reshape / ravel / transpose and asarray / ascontiguousarray of an array are modelled as views that write through to their base, and op= on an array writes in place, so an edit of a view of the lanelet vertices instead of a copy fails the frame obligation (shapely LineString.project / interpolate return unconstrained values; drawing an obstacle of every role (obstacle.draw -> draw_*_obstacle -> _draw_occupancy -> draw_polygon / rectangle / ellipse; the C19 builders, symbolic time window) is under the same frame contract; TrafficLight.draw, dashed markings, planning-problem drawing and render() are not under contract; Polygon._vertices counts as primary data in these frame comparisons (it was skipped as a cache until the fourth session; the C01 / C02 round-trip comparisons still skip it, DESIGN.md section 10 entry 21); a later write to the base is not seen through an already taken view); protobuf export IS under contract (pbmodel); the scenario id carries an unsorted prediction-id list and the network a lanelet built with default arguments so that in-place normalisations show; pickling is covered through __getstate__/__setstate__ only; 'exporting before and after gives the same file' follows from view equality plus C15",
    technique="deductive: frame condition (modifies nothing observable) by AST symbolic execution of real source with structural snapshots, discharged by z3",
    design_ref="5/C18",
)

CHECKS["C03"] = dict(
    category="proof",
    text="The document the real XML writer produces (abstract tree, symbolic values; lanelet network with sign / light / intersection / stop line, every obstacle role, planning problems with region / interval goals, location and tags) is validated against content models parsed on every run from the shipped XSD: element order and occurrence (sequence / choice / all with min/maxOccurs), required and undeclared attributes, enumeration values, the lexical class of every number against the XSD type (a text produced by str(float) is in exponent notation exactly for |x| < 1e-4 or |x| >= 1e16, which xs:decimal does not admit - a z3 condition), numeric ranges (positiveInteger, ...) and the id key / idref keyref constraints as z3 conditions over symbolic ids. Additionally EXHAUSTIVE over the enumeration members the schema lists: one valid document per group carrying every schema-listed LaneletType, vehicle type, line marking (bounds and stop lines), obstacle type per role, traffic light colour, environment value and, per country, traffic sign id (20 documents; the same documents validate with lxml's XMLSchema in the native cross-check). Acceptance by the library's own reader is the C01 round trip.",
    note="also a lanelet with 3-D boundaries some of whose vertices lie at height exactly 0 (every point must carry x, y, z); own XSD validator for the subset of XSD the shipped schema uses (no substitution groups, wildcards, xs:union); float_to_str by contract (plain decimal), the contract discharged on the real body per decimal precision 1..12 over the text model of str(float) (contracts/c01_f2s.py); one document shape per content group, values symbolic; native replays validate the real file with lxml.XMLSchema",
    technique="deductive: AST symbolic execution of the real writer + validation of the abstract tree against XSD content models, lexical-class and range conditions discharged by z3",
    design_ref="5/C03",
)

CHECKS["C14"] = dict(
    category="proof",
    text="CommonRoadSolutionWriter (root, trajectory, state and sub-element builders) and CommonRoadSolutionReader (header, benchmark id, vehicle id, trajectory, state parsing) are executed symbolically back to back on abstract XML documents for every (vehicle model, trajectory kind) pair incl. input vectors and KST, int- and float-typed state values, optional metadata present and absent, single and cooperative solutions: same benchmark id, planning-problem ids, vehicle model / type, cost function, trajectory type, ascending time steps, BIT-IDENTICAL state values (tolerance 0), computation time, processor name, date to the second; the written document is validated against content models parsed from the shipped solution XSD (trajectory types the schema defines, in schema order); the state-field tables are checked exhaustively for index alignment and distinct names.",
    note="one trajectory with numpy-integer time steps; str(np.float64(x)) / str(int) denote exactly the number and float()/int() parse them back exactly (assumed, Python's shortest round-trip repr); strftime/strptime natively on a concrete date; XML serialise/parse transparent; 2 states per trajectory; every (vehicle model, vehicle type, supported cost function) triple is covered exhaustively by cooperative solutions with one planning-problem solution per pair (non-ascending planning-problem ids)",
    technique="deductive: AST symbolic execution of real solution writer and reader on abstract XML documents + XSD content-model validation, exact round-trip postcondition discharged by z3; finite tables by exhaustion",
    design_ref="5/C14",
)

CHECKS["C13"] = dict(
    category="proof",
    text="ScenarioID.__init__/__str__/from_benchmark_id/__eq__ and Solution.benchmark_id / CommonRoadSolutionReader._parse_benchmark_id / _parse_vehicle_id are interpreted from the real source on ids whose map / configuration / prediction numbers are symbolic integers >= 1 and whose country (any key of the shipped ISO table, or ZAM) and map name (any string of [a-zA-Z0-9]+) are opaque atoms; the printed id is a token string. Conformance to the CommonRoad id grammar (stated in the contract, not taken from the code) and the capture groups the REAL compiled pattern yields for EVERY string of that form are decided by automata (language inclusion + group unambiguity on the product automaton; no length bound). Exhaustive over cooperative flag, behaviour S/T/P/I, map / configuration / prediction structure incl. constructor defaults, 1-3 prediction ids as int or list, all supported versions, all (vehicle model, type) pairs, all cost functions, 1-3 planning-problem solutions.",
    note="the framing contract also runs with concrete vehicle / cost ids that are EQUAL for several planning problems (same cost function for all vehicles); str(int) is the canonical decimal text and int() inverts it (assumed); string concatenation / join / split / replace / re.sub on token strings modelled at character level and refused where an atom could contain the character; vehicle and cost ids enter the framing contract as atoms over the finite id sets proved by the per-pair contracts (modular); at most 3 prediction ids and 3 planning-problem solutions in the quick tier, 8 and 6 in the thorough tier (structure bound)",
    technique="deductive: AST symbolic execution of the real print/parse code on token strings + regular-language decision (NFA product, inclusion and group unambiguity) against the real compiled pattern; finite enumerations by exhaustion; z3 for the integer equalities",
    design_ref="5/C13",
)

CHECKS["C02"] = dict(
    category="proof",
    text="The real ProtobufFileWriter (every XxxMessage.create_message) and ProtobufFileReader (every XxxFactory.create_from_message, incl. StateFactory class matching) are executed symbolically back to back on message trees built from the REAL descriptors of the generated *_pb2 classes (type checks, 32-bit ranges, presence, oneof, required fields as in the pure-python protobuf implementation the repository runs on). Content groups as in C01 (lanelet network with stop line, sign incl. virtual flag and first occurrences, light incl. offset/direction/active, intersection; static / dynamic (trajectory with signal states incl. horn, set-based) / phantom / environment obstacles; planning problems with interval- and region-valued goal states) plus: every object built through its public constructor with default arguments (incl. id 0 neighbours and a cycle-less light switched on), one trajectory per state class (PM, KS, KST, ST, STD, MB, ExtendedPM), trajectory states with interval- and region-valued attributes, a shape-group obstacle, meta data (author, affiliation, source, tags, location) given to the writer instead of the scenario, and EXHAUSTIVE transport of every enumeration member the .proto files define (tags, environment, lanelet types, users, markings, obstacle types, light states and directions, every sign id of the 13 countries with a proto enumeration). Postcondition: structural equality of everything, reals IDENTICAL (tolerance 0); all reals, ids and time steps symbolic.",
    note="NOT compared: the vertices of Polygon shapes (DESIGN.md section 10 entry 21); the wire format is assumed: serialise/parse is the identity on (presence, values, order), doubles 64-bit (pbmodel, trusted; cross-checked natively against the real library by tools/native_all.py); preconditions: integers fit the format's 32-bit fields, enumeration members exist in the .proto (HEAVY_RAIN etc. do not), centre line = mean of the boundaries (the format stores only the boundaries), writer given author/affiliation/source/tags; a light without cycle reads back with an empty cycle (treated as the same content, both readers do this); structure bounds as in C01 (2-vertex boundaries, 2 trajectory states, 1-3 objects per kind). Known finding: KSTState trajectories cannot be written (no hitch_angle field in obstacle.proto).",
    technique="deductive: AST symbolic execution of the real protobuf writer and reader on descriptor-driven message trees, exact round-trip postcondition discharged by z3",
    design_ref="5/C02",
)

CHECKS["C19"] = dict(
    category="proof",
    text="PARTIAL: the property's claims about WHAT is drawn and about parameter propagation are decided; its totality claim (drawing and rendering never raise) is not. (1) Parameter propagation: BaseParam.__setattr__ / __post_init__ / __setitem__ are interpreted from the real source on the real dataclass tree (MPDrawParams and every nested group): a symbolic value set on a group - by attribute, by item, or through the constructor - reaches every nested group that declares the parameter and no other parameter of any nested group changes; every parameter of five root groups that a nested group shares. (2) What is drawn: MPRenderer.draw_static_obstacle / draw_dynamic_obstacle / draw_phantom_obstacle / draw_environment_obstacle / _draw_occupancy / draw_polygon / draw_rectangle / draw_ellipse and the shapes' draw methods are interpreted with shape drawing on and icons, signals, trajectories, extra occupancies, labels, initial states and history off; matplotlib patch constructors are recorders. Postcondition: the patches collected in renderer.obstacle_patches are, in number, kind and geometry, exactly the shapes of the occupancies occupancy_at_time reports at time_begin (for set-based predictions also at the steps time_begin < t < time_end), nothing otherwise. (3) Which lanelets are drawn: MPRenderer.draw_lanelet_network interpreted on a three-lanelet network with symbolic vertices for draw_ids = None, [], one id, two ids out of order, all ids, an id that does not exist (markings, labels, signs, lights, intersections off): exactly one fill collection whose polygons are, in network order, right bound + reversed left bound of exactly the selected lanelets (all for None, none for []), and one right-bound and one left-bound path per selected lanelet. Symbolic geometry; time_begin <= time_end symbolic for static / environment / dynamic obstacles without and with trajectory, seven windows (before, at the initial step, inside, last step, after, all, begin = end) for set-based, phantom and trajectory obstacles.",
    note="eight windows incl. one that begins two steps before the obstacle exists; NOT decided by this check: that drawing plus matplotlib's render() completes without exception for every parameter setting (matplotlib internals are outside any contract here), icons / signals / traffic signs / lights / labels / line markings / intersection colouring of draw_lanelet_network. The renderer treats time_end as exclusive in its ranges (consistently, also in draw_trajectory); the contract follows that reading. Obstacle horizons are fixed small structures (initial step 1, predictions 2..4).",
    technique="deductive: AST symbolic execution of the real draw-parameter classes and renderer draw functions with matplotlib constructors as recorders; postconditions discharged by z3; parameter tree enumerated from the real dataclasses",
    design_ref="5/C19",
)

NOT_YET = {}

def main():
    props = [json.loads(l) for l in open(os.path.join(ROOT, "properties.jsonl"))]
    checks = []
    na = []
    for p in props:
        pid = p["id"]
        if pid in CHECKS:
            c = CHECKS[pid]
            checks.append({
                "property_id": pid,
                "quick_cmd": "./check %s --tier quick" % pid,
                "thorough_cmd": "./check %s --tier thorough" % pid,
                "evidence_file": "evidence/%s.json" % pid,
                "replay_cmd_template": "./check %s --replay {path}" % pid,
                "engine": "pyvc",
                "level_claimed": {"category": c["category"], "text": c["text"], "design_ref": c["design_ref"]},
                "level_note": c["note"],
                "technique": c["technique"],
            })
        else:
            na.append({"property_id": pid, "reason": NOT_YET.get(pid, "no contract set built yet for this property in this session (work in progress; see DESIGN.md section 9)")})
    m = {
        "version": 1,
        "setup_cmd": "./setup.sh",
        "hooks": {"guard": "COMMONROAD_IO_VERIF", "enable": "no source hooks: pyvc reads /repo source; the variable is exported by ./check but nothing in /repo reads it",
                  "baseline_off_cmd": BASE, "source_commits": [], "add_only": True},
        "engines": [{"name": "pyvc", "path": "pyvc/", "serves_properties": sorted(CHECKS), "kind_free_text": "contract-based deductive verifier for Python built here: AST symbolic executor over the real /repo source, sidecar contracts, z3/cvc5 back ends, native replay of counter-models"}],
        "checks": checks,
        "not_applicable": na,
        "notes": "exit codes of ./check: 0 held, 1 violation (VIOLATION line + replay file), 2 undecided (unknown/unsupported/broken auxiliary proof), 3 checker failure",
    }
    json.dump(m, open(os.path.join(ROOT, "MANIFEST.json"), "w"), indent=1)
    import jsonschema
    jsonschema.validate(m, json.load(open("/root/.vp/MANIFEST.schema.json")))
    print("MANIFEST ok:", len(checks), "checks,", len(na), "not_applicable")
main()
