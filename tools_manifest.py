#!/usr/bin/env python3
"""Regenerates MANIFEST.json from the table below (kept in one place so it stays valid)."""
import json, os
ROOT = os.path.dirname(os.path.abspath(__file__))
BASE = "cd /repo && /venv/bin/python -m pytest -ra -q -p no:cacheprovider --timeout=900 --continue-on-collection-errors"

CHECKS = {
    "C16": dict(
        category="proof",
        text="Every method of Interval/AngleInterval and the angle helpers of common/util.py is executed symbolically from the real source for all real/int arguments; each clause of the property is a postcondition discharged by z3 (233 obligations, all paths). Unbounded in values; angle arguments are bounded to the ranges the class invariant and the property give.",
        note="floats are mathematical reals (rounding not modelled); math.fmod / arctan2(sin,cos) / round are assumed library contracts with range obligations on the 2*pi multiplier; assertions enabled",
        technique="deductive: AST symbolic execution of real source + sidecar contracts, VCs discharged by z3 (cvc5 fallback)",
        design_ref="5/C16",
    ),
}

NOT_YET = {}

def main():
    props = [json.loads(l) for l in open(os.path.join(ROOT, "properties.jsonl"))]
    checks = []
    na = []
    for p in props:
        pid = p["id"]
        if pid in CHECKS:
            c = CHECKS[pid]
            checks.append({
                "property_id": pid,
                "quick_cmd": "./check %s --tier quick" % pid,
                "thorough_cmd": "./check %s --tier thorough" % pid,
                "evidence_file": "evidence/%s.json" % pid,
                "replay_cmd_template": "./check %s --replay {path}" % pid,
                "engine": "pyvc",
                "level_claimed": {"category": c["category"], "text": c["text"], "design_ref": c["design_ref"]},
                "level_note": c["note"],
                "technique": c["technique"],
            })
        else:
            na.append({"property_id": pid, "reason": NOT_YET.get(pid, "no contract set built yet for this property in this session (work in progress; see DESIGN.md section 9)")})
    m = {
        "version": 1,
        "setup_cmd": "./setup.sh",
        "hooks": {"guard": "COMMONROAD_IO_VERIF", "enable": "no source hooks: pyvc reads /repo source; the variable is exported by ./check but nothing in /repo reads it",
                  "baseline_off_cmd": BASE, "source_commits": [], "add_only": True},
        "engines": [{"name": "pyvc", "path": "pyvc/", "serves_properties": sorted(CHECKS), "kind_free_text": "contract-based deductive verifier for Python built here: AST symbolic executor over the real /repo source, sidecar contracts, z3/cvc5 back ends, native replay of counter-models"}],
        "checks": checks,
        "not_applicable": na,
        "notes": "exit codes of ./check: 0 held, 1 violation (VIOLATION line + replay file), 2 undecided (unknown/unsupported/broken auxiliary proof), 3 checker failure",
    }
    json.dump(m, open(os.path.join(ROOT, "MANIFEST.json"), "w"), indent=1)
    import jsonschema
    jsonschema.validate(m, json.load(open("/root/.vp/MANIFEST.schema.json")))
    print("MANIFEST ok:", len(checks), "checks,", len(na), "not_applicable")
main()
