"""debug helper: run the contracts of a module whose id contains a substring, serially, and print a summary"""
import sys, time, os
sys.set_int_max_str_digits(0)
sys.path.insert(0, os.path.dirname(os.path.dirname(os.path.abspath(__file__))))
from pyvc.driver import load_module
from pyvc.runner import verify_contract
mod, pat = sys.argv[1], sys.argv[2]
for c in load_module(mod):
    if pat in c.cid:
        t0=time.time()
        r=verify_contract(c)
        bad={k:v['status'] for k,v in r['obligations'].items() if v['status']!='discharged'}
        print("%-90s paths %3d %6.1fs unsup=%s err=%s bad=%d" % (c.cid[:90], r['paths'], time.time()-t0, (r['unsupported'] or '')[:100], (r['error'] or '')[:200], len(bad)))
        for k in list(bad)[:int(sys.argv[3]) if len(sys.argv)>3 else 0]:
            f=r['obligations'][k].get('failure') or {}
            print("  >> ", k[:150], bad[k], (f.get('detail') or f.get('info') or '')[:300], str(f.get('inputs'))[:200])
        if len(sys.argv)>3 and (r.get('error_tb') or r.get('unsupported_tb')): print((r.get('error_tb') or r.get('unsupported_tb'))[-1500:])
