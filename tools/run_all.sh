#!/bin/sh
# run every registered quick check on the current tree (regenerates all evidence files)
cd "$(dirname "$0")/.."
git -C /repo status --short | grep -v '^??' && echo "WARNING: /repo has uncommitted changes"
for p in $(.venv/bin/python -c "import json; print(' '.join(c['property_id'] for c in json.load(open('MANIFEST.json'))['checks']))"); do
  /usr/bin/time -f "   %es" ./check $p --tier quick 2>&1 | grep -v "^  \|^KNOWN" | tail -2
done
.venv/bin/python - <<'PY'
import json, jsonschema, glob
sch = json.load(open('/root/.vp/EVIDENCE.schema.json'))
for f in sorted(glob.glob('evidence/*.json')):
    e = json.load(open(f)); jsonschema.validate(e, sch)
    c = e['coverage']
    flag = '' if (e['level'] != 'proof' or c['obligations'] == c['discharged']) and e['exit_code'] == 0 else '  <<<<<< PROBLEM'
    print(f, e['level'], c.get('obligations'), c.get('discharged'), 'exit', e['exit_code'], flag)
PY
