"""debug helper: report slow solver checks of one contract"""
import sys, time, os
sys.path.insert(0, os.path.dirname(os.path.dirname(os.path.abspath(__file__))))
import z3
from pyvc import core
orig=core.Ctx._check
def timed(self,*extra):
    t0=time.time(); r=orig(self,*extra); dt=time.time()-t0
    if dt>0.5:
        print("SLOW %.1fs %s line=%s func=%s extra=%s"%(dt,r,self.cur_line,self.cur_func,[str(e)[:150].replace('\n',' ') for e in extra]))
    return r
core.Ctx._check=timed
from pyvc.driver import load_module
from pyvc.runner import verify_contract
cs=[c for c in load_module(sys.argv[1]) if sys.argv[2] in c.cid]
r=verify_contract(cs[0])
print(r['paths'], r['wall_s'], {k[:60]:(v['status'],round(v['secs'],1)) for k,v in r['obligations'].items()})
