#!/usr/bin/env python3
"""markdown table of the kept seeded changes and which checks catch them (from seeded/*/meta.json, 'rerun' if present)"""
import json, os, re
ROOT = os.path.dirname(os.path.dirname(os.path.abspath(__file__)))
rows = []
for sid in sorted(os.listdir(os.path.join(ROOT, "seeded")), key=lambda s: (s.split("-")[0], int(s.split("-")[1]))):
    mp = os.path.join(ROOT, "seeded", sid, "meta.json")
    if not os.path.exists(mp):
        continue
    m = json.load(open(mp))
    rr = m.get("rerun") or {}
    src = rr if rr.get("applies") else m
    det = src.get("detected_by") or []
    und = rr.get("undecided_by") or [p for p, r in (m.get("checks") or {}).items() if r.get("exit") == 2]
    first = ""
    for p in det[:1]:
        for l in (src.get("checks") or {}).get(p, {}).get("lines", []):
            if l.strip().startswith("obligation"):
                first = l.strip()[len("obligation "):]
                first = re.sub(r"\s*\[fails for.*", "", first)[:150]
                break
            if "bounded" in l:
                first = "bounded: " + ("uncertain-state enclosure" if "enclosure" in l else "spatial lookups vs planar geometry" if "spatial" in l else "float_to_str contract")
    patch = open(os.path.join(ROOT, "seeded", sid, "patch.diff")).read()
    files = sorted(set(re.findall(r"^\+\+\+ b/(\S+)", patch, re.M)))
    note = ""
    if rr and not rr.get("applies"):
        note = " (patch no longer applies to HEAD; result from when it was confirmed)"
    rows.append("| %s | %s | %s | %s | %s |" % (sid, ", ".join(f.replace("commonroad/", "") for f in files), (m.get("needs") or "")[:110].replace("|", "/"),
                                           (", ".join(det) if det else ("undecided (exit 2): " + ", ".join(und) if und else "**not caught**")) + note, first.replace("|", "/")))
print("| change | file(s) | needs | caught by | first failing obligation |")
print("|---|---|---|---|---|")
print("\n".join(rows))
