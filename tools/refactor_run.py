#!/usr/bin/env python3
"""Negative corpus: behaviour-preserving refactorings of /repo (selftest/refactorings/*.diff) must NOT raise an alarm.
For each: apply to /repo, run the baseline suite subset? (no: only the listed checks), expect exit 0 (2 = undecided is reported, 1 = false alarm), revert.
Writes selftest/refactorings/RESULTS.json.  usage: tools/refactor_run.py [name-prefix ...]"""
import json, os, subprocess, sys, time
ROOT = os.path.dirname(os.path.dirname(os.path.abspath(__file__)))
D = os.path.join(ROOT, "selftest", "refactorings")

def sh(cmd, cwd=None, env=None):
    e = dict(os.environ)
    if env: e.update(env)
    r = subprocess.run(cmd, shell=True, cwd=cwd, env=e, capture_output=True, text=True)
    return r.returncode, r.stdout + r.stderr

WT = os.environ.get("SEED_WT", "/tmp/refactor_wt")  # scratch worktree of /repo HEAD (VERIF_REPO): /repo itself is never touched


def main():
    made = not os.path.exists(WT)
    if made:
        sh("git -C /repo worktree add %s HEAD" % WT)
    try:
        _main()
    finally:
        if made:
            sh("git -C /repo worktree remove --force %s" % WT)


def _main():
    want = sys.argv[1:]
    head = sh("git -C /repo rev-parse --short HEAD")[1].strip()
    results = {}
    for f in sorted(os.listdir(D)):
        if not f.endswith(".diff") or (want and not any(f.startswith(w) for w in want)):
            continue
        name = f[:-5]
        txt = open(os.path.join(D, name + ".txt")).read()
        props = txt.split("\n")[0].replace("checks:", "").split()
        c, o = sh("git -C %s apply --check %s" % (WT, os.path.join(D, f)))
        if c != 0:
            results[name] = {"applies": False, "note": o.strip()[-200:]}
            print(name, "DOES-NOT-APPLY"); continue
        rec = {"applies": True, "repo_head": head, "checks": {}, "what": txt.split("\n", 1)[1].strip()}
        try:
            sh("git -C %s apply %s" % (WT, os.path.join(D, f)))
            ci, oi = sh("/venv/bin/python -c 'import commonroad.scenario.scenario, commonroad.common.solution, commonroad.visualization.mp_renderer'", WT, {"PYTHONPATH": WT})
            rec["imports"] = ci == 0
            for p in props:
                t0 = time.time()
                cc, oc = sh("./check %s" % p, ROOT, {"VERIF_REPO": WT, "VERIF_OUT": os.path.join(WT, ".verif_out"), "VERIF_JOBS": os.environ.get("VERIF_JOBS", "4")})
                rec["checks"][p] = {"exit": cc, "secs": round(time.time() - t0, 1),
                                    "lines": [l for l in oc.split("\n") if l.startswith(("VIOLATION", "UNDECIDED", "CHECKER"))][:4]}
        finally:
            sh("git -C %s checkout -- ." % WT)
        results[name] = rec
        print(name, {p: r["exit"] for p, r in rec["checks"].items()}, "imports" if rec["imports"] else "IMPORT-FAILS", flush=True)
    if want and os.path.exists(os.path.join(D, "RESULTS.json")):  # a partial run updates the stored results
        allr = json.load(open(os.path.join(D, "RESULTS.json")))
        allr.update(results)
        results = allr
    json.dump(results, open(os.path.join(D, "RESULTS.json"), "w"), indent=1)
    bad = [n for n, r in results.items() if r.get("applies") and any(c["exit"] == 1 for c in r["checks"].values())]
    und = [n for n, r in results.items() if r.get("applies") and any(c["exit"] >= 2 for c in r["checks"].values())]
    print("false alarms: %s; undecided: %s" % (bad or "none", und or "none"))

main()
