#!/usr/bin/env python3
"""Re-run every kept seeded change against the CURRENT checks and /repo HEAD, in a scratch worktree (VERIF_REPO; apply, demo, checks, undo; /repo untouched) and refresh
seeded/<id>/meta.json ('rerun' section) -- the table in DESIGN.md section 7 is generated from these files.
usage: tools/seed_rerun.py [id-prefix ...]"""
import json, os, subprocess, sys, time
ROOT = os.path.dirname(os.path.dirname(os.path.abspath(__file__)))

def sh(cmd, cwd=None, env=None):
    e = dict(os.environ)
    if env: e.update(env)
    r = subprocess.run(cmd, shell=True, cwd=cwd, env=e, capture_output=True, text=True)
    return r.returncode, (r.stdout + r.stderr)

WT = os.environ.get("SEED_WT", "/tmp/seed_rerun_wt")  # scratch worktree of /repo HEAD: /repo itself is never touched


def main():
    want = sys.argv[1:]
    made = not os.path.exists(WT)
    if made:
        sh("git -C /repo worktree add %s HEAD" % WT)
    try:
        _main(want)
    finally:
        if made:
            sh("git -C /repo worktree remove --force %s" % WT)


def _main(want):
    head = sh("git -C /repo rev-parse --short HEAD")[1].strip()
    for sid in sorted(os.listdir(os.path.join(ROOT, "seeded"))):
        d = os.path.join(ROOT, "seeded", sid)
        mp = os.path.join(d, "meta.json")
        if not os.path.exists(mp) or (want and not any(sid.startswith(w) for w in want)):
            continue
        meta = json.load(open(mp))
        props = [meta["property"]] + [p for p in (meta.get("checks") or {}) if p != meta["property"]]
        patch = os.path.join(d, "patch.diff")
        t0 = time.time()
        rr = {"repo_head": head, "checks": {}}
        c, o = sh("git -C %s apply --check %s" % (WT, patch))
        if c != 0:
            rr["applies"] = False
            rr["note"] = "patch no longer applies to /repo HEAD (the code it changes was repaired or rewritten): " + o.strip()[-200:]
        else:
            rr["applies"] = True
            try:
                sh("git -C %s apply %s" % (WT, patch))
                cd, od = sh("/venv/bin/python %s" % os.path.join(d, "demo.py"), WT, {"PYTHONPATH": WT, "MPLBACKEND": "Agg"})
                rr["demo_exit_with_change"] = cd
                for pr in props:
                    cc, oc = sh("./check %s" % pr, ROOT, {"VERIF_REPO": WT, "VERIF_OUT": os.path.join(WT, ".verif_out"), "VERIF_JOBS": os.environ.get("VERIF_JOBS", "4")})
                    lines = [l for l in oc.split("\n") if l.startswith(("VIOLATION", "UNDECIDED", "CHECKER", "  obligation"))][:6]
                    rr["checks"][pr] = {"exit": cc, "lines": lines}
            finally:
                sh("git -C %s checkout -- ." % WT)
        rr["detected_by"] = [p for p, r in rr["checks"].items() if r["exit"] == 1]
        rr["undecided_by"] = [p for p, r in rr["checks"].items() if r["exit"] == 2]
        rr["secs"] = round(time.time() - t0, 1)
        meta["rerun"] = rr
        json.dump(meta, open(mp, "w"), indent=1)
        print(sid, "applies" if rr["applies"] else "STALE", "demo=%s" % rr.get("demo_exit_with_change"), "detected_by=%s" % rr["detected_by"],
              "undecided_by=%s" % rr["undecided_by"], {k: v["exit"] for k, v in rr["checks"].items()}, "%.0fs" % rr["secs"], flush=True)

main()
