#!/usr/bin/env python3
"""Self-test of the checks against deliberate breakage (DESIGN.md section 7).
usage: tools/mutest.py <selftest/mutants/*.json ...> [--suite]
A mutant file: {"property": "C16", "file": "commonroad/common/util.py", "old": "...", "new": "...", "expect": "violation"|"held", "name": "..."}
The mutant is applied to /repo's working tree, the check is run, and the tree is restored (git checkout)."""
import json, subprocess, sys, os, glob
ROOT = os.path.dirname(os.path.dirname(os.path.abspath(__file__)))

def run(m, suite=False):
    path = os.path.join('/repo', m['file'])
    src = open(path).read()
    if src.count(m['old']) != m.get('count', 1):
        return {'name': m['name'], 'status': 'STALE (old text occurs %d times)' % src.count(m['old'])}
    try:
        open(path, 'w').write(src.replace(m['old'], m['new']))
        out = {}
        props = m['property'] if isinstance(m['property'], list) else [m['property']]
        codes = {}
        for p in props:
            r = subprocess.run([os.path.join(ROOT, 'check'), p], capture_output=True, text=True, cwd=ROOT)
            codes[p] = r.returncode
            out[p] = [l for l in r.stdout.split('\n') if l.startswith(('VIOLATION', 'UNDECIDED', 'CHECKER', 'KNOWN')) or l.startswith('  obligation')][:6]
        suite_ok = None
        if suite:
            suite_ok = subprocess.run([os.path.join(ROOT, 'tools/suite.sh')], capture_output=True, text=True).returncode == 0
    finally:
        open(path, 'w').write(src)
    detected = any(c == 1 for c in codes.values())
    expect = m.get('expect', 'violation')
    ok = detected if expect == 'violation' else all(c == 0 for c in codes.values())
    return {'name': m['name'], 'status': 'OK' if ok else 'MISSED' if expect == 'violation' else 'FALSE-ALARM', 'codes': codes, 'suite_passes': suite_ok, 'lines': out}

def main():
    suite = '--suite' in sys.argv
    files = [a for a in sys.argv[1:] if not a.startswith('--')] or sorted(glob.glob(os.path.join(ROOT, 'selftest/mutants/*.json')))
    bad = 0
    for f in files:
        for m in json.load(open(f)):
            r = run(m, suite)
            print(json.dumps(r))
            bad += r['status'] != 'OK'
    subprocess.run(['git', '-C', '/repo', 'status', '--short'])
    sys.exit(1 if bad else 0)
main()
