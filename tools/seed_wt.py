#!/usr/bin/env python3
"""Confirm a seeded change in its scratch worktree (demo passes clean / fails changed / suite passes changed),
then run the registered checks against it in the worktree (VERIF_REPO=<worktree>; /repo untouched) and store it under /verif/seeded/<id>/.
usage: tools/seed_confirm.py <worktree> <prop> <k> "<needs>" [extra props to run...]"""
import json, os, subprocess, sys, shutil
ROOT = os.path.dirname(os.path.dirname(os.path.abspath(__file__)))

def sh(cmd, cwd=None, env=None):
    e = dict(os.environ)
    if env: e.update(env)
    r = subprocess.run(cmd, shell=True, cwd=cwd, env=e, capture_output=True, text=True)
    return r.returncode, (r.stdout + r.stderr)

def main():
    wt, prop, k, needs = sys.argv[1:5]
    props = [prop] + sys.argv[5:]
    p = prop.lower()
    patch = os.path.join(wt, "seed_%s_%s.diff" % (p, k))
    demo = os.path.join(wt, "demo_%s_%s.py" % (p, k))
    sid = "%s-%d" % (prop, int(k) + int(os.environ.get("SEED_OFFSET", "0")))  # later rounds: SEED_OFFSET=3 stores change k as <prop>-(k+3)
    meta = {"id": sid, "property": prop, "needs": needs, "ran": []}
    sh("git checkout -- .", wt)
    c0, o0 = sh("/venv/bin/python %s" % demo, wt, {"PYTHONPATH": wt})
    meta["ran"].append({"cmd": "demo on unchanged worktree", "exit": c0})
    ca, oa = sh("git apply %s" % patch, wt)
    c1, o1 = sh("/venv/bin/python %s" % demo, wt, {"PYTHONPATH": wt})
    meta["ran"].append({"cmd": "demo with change", "exit": c1, "tail": o1.strip()[-300:]})
    cs, os_ = sh("%s %s" % (os.path.join(ROOT, "tools/suite.sh"), wt), None, {"PYTHONPATH": wt})
    meta["ran"].append({"cmd": "baseline suite with change (346 stable tests)", "exit": cs, "out": os_.strip()[-200:]})
    sh("git checkout -- .", wt)
    confirmed = (c0 == 0 and ca == 0 and c1 == 1 and cs == 0)
    meta["confirmed"] = confirmed
    # now the checks, against the scratch worktree itself (VERIF_REPO / VERIF_OUT): /repo is never touched, so several
    # confirmations and my own check runs can go on at the same time
    res = {}
    meta["applies_to_repo_head"] = sh("git -C /repo apply --check %s" % patch)[0] == 0
    out = os.path.join(wt, ".verif_out")
    sh("git apply %s" % patch, wt)
    try:
        for pr in props:
            cc, oc = sh("./check %s" % pr, ROOT, {"VERIF_REPO": wt, "VERIF_OUT": out, "VERIF_JOBS": os.environ.get("VERIF_JOBS", "4")})
            lines = [l for l in oc.split("\n") if l.startswith(("VIOLATION", "UNDECIDED", "CHECKER", "  obligation"))][:8]
            res[pr] = {"exit": cc, "lines": lines}
    finally:
        sh("git checkout -- .", wt)
        shutil.rmtree(out, ignore_errors=True)
    meta["checks"] = res
    meta["detected_by"] = [pr for pr, r in res.items() if r["exit"] == 1]
    d = os.path.join(ROOT, "seeded", sid)
    os.makedirs(d, exist_ok=True)
    shutil.copy(patch, os.path.join(d, "patch.diff"))
    shutil.copy(demo, os.path.join(d, "demo.py"))
    json.dump(meta, open(os.path.join(d, "meta.json"), "w"), indent=1)
    print(sid, "confirmed" if confirmed else "NOT-CONFIRMED", "detected_by=%s" % meta["detected_by"], {k: v["exit"] for k, v in res.items()}, "" if meta["applies_to_repo_head"] else "PATCH-DOES-NOT-APPLY")
    for pr, r in res.items():
        for l in r["lines"][:4]: print("    ", l[:220])
main()
