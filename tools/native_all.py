"""cross-check: run every contract of a module natively (real CPython, real libraries) on one concrete input per contract
(model value 1.0/1 for every symbolic input unless given) and report postconditions that fail natively.
usage: tools/native_all.py <module> [substr]"""
import sys, os, warnings
sys.set_int_max_str_digits(0)
sys.path.insert(0, os.path.dirname(os.path.dirname(os.path.abspath(__file__))))
warnings.simplefilter("ignore")
from pyvc.driver import load_module
from pyvc.replay import replay_native

class Vals(dict):
    def get(self, k, d=None):
        if k in self: return self[k]
        h = (hash(k) % 17) / 16.0 + 0.25
        # interval ends ('...0' / '...1') in order; angles stay within (-2pi, 2pi)
        return h + (2.0 if str(k).endswith("1") else 0.0)
mod = sys.argv[1]; pat = sys.argv[2] if len(sys.argv) > 2 else ""
bad = 0
for c in load_module(mod):
    if pat in c.cid:
        r = replay_native(c, Vals())
        ok = r["feasible"] and not r["failed"] and not r["error"]
        print("%-110s feasible=%s failed=%s err=%s out=%s" % (c.cid[:110], r["feasible"], r["failed"][:3], (r["error"] or "")[:120], (r["outcome"] or "")[:60]))
        bad += 0 if ok else 1
print("native cross-check: %d contract(s) with native failures" % bad)
