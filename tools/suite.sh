#!/bin/sh
# runs the pinned baseline suite in the given repo dir (default /repo) and compares with BASELINE.json stable_pass
D=${1:-/repo}
OUT=$(mktemp /tmp/junit.XXXXXX.xml)
cd "$D" && /venv/bin/python -m pytest -q -p no:cacheprovider --timeout=900 --continue-on-collection-errors --junitxml=$OUT >/dev/null 2>&1
/venv/bin/python - "$OUT" <<'PY'
import sys, json, xml.etree.ElementTree as ET
b = json.load(open('/root/.vp/BASELINE.json'))
ok = set()
for tc in ET.parse(sys.argv[1]).getroot().iter('testcase'):
    if not any(c.tag in ('failure', 'error', 'skipped') for c in tc):
        ok.add(tc.get('classname') + '::' + tc.get('name'))
missing = [t for t in b['stable_pass'] if t not in ok]
print("baseline: %d/%d stable tests pass" % (len(b['stable_pass']) - len(missing), len(b['stable_pass'])))
for m in missing: print("  FAILS:", m)
sys.exit(1 if missing else 0)
PY
R=$?
rm -f $OUT
exit $R
