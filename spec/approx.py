"""Spec of 'the same content' for file round trips (C01/C02): discrete content identical, reals within a tolerance."""
import enum

import numpy as np
import z3

from pyvc.contract import B, CACHE_ATTRS, R, T, _attrs_of, _is_num, conj
from pyvc.core import Sym, Unsupported
from pyvc.objects import NDArr, SObj


def _is_sym(v):
    return type(v) is Sym


def is_real_kind(v):
    if type(v) is Sym:
        return v.ty is not bool and not (v.ty is int or v.ty is np.int64)
    return isinstance(v, (float, np.floating))


# Frame comparisons (snapshot of an object vs the same object later: C18) switch this on: Polygon._vertices is constructor data there.
# Round-trip comparisons (C01 / C02: a polygon re-constructed from the file) leave it off: the re-oriented ring of the second
# construction is equal to the first only by an argument about the sign of the area polynomial that z3 does not find, and the
# counter-models did not replay (DESIGN.md section 10, entry 21).
POLYGON_VERTICES_PRIMARY = False


def approx_parts(a, b, tol, F=None, ignore=(), path=""):
    """(condition, parts): parts name every leaf comparison by its attribute path (for diagnostics)"""
    parts = []
    c = approx_eq(a, b, tol, F, ignore, path, True, 0, parts)
    return c, parts


def approx_eq(a, b, tol, F=None, ignore=(), path="", sets_as_sets=True, _depth=0, _parts=None):
    r = _approx_eq(a, b, tol, F, ignore, path, sets_as_sets, _depth, _parts)
    if _parts is not None and (_is_num(a) or _is_num(b) or a is None or b is None or isinstance(a, (str, bytes, enum.Enum, set, frozenset))
                               or z3.is_false(r) if z3.is_expr(r) else False):
        _parts.append((path or "<root>", r))
    return r


def _approx_eq(a, b, tol, F=None, ignore=(), path="", sets_as_sets=True, _depth=0, _parts=None):
    """z3 Bool: b reproduces a -- ints / bools / enums / strings / which-attributes-are-set identical,
    reals |a-b| < tol (tol == 0: identical), containers element-wise (sets as sets)."""
    if _depth > 40:
        raise Unsupported("approx_eq depth")
    if a is b and not _is_num(a):
        return z3.BoolVal(True)
    if _is_num(a) and _is_num(b):
        ka = isinstance(a, (bool, np.bool_)) or (type(a) is Sym and a.ty is bool)
        kb = isinstance(b, (bool, np.bool_)) or (type(b) is Sym and b.ty is bool)
        if ka != kb:
            return z3.BoolVal(False)
        if ka:
            return B(a) == B(b)
        if is_real_kind(a) or is_real_kind(b):
            if z3.is_expr(tol) or tol != 0:
                d = R(a) - R(b)
                return z3.And(d < tol, -d < tol)
            return R(a) == R(b)
        return R(a) == R(b)
    if _is_num(a) or _is_num(b):
        return z3.BoolVal(False)
    if (a is None and isinstance(b, list) and not b and path.endswith("_signal_series")) or (b is None and isinstance(a, list) and not a and path.endswith("_signal_series")):
        return z3.BoolVal(True)  # an absent signal series and an empty one are the same content
    if a is None or b is None:
        return z3.BoolVal(a is None and b is None)
    if isinstance(a, (str, bytes, type)) or isinstance(b, (str, bytes, type)):
        return z3.BoolVal(a == b)
    if isinstance(a, enum.Enum) or isinstance(b, enum.Enum):
        return z3.BoolVal(a is b)
    arr_a = type(a) is NDArr or isinstance(a, np.ndarray)
    arr_b = type(b) is NDArr or isinstance(b, np.ndarray)
    if arr_a or arr_b:
        if not (arr_a and arr_b) or tuple(a.shape) != tuple(b.shape):
            return z3.BoolVal(False)
        fa = a.flat() if type(a) is NDArr else list(a.flat)
        fb = b.flat() if type(b) is NDArr else list(b.flat)
        return conj(approx_eq(x if type(x) is Sym else float(x), y if type(y) is Sym else float(y), tol, None, (), "%s<%d>" % (path, i), True, _depth + 1, _parts)
                    for i, (x, y) in enumerate(zip(fa, fb)))
    if isinstance(a, (list, tuple)) and isinstance(b, (list, tuple)):
        if len(a) != len(b):
            return z3.BoolVal(False)
        return conj(approx_eq(x, y, tol, F, ignore, "%s[%d]" % (path, i), sets_as_sets, _depth + 1, _parts) for i, (x, y) in enumerate(zip(a, b)))
    if isinstance(a, dict) and isinstance(b, dict):
        from pyvc.interp import unkey

        ka, kb = {unkey(k): v for k, v in a.items()}, {unkey(k): v for k, v in b.items()}
        try:
            if set(ka.keys()) != set(kb.keys()):
                return z3.BoolVal(False)
        except Exception:
            raise Unsupported("approx_eq on dicts with symbolic keys")
        return conj(approx_eq(ka[k], kb[k], tol, F, ignore, "%s[%r]" % (path, k), sets_as_sets, _depth + 1, _parts) for k in ka)
    if isinstance(a, (set, frozenset)) and isinstance(b, (set, frozenset)):
        from pyvc.interp import unkey

        sa, sb = [unkey(k) for k in a], [unkey(k) for k in b]
        if len(sa) != len(sb):
            return z3.BoolVal(False)
        try:
            return z3.BoolVal(set(sa) == set(sb))
        except Exception:
            raise Unsupported("approx_eq on sets of model objects")
    ca = a.cls if type(a) is SObj else type(a)
    cb = b.cls if type(b) is SObj else type(b)
    if ca is not cb:
        return z3.BoolVal(False)
    da, db = _attrs_of(a), _attrs_of(b)
    if da is None or db is None:
        try:
            return z3.BoolVal(bool(a == b))
        except Exception:
            raise Unsupported("approx_eq on %r" % ca)
    ig = set(ignore) | set(CACHE_ATTRS)
    if POLYGON_VERTICES_PRIMARY and getattr(ca, "__name__", "") == "Polygon":
        ig.discard("_vertices")  # primary data of a Polygon (a derived cache only for Rectangle)
    # an attribute that is absent on one side and None on the other is 'unset' on both
    def unset(k, v):
        # an absent value and an empty collection carry the same (no) content
        if v is None or (isinstance(v, (list, set, frozenset, dict)) and len(v) == 0):
            return True
        # a traffic-light cycle without elements carries no content: both readers return it for a light without a cycle
        if (v.cls.__name__ if type(v) is SObj else type(v).__name__) == "TrafficLightCycle":
            d = _attrs_of(v) or {}
            off = d.get("_time_offset")
            return not d.get("_cycle_elements") and (off is None or (not _is_sym(off) and off == 0))
        return False

    ka = {k for k in da if k not in ig and not unset(k, da[k])}
    kb = {k for k in db if k not in ig and not unset(k, db[k])}
    extra = []
    if getattr(ca, "__name__", "") == "InitialState" and ka < kb:
        # the reader's documented default: attributes an initial state leaves unset read back as 0
        for k in sorted(kb - ka):
            v = db[k]
            extra.append(R(v) == 0 if _is_num(v) else z3.BoolVal(False))
        kb = ka
    if ka != kb:
        if _parts is not None:
            _parts.append((path + " attributes set on one side only: %s" % sorted(ka ^ kb), z3.BoolVal(False)))
        return z3.BoolVal(False)
    return conj([approx_eq(da[k], db[k], tol, F, ignore, path + "." + k, sets_as_sets, _depth + 1, _parts) for k in sorted(ka)] + extra)


def first_difference(a, b, tol, F=None, ignore=(), path="", model=None):
    """debug helper: path of the first attribute where approx_eq is definitely false (structural differences only)"""
    return None
