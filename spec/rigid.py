"""Spec of the rigid motion of C05, written from the property text: p -> R(a)(p + t), th -> th + a."""
import numpy as np
import z3

from commonroad.common.util import AngleInterval, Interval
from commonroad.geometry.shape import Circle, Polygon, Rectangle, ShapeGroup
from pyvc.contract import B, R, conj
from pyvc.core import PI
from pyvc.ops import COS, SIN
from spec.sets import TWO_PI, angle_eq


def sc(a):
    from pyvc import core, ops

    a = z3.simplify(R(a))
    if core.CURRENT is not None and not z3.is_rational_value(a):
        ops._trig_axioms(core.CURRENT, a)
    return SIN(a), COS(a)


def rigid_pt(p, t, a):
    """R(a)(p + t) for points given as (x, y) pairs of terms/numbers"""
    s, c = sc(a)
    x, y = R(p[0]) + R(t[0]), R(p[1]) + R(t[1])
    return (c * x - s * y, s * x + c * y)


def pt_eq(p, q):
    return z3.And(R(p[0]) == q[0], R(p[1]) == q[1])


def orientation_moved(new, old, a):
    """th' == th + a as an angle, and th' is a valid orientation"""
    return z3.And(angle_eq(new, R(old) + R(a), 3), R(new) <= TWO_PI, R(new) >= -TWO_PI)


def interval_moved(F, new, old, a):
    """orientation interval shifted as a set (mod 2pi)"""
    s0, e0 = R(F.attr(old, "start")), R(F.attr(old, "end"))
    s1, e1 = R(F.attr(new, "start")), R(F.attr(new, "end"))
    return z3.And(F.isinstance(new, AngleInterval), s1 >= -TWO_PI, e1 <= TWO_PI,
                  z3.Or(*[z3.And(s1 == s0 + R(a) + TWO_PI * k, e1 == e0 + R(a) + TWO_PI * k) for k in range(-3, 4)]))


def xy(F, arr):
    e = F.elems(arr)
    return (e[0], e[1])


def ring_moved(F, new_vertices, old_vertices, t, a):
    """every vertex is the image of the corresponding old vertex (same order or reversed ring)"""
    ne, oe = F.elems(new_vertices), F.elems(old_vertices)
    if len(ne) != len(oe):
        return z3.BoolVal(False)
    n = len(ne) // 2
    same = conj(pt_eq((ne[2 * i], ne[2 * i + 1]), rigid_pt((oe[2 * i], oe[2 * i + 1]), t, a)) for i in range(n))
    rev = conj(pt_eq((ne[2 * i], ne[2 * i + 1]), rigid_pt((oe[2 * (n - 1 - i)], oe[2 * (n - 1 - i) + 1]), t, a)) for i in range(n))
    return z3.Or(same, rev)


def shape_moved(F, new, old, t, a):
    """`new` is `old` moved by the rigid motion; dimensions unchanged"""
    if F.isinstance(old, Rectangle):
        if not F.isinstance(new, Rectangle):
            return z3.BoolVal(False)
        return z3.And(
            pt_eq(xy(F, F.attr(new, "center")), rigid_pt(xy(F, F.attr(old, "center")), t, a)),
            orientation_moved(F.attr(new, "orientation"), F.attr(old, "orientation"), a),
            R(F.attr(new, "length")) == R(F.attr(old, "length")),
            R(F.attr(new, "width")) == R(F.attr(old, "width")),
        )
    if F.isinstance(old, Circle):
        if not F.isinstance(new, Circle):
            return z3.BoolVal(False)
        return z3.And(
            pt_eq(xy(F, F.attr(new, "center")), rigid_pt(xy(F, F.attr(old, "center")), t, a)),
            R(F.attr(new, "radius")) == R(F.attr(old, "radius")),
        )
    if F.isinstance(old, Polygon):
        if not F.isinstance(new, Polygon):
            return z3.BoolVal(False)
        return ring_moved(F, F.attr(new, "vertices"), F.attr(old, "vertices"), t, a)
    if F.isinstance(old, ShapeGroup):
        if not F.isinstance(new, ShapeGroup):
            return z3.BoolVal(False)
        ns, os_ = F.items(F.attr(new, "shapes")), F.items(F.attr(old, "shapes"))
        if len(ns) != len(os_):
            return z3.BoolVal(False)
        return conj(shape_moved(F, x, y, t, a) for x, y in zip(ns, os_))
    raise NotImplementedError("shape_moved for %r" % F.type(old))


def polyline_moved(F, new, old, t, a):
    ne, oe = F.elems(new), F.elems(old)
    if len(ne) != len(oe):
        return z3.BoolVal(False)
    return conj(pt_eq((ne[2 * i], ne[2 * i + 1]), rigid_pt((oe[2 * i], oe[2 * i + 1]), t, a)) for i in range(len(ne) // 2))


# ------------------------------------------------------------------------------ generic image of an object graph

from pyvc.contract import CACHE_ATTRS, _attrs_of, deep_eq  # noqa: E402


def _spatial_table():
    import commonroad.scenario.state as st
    from commonroad.common.common_lanelet import StopLine
    from commonroad.planning.goal import GoalRegion
    from commonroad.planning.planning_problem import PlanningProblem, PlanningProblemSet
    from commonroad.prediction.prediction import Occupancy, SetBasedPrediction, TrajectoryPrediction
    from commonroad.scenario.lanelet import Lanelet, LaneletNetwork
    from commonroad.scenario.obstacle import DynamicObstacle, EnvironmentObstacle, PhantomObstacle, StaticObstacle
    from commonroad.scenario.scenario import Scenario
    from commonroad.scenario.traffic_light import TrafficLight
    from commonroad.scenario.traffic_sign import TrafficSign
    from commonroad.scenario.trajectory import Trajectory

    return {
        StopLine: {"_start": "point", "_end": "point"},
        TrafficSign: {"_position": "point"},
        TrafficLight: {"_position": "point"},
        Lanelet: {"_left_vertices": "polyline", "_center_vertices": "polyline", "_right_vertices": "polyline",
                  "_stop_line": "obj", "_polygon": "obj"},
        LaneletNetwork: {"_lanelets": "objdict", "_traffic_signs": "objdict", "_traffic_lights": "objdict"},
        Trajectory: {"_state_list": "objlist"},
        Occupancy: {"_shape": "obj"},
        SetBasedPrediction: {"_occupancy_set": "objlist"},
        TrajectoryPrediction: {"_trajectory": "obj"},
        StaticObstacle: {"_initial_state": "obj", "_initial_occupancy_shape": "ignore"},
        DynamicObstacle: {"_initial_state": "obj", "_prediction": "obj", "_initial_occupancy_shape": "ignore", "history": "ignore"},
        PhantomObstacle: {"_prediction": "obj"},
        EnvironmentObstacle: {"_obstacle_shape": "obj"},
        Scenario: {"_static_obstacles": "objdict", "_dynamic_obstacles": "objdict", "_phantom_obstacle": "objdict",
                   "_environment_obstacle": "objdict", "_lanelet_network": "obj"},
        GoalRegion: {"_state_list": "objlist"},
        PlanningProblem: {"_initial_state": "obj", "_goal_region": "obj"},
        PlanningProblemSet: {"_planning_problem_dict": "objdict"},
    }


_TABLE = None


def image(F, old, new, t, a):
    """`new` is the image of `old` under p -> R(a)(p+t), th -> th+a: spatial attributes moved, all others equal"""
    global _TABLE
    import commonroad.scenario.state as st

    if _TABLE is None:
        _TABLE = _spatial_table()
    if old is None or new is None:
        return z3.BoolVal(old is None and new is None)
    if F.isinstance(old, (Rectangle, Circle, Polygon, ShapeGroup)):
        return shape_moved(F, new, old, t, a)
    if F.type(old) is not F.type(new):
        return z3.BoolVal(False)
    cls = F.type(old)
    if issubclass(cls, st.State):
        return state_image(F, old, new, t, a)
    spec = None
    for k in cls.__mro__:
        if k in _TABLE:
            spec = _TABLE[k]
            break
    if spec is None:
        return deep_eq(old, new, F, CACHE_ATTRS)
    do, dn = _attrs_of(old), _attrs_of(new)
    conds = []
    keys = set(do) | set(dn)
    for k in sorted(keys):
        kind = spec.get(k, "ignore" if k in CACHE_ATTRS else "eq")
        if kind == "ignore":
            continue
        if k not in do or k not in dn:
            conds.append(False)
            continue
        o, n = do[k], dn[k]
        if kind == "eq":
            conds.append(deep_eq(o, n, F, CACHE_ATTRS))
        elif kind == "point":
            eo, en = F.elems(o), F.elems(n)
            conds.append(z3.BoolVal(len(eo) == len(en) == 2))
            if len(eo) == len(en) == 2:
                conds.append(pt_eq((en[0], en[1]), rigid_pt((eo[0], eo[1]), t, a)))
        elif kind == "polyline":
            conds.append(z3.BoolVal(F.shape(o) == F.shape(n)))
            conds.append(polyline_moved(F, n, o, t, a))
        elif kind == "obj":
            conds.append(image(F, o, n, t, a))
        elif kind == "objlist":
            if len(o) != len(n):
                conds.append(False)
            else:
                conds.extend(image(F, x, y, t, a) for x, y in zip(o, n))
        elif kind == "objdict":
            if set(o.keys()) != set(n.keys()):
                conds.append(False)
            else:
                conds.extend(image(F, o[key], n[key], t, a) for key in o)
    return conj(conds)


def state_image(F, old, new, t, a):
    import commonroad.scenario.state as st

    do, dn = _attrs_of(old), _attrs_of(new)
    if set(do) != set(dn):
        return z3.BoolVal(False)
    conds = []
    pm = F.type(old) is st.PMState
    for k in sorted(do):
        o, n = do[k], dn[k]
        if o is None or n is None:
            conds.append(o is None and n is None)
        elif k == "position":
            if F.isinstance(o, (Rectangle, Circle, Polygon, ShapeGroup)):
                conds.append(shape_moved(F, n, o, t, a))
            else:
                conds.append(pt_eq(xy(F, n), rigid_pt(xy(F, o), t, a)))
        elif k == "orientation":
            if F.isinstance(o, AngleInterval):
                conds.append(interval_moved(F, n, o, a))
            else:
                conds.append(orientation_moved(n, o, a))
        elif pm and k in ("velocity", "velocity_y") and not F.isinstance(do["velocity"], Interval) and do.get("velocity_y") is not None \
                and not F.isinstance(do["velocity_y"], Interval):
            s, c = sc(a)
            vx, vy = R(do["velocity"]), R(do["velocity_y"])
            conds.append(R(n) == (c * vx - s * vy if k == "velocity" else s * vx + c * vy))
        else:
            conds.append(deep_eq(o, n, F, CACHE_ATTRS))
    return conj(conds)


# ------------------------------------------------------------------------------ placement (C04)


def placed(F, new, local, p, th):
    """`new` is `local` rotated by th about its own reference point and moved by p (property C04)"""
    if F.isinstance(local, Rectangle):
        if not F.isinstance(new, Rectangle):
            return z3.BoolVal(False)
        c0, c1 = xy(F, F.attr(local, "center")), xy(F, F.attr(new, "center"))
        return z3.And(R(c1[0]) == R(c0[0]) + R(p[0]), R(c1[1]) == R(c0[1]) + R(p[1]),
                      angle_eq(F.attr(new, "orientation"), R(F.attr(local, "orientation")) + R(th), 3),
                      R(F.attr(new, "orientation")) <= TWO_PI, R(F.attr(new, "orientation")) >= -TWO_PI,
                      R(F.attr(new, "length")) == R(F.attr(local, "length")), R(F.attr(new, "width")) == R(F.attr(local, "width")))
    if F.isinstance(local, Circle):
        if not F.isinstance(new, Circle):
            return z3.BoolVal(False)
        c0, c1 = xy(F, F.attr(local, "center")), xy(F, F.attr(new, "center"))
        return z3.And(R(c1[0]) == R(c0[0]) + R(p[0]), R(c1[1]) == R(c0[1]) + R(p[1]),
                      R(F.attr(new, "radius")) == R(F.attr(local, "radius")))
    if F.isinstance(local, ShapeGroup):
        if not F.isinstance(new, ShapeGroup):
            return z3.BoolVal(False)
        ns, ls = F.items(F.attr(new, "shapes")), F.items(F.attr(local, "shapes"))
        if len(ns) != len(ls):
            return z3.BoolVal(False)
        return conj(placed(F, x, y, p, th) for x, y in zip(ns, ls))
    raise NotImplementedError("placed for %r" % F.type(local))
