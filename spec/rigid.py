"""Spec of the rigid motion of C05, written from the property text: p -> R(a)(p + t), th -> th + a."""
import numpy as np
import z3

from commonroad.common.util import AngleInterval, Interval
from commonroad.geometry.shape import Circle, Polygon, Rectangle, ShapeGroup
from pyvc.contract import B, R, conj
from pyvc.core import PI
from pyvc.ops import COS, SIN
from spec.sets import TWO_PI, angle_eq


def sc(a):
    from pyvc import core, ops

    a = z3.simplify(R(a))
    if core.CURRENT is not None and not z3.is_rational_value(a):
        ops._trig_axioms(core.CURRENT, a)
    return SIN(a), COS(a)


def rigid_pt(p, t, a):
    """R(a)(p + t) for points given as (x, y) pairs of terms/numbers"""
    s, c = sc(a)
    x, y = R(p[0]) + R(t[0]), R(p[1]) + R(t[1])
    return (c * x - s * y, s * x + c * y)


def pt_eq(p, q):
    return z3.And(R(p[0]) == q[0], R(p[1]) == q[1])


def orientation_moved(new, old, a):
    """th' == th + a as an angle, and th' is a valid orientation"""
    return z3.And(angle_eq(new, R(old) + R(a), 3), R(new) <= TWO_PI, R(new) >= -TWO_PI)


def interval_moved(F, new, old, a):
    """orientation interval shifted as a set (mod 2pi)"""
    s0, e0 = R(F.attr(old, "start")), R(F.attr(old, "end"))
    s1, e1 = R(F.attr(new, "start")), R(F.attr(new, "end"))
    return z3.And(F.isinstance(new, AngleInterval), s1 >= -TWO_PI, e1 <= TWO_PI,
                  z3.Or(*[z3.And(s1 == s0 + R(a) + TWO_PI * k, e1 == e0 + R(a) + TWO_PI * k) for k in range(-3, 4)]))


def xy(F, arr):
    e = F.elems(arr)
    return (e[0], e[1])


def ring_moved(F, new_vertices, old_vertices, t, a):
    """every vertex is the image of the corresponding old vertex (same order or reversed ring)"""
    ne, oe = F.elems(new_vertices), F.elems(old_vertices)
    if len(ne) != len(oe):
        return z3.BoolVal(False)
    n = len(ne) // 2
    same = conj(pt_eq((ne[2 * i], ne[2 * i + 1]), rigid_pt((oe[2 * i], oe[2 * i + 1]), t, a)) for i in range(n))
    rev = conj(pt_eq((ne[2 * i], ne[2 * i + 1]), rigid_pt((oe[2 * (n - 1 - i)], oe[2 * (n - 1 - i) + 1]), t, a)) for i in range(n))
    return z3.Or(same, rev)


def shape_moved(F, new, old, t, a):
    """`new` is `old` moved by the rigid motion; dimensions unchanged"""
    if F.isinstance(old, Rectangle):
        if not F.isinstance(new, Rectangle):
            return z3.BoolVal(False)
        return z3.And(
            pt_eq(xy(F, F.attr(new, "center")), rigid_pt(xy(F, F.attr(old, "center")), t, a)),
            orientation_moved(F.attr(new, "orientation"), F.attr(old, "orientation"), a),
            R(F.attr(new, "length")) == R(F.attr(old, "length")),
            R(F.attr(new, "width")) == R(F.attr(old, "width")),
        )
    if F.isinstance(old, Circle):
        if not F.isinstance(new, Circle):
            return z3.BoolVal(False)
        return z3.And(
            pt_eq(xy(F, F.attr(new, "center")), rigid_pt(xy(F, F.attr(old, "center")), t, a)),
            R(F.attr(new, "radius")) == R(F.attr(old, "radius")),
        )
    if F.isinstance(old, Polygon):
        if not F.isinstance(new, Polygon):
            return z3.BoolVal(False)
        return ring_moved(F, F.attr(new, "vertices"), F.attr(old, "vertices"), t, a)
    if F.isinstance(old, ShapeGroup):
        if not F.isinstance(new, ShapeGroup):
            return z3.BoolVal(False)
        ns, os_ = F.items(F.attr(new, "shapes")), F.items(F.attr(old, "shapes"))
        if len(ns) != len(os_):
            return z3.BoolVal(False)
        return conj(shape_moved(F, x, y, t, a) for x, y in zip(ns, os_))
    raise NotImplementedError("shape_moved for %r" % F.type(old))


def polyline_moved(F, new, old, t, a):
    ne, oe = F.elems(new), F.elems(old)
    if len(ne) != len(oe):
        return z3.BoolVal(False)
    return conj(pt_eq((ne[2 * i], ne[2 * i + 1]), rigid_pt((oe[2 * i], oe[2 * i + 1]), t, a)) for i in range(len(ne) // 2))
