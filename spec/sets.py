"""Spec vocabulary for intervals and angles (DESIGN.md section 4).  Written from the property
statements, independently of the code under verification.  All functions return z3 terms."""
import z3

from pyvc.contract import R, B, conj, disj
from pyvc.core import PI

TWO_PI = 2 * PI


def mem(x, a, b):
    """x in the closed interval [a, b]"""
    return z3.And(R(a) <= R(x), R(x) <= R(b))


def amem(th, a, b, K=3):
    """th + 2*pi*k in [a, b] for some integer k with |k| <= K (K is justified by range preconditions)"""
    th, a, b = R(th), R(a), R(b)
    return z3.Or(*[z3.And(a <= th + TWO_PI * k, th + TWO_PI * k <= b) for k in range(-K, K + 1)])


def angle_eq(u, v, K=3):
    u, v = R(u), R(v)
    return z3.Or(*[u == v + TWO_PI * k for k in range(-K, K + 1)])


def rigid(t, a_sin, a_cos, p):
    """R(a)(p + t) with the rotation given by (sin a, cos a)"""
    x, y = R(p[0]) + R(t[0]), R(p[1]) + R(t[1])
    return (a_cos * x - a_sin * y, a_sin * x + a_cos * y)


def wrap0(x, K=2):
    """x + 2*pi*k for the k in [-K, K] that brings it into [0, 2pi) (x itself outside that range of k)"""
    x = R(x)
    r = x
    for k in range(-K, K + 1):
        y = x + TWO_PI * k
        r = z3.If(z3.And(y >= 0, y < TWO_PI), y, r)
    return r
